// yieldify instruments a copy of selected lemochain-core source files for the
// deterministic simulator and emits a `go build -overlay` file. It never edits /repo.
//
// Transformations (see DESIGN.md §3.1):
//
//	T1 simrt.Yield(site) before every statement (focus files only)
//	T2 go f(x)            -> simrt.Go(site, func(){...}) with operands evaluated first
//	T3 sync.Mutex/RWMutex/Once -> simrt.Mutex/RWMutex/Once
//	T4 range over a map    -> range over simrt.MapOrder (sorted, tape-permuted keys)
//	T5 select (>=2 comm cases) -> polled in simrt.SelectOrder, then blocking
//	T6 time.AfterFunc      -> simrt.AfterFunc
//	T9 time.NewTimer/NewTicker/After, (*Timer).Reset, (*Ticker).Reset -> simrt.* (unique firing instants)
//	T7 os.* / leveldb.OpenFile -> simos / simldb (listed files only)
//	T8 listed package-level variables -> node-local accessors (defined in hook files)
package main

import (
	"bytes"
	"encoding/json"
	"flag"
	"fmt"
	"go/ast"
	"go/constant"
	"go/format"
	"go/parser"
	"go/printer"
	"go/token"
	"go/types"
	"os"
	"path/filepath"
	"sort"
	"strconv"
	"strings"

	"golang.org/x/tools/go/ast/astutil"
	"golang.org/x/tools/go/packages"
)

const repoMod = "github.com/LemoFoundationLtd/lemochain-core"
const simrtPath = "verif/simrt"
const simosPath = "verif/simrt/simos"
const simldbPath = "verif/simrt/simldb"

type Config struct {
	// Packages (relative to the repo module) whose files get T2-T6 (+T4).
	Packages []string `json:"packages"`
	// Focus: files or directories (relative paths) that additionally get T1.
	Focus []string `json:"focus"`
	// SimOS: files whose "os" import is redirected to simos (T7).
	SimOS []string `json:"simos"`
	// SimLDB: files whose leveldb.OpenFile/RecoverFile are redirected (T7).
	SimLDB []string `json:"simldb"`
	// NodeLocal: "pkg/path.var" package-level variables made node-local (T8).
	NodeLocal []string `json:"node_local"`
	// MapOnly: packages that only get T4 (map order), nothing else.
	MapOnly []string `json:"map_only"`
	// NativeMaps: "file.go:Recv.Func" functions whose map ranges stay native (no T4): loops whose iteration order
	// cannot reach any observable result (counting, clearing a cache) and that a flood can drive to large sizes,
	// where the sorted copy of the keys made for every instrumented range would dominate time and allocation.
	NativeMaps []string `json:"native_maps"`
}

type site struct {
	ID   int    `json:"id"`
	Pos  string `json:"pos"`
	Kind string `json:"kind"`
}

var (
	sites   []site
	report  []string
	fsetG   *token.FileSet
	repoDir string
)

func newSite(pos token.Pos, kind string) int {
	id := len(sites) + 1
	p := fsetG.Position(pos)
	rel, _ := filepath.Rel(repoDir, p.Filename)
	sites = append(sites, site{ID: id, Pos: fmt.Sprintf("%s:%d", rel, p.Line), Kind: kind})
	return id
}

func main() {
	var cfgPath, outDir, hooksDir string
	flag.StringVar(&repoDir, "repo", "/repo", "repository root")
	flag.StringVar(&cfgPath, "config", "", "config json")
	flag.StringVar(&outDir, "out", "", "output directory for instrumented files")
	flag.StringVar(&hooksDir, "hooks", "", "directory with overlay-added hook files (<pkg>/verif_export.go)")
	flag.Parse()
	if cfgPath == "" || outDir == "" {
		fmt.Fprintln(os.Stderr, "usage: yieldify -repo /repo -config cfg.json -out dir [-hooks dir]")
		os.Exit(2)
	}
	var cfg Config
	b, err := os.ReadFile(cfgPath)
	must(err)
	must(json.Unmarshal(b, &cfg))

	var patterns []string
	for _, p := range append(append([]string{}, cfg.Packages...), cfg.MapOnly...) {
		patterns = append(patterns, repoMod+"/"+p)
	}
	pcfg := &packages.Config{
		Mode: packages.NeedName | packages.NeedFiles | packages.NeedCompiledGoFiles | packages.NeedSyntax |
			packages.NeedTypes | packages.NeedTypesInfo | packages.NeedImports,
		Dir: repoDir,
		Env: append(os.Environ(), "GOFLAGS=-mod=mod", "GOPROXY=off", "GOSUMDB=off"),
	}
	pkgs, err := packages.Load(pcfg, patterns...)
	must(err)
	nerr := 0
	for _, p := range pkgs {
		for _, e := range p.Errors {
			fmt.Fprintf(os.Stderr, "yieldify: load error in %s: %v\n", p.PkgPath, e)
			nerr++
		}
	}
	if nerr > 0 {
		os.Exit(2)
	}

	mapOnly := map[string]bool{}
	for _, p := range cfg.MapOnly {
		mapOnly[repoMod+"/"+p] = true
	}
	nodeLocal := map[string]bool{}
	for _, v := range cfg.NodeLocal {
		nodeLocal[repoMod+"/"+v] = true
	}
	isIn := func(list []string, rel string) bool {
		for _, f := range list {
			if f == rel || strings.HasPrefix(rel, strings.TrimSuffix(f, "/")+"/") {
				return true
			}
		}
		return false
	}

	overlay := map[string]string{}
	sort.Slice(pkgs, func(i, j int) bool { return pkgs[i].PkgPath < pkgs[j].PkgPath })
	for _, p := range pkgs {
		fsetG = p.Fset
		for i, f := range p.Syntax {
			fn := p.CompiledGoFiles[i]
			rel, _ := filepath.Rel(repoDir, fn)
			if strings.HasSuffix(fn, "_test.go") {
				continue
			}
			in := &instr{
				pkg: p, file: f, rel: rel,
				focus:     !mapOnly[p.PkgPath] && isIn(cfg.Focus, rel),
				full:      !mapOnly[p.PkgPath],
				simos:     isIn(cfg.SimOS, rel),
				simldb:    isIn(cfg.SimLDB, rel),
				nativeMap: nativeFuncsOf(cfg.NativeMaps, rel),
				nodeLocal: nodeLocal,
			}
			changed := in.run()
			if !changed {
				continue
			}
			var buf bytes.Buffer
			f.Comments = keepHeaderComments(f)
			must((&printer.Config{Mode: printer.UseSpaces | printer.TabIndent, Tabwidth: 8}).Fprint(&buf, p.Fset, f))
			src, ferr := format.Source(buf.Bytes())
			if ferr != nil {
				// keep the unformatted text for diagnosis
				src = buf.Bytes()
				fmt.Fprintf(os.Stderr, "yieldify: %s does not re-parse: %v\n", rel, ferr)
				dst := filepath.Join(outDir, rel)
				os.MkdirAll(filepath.Dir(dst), 0755)
				os.WriteFile(dst+".bad", src, 0644)
				os.Exit(2)
			}
			dst := filepath.Join(outDir, rel)
			must(os.MkdirAll(filepath.Dir(dst), 0755))
			must(os.WriteFile(dst, src, 0644))
			overlay[fn] = dst
		}
	}
	// hook files: overlay-ADDED files
	if hooksDir != "" {
		filepath.Walk(hooksDir, func(path string, info os.FileInfo, err error) error {
			if err != nil || info.IsDir() || !strings.HasSuffix(path, ".go") {
				return nil
			}
			rel, _ := filepath.Rel(hooksDir, path)
			overlay[filepath.Join(repoDir, rel)] = path
			return nil
		})
	}
	ov, _ := json.MarshalIndent(map[string]interface{}{"Replace": overlay}, "", " ")
	must(os.WriteFile(filepath.Join(outDir, "overlay.json"), ov, 0644))
	sj, _ := json.Marshal(sites)
	must(os.WriteFile(filepath.Join(outDir, "sites.json"), sj, 0644))
	must(os.WriteFile(filepath.Join(outDir, "report.txt"), []byte(strings.Join(report, "\n")+"\n"), 0644))
	fmt.Printf("yieldify: %d files instrumented, %d sites, %d notes\n", len(overlay), len(sites), len(report))
}

func must(err error) {
	if err != nil {
		fmt.Fprintln(os.Stderr, "yieldify:", err)
		os.Exit(2)
	}
}

// keepHeaderComments keeps only comment groups that end before the package clause
// (licence, build constraints). Comments inside bodies are dropped: go/printer would
// misplace them after statements have been inserted.
func keepHeaderComments(f *ast.File) []*ast.CommentGroup {
	var out []*ast.CommentGroup
	for _, cg := range f.Comments {
		if cg.End() < f.Package {
			out = append(out, cg)
		}
	}
	f.Doc = nil
	ast.Inspect(f, func(n ast.Node) bool {
		switch x := n.(type) {
		case *ast.FuncDecl:
			x.Doc = nil
		case *ast.GenDecl:
			x.Doc = nil
		case *ast.Field:
			x.Doc, x.Comment = nil, nil
		case *ast.ValueSpec:
			x.Doc, x.Comment = nil, nil
		case *ast.TypeSpec:
			x.Doc, x.Comment = nil, nil
		case *ast.ImportSpec:
			x.Doc, x.Comment = nil, nil
		}
		return true
	})
	return out
}

type instr struct {
	pkg       *packages.Package
	file      *ast.File
	rel       string
	focus     bool
	full      bool
	simos     bool
	simldb    bool
	nativeMap map[string]bool // functions ("Recv.Func") of this file whose map ranges stay native
	nodeLocal map[string]bool

	changed    bool
	needSimrt  bool
	needSimldb bool
	tmp        int
	addImports map[string]string // path -> name
	labeled    map[ast.Stmt]bool
}

func (in *instr) note(pos token.Pos, msg string) {
	p := in.pkg.Fset.Position(pos)
	report = append(report, fmt.Sprintf("%s:%d: %s", in.rel, p.Line, msg))
}

func (in *instr) fresh(prefix string) string {
	in.tmp++
	return fmt.Sprintf("_v%s%d", prefix, in.tmp)
}

func sel(x, s string) *ast.SelectorExpr {
	return &ast.SelectorExpr{X: ast.NewIdent(x), Sel: ast.NewIdent(s)}
}

func intLit(i int) *ast.BasicLit {
	return &ast.BasicLit{Kind: token.INT, Value: strconv.Itoa(i)}
}

func (in *instr) yieldStmt(pos token.Pos) ast.Stmt {
	in.needSimrt = true
	return &ast.ExprStmt{X: &ast.CallExpr{Fun: sel("simrt", "Yield"), Args: []ast.Expr{intLit(newSite(pos, "y"))}}}
}

// pkgOf returns the imported package path an identifier refers to ("" if not a package name).
func (in *instr) pkgOf(id *ast.Ident) string {
	if obj, ok := in.pkg.TypesInfo.Uses[id]; ok {
		if pn, ok := obj.(*types.PkgName); ok {
			return pn.Imported().Path()
		}
	}
	return ""
}

func (in *instr) run() bool {
	in.addImports = map[string]string{}
	in.labeled = map[ast.Stmt]bool{}
	ast.Inspect(in.file, func(n ast.Node) bool {
		if l, ok := n.(*ast.LabeledStmt); ok {
			in.labeled[l.Stmt] = true
		}
		return true
	})

	// T8 node-local globals, T3 sync types, T6 AfterFunc, T7 leveldb: expression rewrites
	astutil.Apply(in.file, func(c *astutil.Cursor) bool {
		switch x := c.Node().(type) {
		case *ast.SelectorExpr:
			if id, ok := x.X.(*ast.Ident); ok && in.full {
				switch in.pkgOf(id) {
				case "sync":
					if x.Sel.Name == "Mutex" || x.Sel.Name == "RWMutex" || x.Sel.Name == "Once" {
						c.Replace(sel("simrt", x.Sel.Name))
						in.needSimrt, in.changed = true, true
						return false
					}
				case "time":
					switch x.Sel.Name {
					case "AfterFunc", "NewTimer", "NewTicker", "After":
						// T6: AfterFunc callbacks become tagged tasks; T9: timers get unique
						// firing instants (the runtime breaks ties between timers that are due at the
						// same instant by channel address, which is not reproducible)
						c.Replace(sel("simrt", x.Sel.Name))
						in.needSimrt, in.changed = true, true
						return false
					}
				case "github.com/syndtr/goleveldb/leveldb":
					if in.simldb && (x.Sel.Name == "OpenFile" || x.Sel.Name == "RecoverFile") {
						c.Replace(sel("simldb", x.Sel.Name))
						in.needSimldb, in.changed = true, true
						return false
					}
				}
			}
		case *ast.CallExpr:
			// T9: t.Reset(d) on *time.Timer / *time.Ticker -> simrt.ResetTimer(t, d) / simrt.ResetTicker(t, d)
			if se, ok := x.Fun.(*ast.SelectorExpr); ok && in.full && se.Sel.Name == "Reset" && len(x.Args) == 1 {
				if tv := in.pkg.TypesInfo.TypeOf(se.X); tv != nil {
					switch strings.TrimPrefix(tv.String(), "*") {
					case "time.Timer":
						x.Fun = sel("simrt", "ResetTimer")
						x.Args = append([]ast.Expr{se.X}, x.Args...)
						in.needSimrt, in.changed = true, true
					case "time.Ticker":
						x.Fun = sel("simrt", "ResetTicker")
						x.Args = append([]ast.Expr{se.X}, x.Args...)
						in.needSimrt, in.changed = true, true
					}
				}
			}
		case *ast.Ident:
			if !in.full {
				return true
			}
			obj := in.pkg.TypesInfo.Uses[x]
			if v, ok := obj.(*types.Var); ok && v.Pkg() != nil && v.Parent() == v.Pkg().Scope() {
				if in.nodeLocal[v.Pkg().Path()+"."+v.Name()] {
					// never rewrite the selector part of pkg.Var (not used in this repo for these vars)
					if _, isSel := c.Parent().(*ast.SelectorExpr); isSel && c.Name() == "Sel" {
						return true
					}
					c.Replace(&ast.ParenExpr{X: &ast.StarExpr{X: &ast.CallExpr{Fun: ast.NewIdent("verifNL_" + v.Name())}}})
					in.changed = true
					return false
				}
			}
		}
		return true
	}, nil)

	// statement-level rewrites, innermost first
	astutil.Apply(in.file, nil, func(c *astutil.Cursor) bool {
		switch x := c.Node().(type) {
		case *ast.GoStmt:
			if in.full {
				c.Replace(in.rewriteGo(x))
				in.changed = true
			}
		case *ast.RangeStmt:
			if r := in.rewriteRange(x); r != nil {
				c.Replace(r)
				in.changed = true
			}
		case *ast.SelectStmt:
			if in.full {
				if r := in.rewriteSelect(x); r != nil {
					c.Replace(r)
					in.changed = true
				}
			}
		}
		return true
	})

	if in.focus {
		skip := map[*ast.BlockStmt]bool{}
		ast.Inspect(in.file, func(n ast.Node) bool {
			switch x := n.(type) {
			case *ast.SwitchStmt:
				skip[x.Body] = true
			case *ast.TypeSwitchStmt:
				skip[x.Body] = true
			case *ast.SelectStmt:
				skip[x.Body] = true
			case *ast.BlockStmt:
				if skip[x] {
					return true
				}
				x.List = in.yieldList(x.List, x.Lbrace)
			case *ast.CaseClause:
				x.Body = in.yieldList(x.Body, x.Colon)
			case *ast.CommClause:
				x.Body = in.yieldList(x.Body, x.Colon)
			}
			return true
		})
		// empty loop bodies must still yield
		ast.Inspect(in.file, func(n ast.Node) bool {
			if f, ok := n.(*ast.ForStmt); ok && len(f.Body.List) == 0 {
				f.Body.List = []ast.Stmt{in.yieldStmt(f.Pos())}
			}
			return true
		})
		in.changed = true
	}

	if in.simos {
		for _, imp := range in.file.Imports {
			if imp.Path.Value == `"os"` {
				imp.Path.Value = strconv.Quote(simosPath)
				if imp.Name == nil {
					imp.Name = ast.NewIdent("os")
				}
				in.changed = true
			}
		}
	}
	if !in.changed {
		return false
	}
	if in.needSimrt {
		astutil.AddNamedImport(in.pkg.Fset, in.file, "simrt", simrtPath)
	}
	if in.needSimldb {
		astutil.AddNamedImport(in.pkg.Fset, in.file, "simldb", simldbPath)
	}
	for path, name := range in.addImports {
		astutil.AddNamedImport(in.pkg.Fset, in.file, name, path)
	}
	// drop imports that became unused
	for _, path := range []string{"sync", "github.com/syndtr/goleveldb/leveldb"} {
		if importsPath(in.file, path) && !usesImportSyntactic(in.file, path) {
			astutil.DeleteImport(in.pkg.Fset, in.file, path)
		}
	}
	return true
}

func importsPath(f *ast.File, path string) bool {
	for _, imp := range f.Imports {
		if p, _ := strconv.Unquote(imp.Path.Value); p == path {
			return true
		}
	}
	return false
}

// usesImportSyntactic reports whether any selector X.Sel uses the import's local name.
func usesImportSyntactic(f *ast.File, path string) bool {
	name := ""
	for _, imp := range f.Imports {
		if p, _ := strconv.Unquote(imp.Path.Value); p == path {
			if imp.Name != nil {
				name = imp.Name.Name
			} else {
				name = path[strings.LastIndex(path, "/")+1:]
			}
		}
	}
	if name == "_" || name == "." {
		return true
	}
	used := false
	ast.Inspect(f, func(n ast.Node) bool {
		if s, ok := n.(*ast.SelectorExpr); ok {
			if id, ok := s.X.(*ast.Ident); ok && id.Name == name && id.Obj == nil {
				used = true
			}
		}
		return !used
	})
	return used
}

func (in *instr) yieldList(list []ast.Stmt, pos token.Pos) []ast.Stmt {
	if len(list) == 0 {
		return list
	}
	out := make([]ast.Stmt, 0, 2*len(list))
	for _, s := range list {
		if es, ok := s.(*ast.ExprStmt); ok {
			if call, ok := es.X.(*ast.CallExpr); ok {
				if se, ok := call.Fun.(*ast.SelectorExpr); ok {
					if id, ok := se.X.(*ast.Ident); ok && id.Name == "simrt" && se.Sel.Name == "Yield" {
						out = append(out, s)
						continue
					}
				}
			}
		}
		p := s.Pos()
		if !p.IsValid() {
			p = pos
		}
		out = append(out, in.yieldStmt(p), s)
	}
	return out
}

// isConstOrNil reports whether e must not be hoisted into `tmp := e`.
func (in *instr) isConstOrNil(e ast.Expr) bool {
	tv, ok := in.pkg.TypesInfo.Types[e]
	if !ok {
		return false
	}
	if tv.Value != nil && tv.Value.Kind() != constant.Unknown {
		return true
	}
	return tv.IsNil()
}

// T2
func (in *instr) rewriteGo(g *ast.GoStmt) ast.Stmt {
	in.needSimrt = true
	site := newSite(g.Pos(), "go")
	call := g.Call
	if fl, ok := call.Fun.(*ast.FuncLit); ok && len(call.Args) == 0 {
		return &ast.ExprStmt{X: &ast.CallExpr{Fun: sel("simrt", "Go"), Args: []ast.Expr{intLit(site), fl}}}
	}
	var lhs []ast.Expr
	var rhs []ast.Expr
	fn := in.fresh("f")
	lhs = append(lhs, ast.NewIdent(fn))
	rhs = append(rhs, call.Fun)
	newArgs := make([]ast.Expr, len(call.Args))
	for i, a := range call.Args {
		if in.isConstOrNil(a) {
			newArgs[i] = a
			continue
		}
		n := in.fresh("a")
		lhs = append(lhs, ast.NewIdent(n))
		rhs = append(rhs, a)
		newArgs[i] = ast.NewIdent(n)
	}
	inner := &ast.CallExpr{Fun: ast.NewIdent(fn), Args: newArgs, Ellipsis: call.Ellipsis}
	if call.Ellipsis.IsValid() {
		inner.Ellipsis = 1
	}
	return &ast.BlockStmt{List: []ast.Stmt{
		&ast.AssignStmt{Lhs: lhs, Tok: token.DEFINE, Rhs: rhs},
		&ast.ExprStmt{X: &ast.CallExpr{Fun: sel("simrt", "Go"), Args: []ast.Expr{intLit(site),
			&ast.FuncLit{Type: &ast.FuncType{Params: &ast.FieldList{}}, Body: &ast.BlockStmt{List: []ast.Stmt{&ast.ExprStmt{X: inner}}}}}}},
	}}
}

// typeExpr prints t as source valid in this file, adding imports if needed.
// ok=false if the type cannot be named here.
func (in *instr) typeExpr(t types.Type) (ast.Expr, bool) {
	ok := true
	q := func(p *types.Package) string {
		if p == in.pkg.Types {
			return ""
		}
		for _, imp := range in.file.Imports {
			path, _ := strconv.Unquote(imp.Path.Value)
			if path == p.Path() {
				if imp.Name != nil {
					if imp.Name.Name == "_" || imp.Name.Name == "." {
						ok = false
					}
					return imp.Name.Name
				}
				return p.Name()
			}
		}
		// not imported: add it under its own name if free
		name := p.Name()
		if n, dup := in.addImports[p.Path()]; dup {
			return n
		}
		if in.file.Scope != nil && in.file.Scope.Lookup(name) != nil {
			ok = false
		}
		if in.pkg.Types.Scope().Lookup(name) != nil {
			ok = false
		}
		in.addImports[p.Path()] = name
		return name
	}
	s := types.TypeString(t, q)
	// unexported named types of other packages cannot be referenced
	types.TypeString(t, func(p *types.Package) string { return "" })
	if !exportedOK(t, in.pkg.Types) {
		ok = false
	}
	if !ok {
		return nil, false
	}
	e, err := parseExpr(s)
	if err != nil {
		return nil, false
	}
	return e, true
}

func exportedOK(t types.Type, here *types.Package) bool {
	ok := true
	var visit func(t types.Type, depth int)
	visit = func(t types.Type, depth int) {
		if depth > 6 || !ok {
			return
		}
		switch x := t.(type) {
		case *types.Named:
			o := x.Obj()
			if o.Pkg() != nil && o.Pkg() != here && !o.Exported() {
				ok = false
			}
			if o.Pkg() != nil && o.Parent() != o.Pkg().Scope() {
				ok = false // function-local type
			}
		case *types.Pointer:
			visit(x.Elem(), depth+1)
		case *types.Slice:
			visit(x.Elem(), depth+1)
		case *types.Array:
			visit(x.Elem(), depth+1)
		case *types.Map:
			visit(x.Key(), depth+1)
			visit(x.Elem(), depth+1)
		case *types.Chan:
			visit(x.Elem(), depth+1)
		case *types.Struct:
			for i := 0; i < x.NumFields(); i++ {
				visit(x.Field(i).Type(), depth+1)
			}
		case *types.Signature:
			for i := 0; i < x.Params().Len(); i++ {
				visit(x.Params().At(i).Type(), depth+1)
			}
			for i := 0; i < x.Results().Len(); i++ {
				visit(x.Results().At(i).Type(), depth+1)
			}
		}
	}
	visit(t, 0)
	return ok
}

func pure(e ast.Expr) bool {
	switch x := e.(type) {
	case *ast.Ident:
		return true
	case *ast.SelectorExpr:
		return pure(x.X)
	case *ast.ParenExpr:
		return pure(x.X)
	case *ast.StarExpr:
		return pure(x.X)
	case *ast.IndexExpr:
		return pure(x.X) && pure(x.Index)
	case *ast.BasicLit:
		return true
	}
	return false
}

func isBlank(e ast.Expr) bool {
	if e == nil {
		return true
	}
	id, ok := e.(*ast.Ident)
	return ok && id.Name == "_"
}

// T4
// nativeFuncsOf selects the "file.go:Recv.Func" entries of one file.
func nativeFuncsOf(entries []string, rel string) map[string]bool {
	out := map[string]bool{}
	for _, e := range entries {
		if i := strings.LastIndex(e, ":"); i > 0 && filepath.ToSlash(e[:i]) == filepath.ToSlash(rel) {
			out[e[i+1:]] = true
		}
	}
	return out
}

// enclosingFunc names the function declaration that contains pos: "Recv.Func" or "Func".
func (in *instr) enclosingFunc(pos token.Pos) string {
	for _, d := range in.file.Decls {
		fd, ok := d.(*ast.FuncDecl)
		if !ok || pos < fd.Pos() || pos > fd.End() {
			continue
		}
		name := fd.Name.Name
		if fd.Recv != nil && len(fd.Recv.List) == 1 {
			t := fd.Recv.List[0].Type
			if st, ok := t.(*ast.StarExpr); ok {
				t = st.X
			}
			if id, ok := t.(*ast.Ident); ok {
				name = id.Name + "." + name
			}
		}
		return name
	}
	return ""
}

func (in *instr) rewriteRange(r *ast.RangeStmt) ast.Stmt {
	if len(in.nativeMap) > 0 && in.nativeMap[in.enclosingFunc(r.Pos())] {
		in.note(r.Pos(), "map range left native (native_maps)")
		return nil
	}
	t := in.pkg.TypesInfo.TypeOf(r.X)
	if t == nil {
		return nil
	}
	mt, ok := t.Underlying().(*types.Map)
	if !ok {
		return nil
	}
	kt, ok := in.typeExpr(mt.Key())
	if !ok {
		in.note(r.Pos(), "map range left native: key type not nameable here: "+mt.Key().String())
		return nil
	}
	if !sortableType(mt.Key()) {
		in.note(r.Pos(), "map range left native: key type not sortable: "+mt.Key().String())
		return nil
	}
	var pre []ast.Stmt
	mexpr := r.X
	if !pure(mexpr) {
		if in.labeled[r] {
			in.note(r.Pos(), "map range left native: labeled loop over impure expression")
			return nil
		}
		mv := in.fresh("m")
		pre = append(pre, &ast.AssignStmt{Lhs: []ast.Expr{ast.NewIdent(mv)}, Tok: token.DEFINE, Rhs: []ast.Expr{mexpr}})
		mexpr = ast.NewIdent(mv)
	}
	in.needSimrt = true
	site := newSite(r.Pos(), "map")
	kv := in.fresh("k")
	okv := in.fresh("ok")
	keyAssert := &ast.TypeAssertExpr{X: ast.NewIdent(kv), Type: kt}
	var body []ast.Stmt
	var keyRef ast.Expr
	if isBlank(r.Key) {
		keyRef = keyAssert
	} else {
		body = append(body, &ast.AssignStmt{Lhs: []ast.Expr{r.Key}, Tok: r.Tok, Rhs: []ast.Expr{keyAssert}})
		keyRef = r.Key
	}
	idx := &ast.IndexExpr{X: mexpr, Index: keyRef}
	if isBlank(r.Value) {
		body = append(body, &ast.IfStmt{
			Init: &ast.AssignStmt{Lhs: []ast.Expr{ast.NewIdent("_"), ast.NewIdent(okv)}, Tok: token.DEFINE, Rhs: []ast.Expr{idx}},
			Cond: &ast.UnaryExpr{Op: token.NOT, X: ast.NewIdent(okv)},
			Body: &ast.BlockStmt{List: []ast.Stmt{&ast.BranchStmt{Tok: token.CONTINUE}}},
		})
	} else {
		if r.Tok == token.DEFINE {
			body = append(body, &ast.AssignStmt{Lhs: []ast.Expr{r.Value, ast.NewIdent(okv)}, Tok: token.DEFINE, Rhs: []ast.Expr{idx}})
		} else {
			body = append(body,
				&ast.DeclStmt{Decl: &ast.GenDecl{Tok: token.VAR, Specs: []ast.Spec{&ast.ValueSpec{Names: []*ast.Ident{ast.NewIdent(okv)}, Type: ast.NewIdent("bool")}}}},
				&ast.AssignStmt{Lhs: []ast.Expr{r.Value, ast.NewIdent(okv)}, Tok: token.ASSIGN, Rhs: []ast.Expr{idx}})
		}
		body = append(body, &ast.IfStmt{
			Cond: &ast.UnaryExpr{Op: token.NOT, X: ast.NewIdent(okv)},
			Body: &ast.BlockStmt{List: []ast.Stmt{&ast.BranchStmt{Tok: token.CONTINUE}}},
		})
	}
	// keep the user's variables "used" exactly as before: they are declared by := and
	// the original body uses them (otherwise the original would not compile).
	body = append(body, r.Body.List...)
	loop := &ast.RangeStmt{
		Key: ast.NewIdent("_"), Value: ast.NewIdent(kv), Tok: token.DEFINE,
		X:    &ast.CallExpr{Fun: sel("simrt", "MapOrder"), Args: []ast.Expr{intLit(site), mexpr}},
		Body: &ast.BlockStmt{List: body},
	}
	if len(pre) == 0 {
		return loop
	}
	return &ast.BlockStmt{List: append(pre, loop)}
}

func sortableType(t types.Type) bool {
	switch x := t.Underlying().(type) {
	case *types.Basic:
		return x.Info()&(types.IsInteger|types.IsString|types.IsBoolean) != 0
	case *types.Array:
		return sortableType(x.Elem())
	case *types.Struct:
		for i := 0; i < x.NumFields(); i++ {
			if !sortableType(x.Field(i).Type()) {
				return false
			}
		}
		return true
	}
	return false
}

// T5
func (in *instr) rewriteSelect(s *ast.SelectStmt) ast.Stmt {
	type ccase struct {
		cl     *ast.CommClause
		send   bool
		ch     ast.Expr // hoisted channel ident
		val    ast.Expr // send value (hoisted or inline)
		rv, ok string   // temps for received value / ok
		lhs    []ast.Expr
		tok    token.Token
	}
	var cases []*ccase
	var def *ast.CommClause
	for _, c := range s.Body.List {
		cl := c.(*ast.CommClause)
		if cl.Comm == nil {
			def = cl
			continue
		}
		cases = append(cases, &ccase{cl: cl})
	}
	if len(cases) < 2 {
		return nil
	}
	if in.labeled[s] {
		in.note(s.Pos(), "select left native: labeled")
		return nil
	}
	in.needSimrt = true
	site := newSite(s.Pos(), "sel")
	var hoistL, hoistR []ast.Expr
	var decls []ast.Stmt
	for _, c := range cases {
		var recvExpr *ast.UnaryExpr
		switch st := c.cl.Comm.(type) {
		case *ast.SendStmt:
			c.send = true
			n := in.fresh("c")
			hoistL = append(hoistL, ast.NewIdent(n))
			hoistR = append(hoistR, st.Chan)
			c.ch = ast.NewIdent(n)
			if in.isConstOrNil(st.Value) {
				c.val = st.Value
			} else {
				// the value is converted to the channel's element type at the send
				vn := in.fresh("x")
				hoistL = append(hoistL, ast.NewIdent(vn))
				hoistR = append(hoistR, st.Value)
				c.val = ast.NewIdent(vn)
			}
			continue
		case *ast.ExprStmt:
			recvExpr = st.X.(*ast.UnaryExpr)
		case *ast.AssignStmt:
			recvExpr = st.Rhs[0].(*ast.UnaryExpr)
			c.lhs = st.Lhs
			c.tok = st.Tok
		}
		n := in.fresh("c")
		hoistL = append(hoistL, ast.NewIdent(n))
		hoistR = append(hoistR, recvExpr.X)
		c.ch = ast.NewIdent(n)
		if len(c.lhs) > 0 {
			ct := in.pkg.TypesInfo.TypeOf(recvExpr.X)
			cht, ok := ct.Underlying().(*types.Chan)
			if !ok {
				in.note(s.Pos(), "select left native: non-channel receive")
				return nil
			}
			et, ok := in.typeExpr(cht.Elem())
			if !ok {
				in.note(s.Pos(), "select left native: element type not nameable: "+cht.Elem().String())
				return nil
			}
			c.rv = in.fresh("r")
			decls = append(decls, &ast.DeclStmt{Decl: &ast.GenDecl{Tok: token.VAR, Specs: []ast.Spec{
				&ast.ValueSpec{Names: []*ast.Ident{ast.NewIdent(c.rv)}, Type: et}}}})
			if len(c.lhs) == 2 {
				c.ok = in.fresh("o")
				decls = append(decls, &ast.DeclStmt{Decl: &ast.GenDecl{Tok: token.VAR, Specs: []ast.Spec{
					&ast.ValueSpec{Names: []*ast.Ident{ast.NewIdent(c.ok)}, Type: ast.NewIdent("bool")}}}})
			}
		}
	}
	selv := in.fresh("s")
	comm := func(c *ccase, i int) *ast.CommClause {
		var cs ast.Stmt
		if c.send {
			cs = &ast.SendStmt{Chan: c.ch, Value: c.val}
		} else if c.rv == "" {
			cs = &ast.ExprStmt{X: &ast.UnaryExpr{Op: token.ARROW, X: c.ch}}
		} else {
			l := []ast.Expr{ast.NewIdent(c.rv)}
			if c.ok != "" {
				l = append(l, ast.NewIdent(c.ok))
			}
			cs = &ast.AssignStmt{Lhs: l, Tok: token.ASSIGN, Rhs: []ast.Expr{&ast.UnaryExpr{Op: token.ARROW, X: c.ch}}}
		}
		return &ast.CommClause{Comm: cs, Body: []ast.Stmt{
			&ast.AssignStmt{Lhs: []ast.Expr{ast.NewIdent(selv)}, Tok: token.ASSIGN, Rhs: []ast.Expr{intLit(i)}}}}
	}
	// polling loop
	iv := in.fresh("i")
	var pollCases []ast.Stmt
	for i, c := range cases {
		pollCases = append(pollCases, &ast.CaseClause{List: []ast.Expr{intLit(i)}, Body: []ast.Stmt{
			&ast.SelectStmt{Body: &ast.BlockStmt{List: []ast.Stmt{comm(c, i), &ast.CommClause{}}}}}})
	}
	poll := &ast.RangeStmt{
		Key: ast.NewIdent("_"), Value: ast.NewIdent(iv), Tok: token.DEFINE,
		X: &ast.CallExpr{Fun: sel("simrt", "SelectOrder"), Args: []ast.Expr{intLit(site), intLit(len(cases))}},
		Body: &ast.BlockStmt{List: []ast.Stmt{
			&ast.SwitchStmt{Tag: ast.NewIdent(iv), Body: &ast.BlockStmt{List: pollCases}},
			&ast.IfStmt{Cond: &ast.BinaryExpr{X: ast.NewIdent(selv), Op: token.GEQ, Y: intLit(0)},
				Body: &ast.BlockStmt{List: []ast.Stmt{&ast.BranchStmt{Tok: token.BREAK}}}},
		}},
	}
	var fallback ast.Stmt
	if def != nil {
		fallback = &ast.AssignStmt{Lhs: []ast.Expr{ast.NewIdent(selv)}, Tok: token.ASSIGN, Rhs: []ast.Expr{intLit(len(cases))}}
	} else {
		var cl []ast.Stmt
		for i, c := range cases {
			cl = append(cl, comm(c, i))
		}
		fallback = &ast.SelectStmt{Body: &ast.BlockStmt{List: cl}}
	}
	// dispatch
	var disp []ast.Stmt
	for i, c := range cases {
		var body []ast.Stmt
		if c.rv != "" {
			r := []ast.Expr{ast.NewIdent(c.rv)}
			if c.ok != "" {
				r = append(r, ast.NewIdent(c.ok))
			}
			body = append(body, &ast.AssignStmt{Lhs: c.lhs, Tok: c.tok, Rhs: r})
		}
		body = append(body, c.cl.Body...)
		disp = append(disp, &ast.CaseClause{List: []ast.Expr{intLit(i)}, Body: body})
	}
	if def != nil {
		disp = append(disp, &ast.CaseClause{List: nil, Body: def.Body})
	} else {
		disp = append(disp, &ast.CaseClause{List: nil, Body: []ast.Stmt{&ast.ExprStmt{X: &ast.CallExpr{Fun: ast.NewIdent("panic"),
			Args: []ast.Expr{&ast.BasicLit{Kind: token.STRING, Value: `"simrt: bad select index"`}}}}}})
	}
	out := []ast.Stmt{}
	if len(hoistL) > 0 {
		out = append(out, &ast.AssignStmt{Lhs: hoistL, Tok: token.DEFINE, Rhs: hoistR})
	}
	out = append(out, decls...)
	out = append(out,
		&ast.AssignStmt{Lhs: []ast.Expr{ast.NewIdent(selv)}, Tok: token.DEFINE, Rhs: []ast.Expr{&ast.UnaryExpr{Op: token.SUB, X: intLit(1)}}},
		poll,
		&ast.IfStmt{Cond: &ast.BinaryExpr{X: ast.NewIdent(selv), Op: token.LSS, Y: intLit(0)}, Body: &ast.BlockStmt{List: []ast.Stmt{fallback}}},
		&ast.SwitchStmt{Tag: ast.NewIdent(selv), Body: &ast.BlockStmt{List: disp}},
	)
	return &ast.BlockStmt{List: out}
}

func parseExpr(s string) (ast.Expr, error) {
	e, err := parser.ParseExpr(s)
	if err != nil {
		return nil, err
	}
	// strip positions so the printer does not try to honour foreign line numbers
	ast.Inspect(e, func(n ast.Node) bool {
		switch x := n.(type) {
		case *ast.Ident:
			x.NamePos = token.NoPos
		case *ast.StarExpr:
			x.Star = token.NoPos
		case *ast.ArrayType:
			x.Lbrack = token.NoPos
		case *ast.MapType:
			x.Map = token.NoPos
		case *ast.ChanType:
			x.Begin, x.Arrow = token.NoPos, token.NoPos
		case *ast.StructType:
			x.Struct = token.NoPos
		case *ast.InterfaceType:
			x.Interface = token.NoPos
		case *ast.FuncType:
			x.Func = token.NoPos
		case *ast.FieldList:
			x.Opening, x.Closing = token.NoPos, token.NoPos
		case *ast.BasicLit:
			x.ValuePos = token.NoPos
		}
		return true
	})
	return e, nil
}
