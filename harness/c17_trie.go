package harness

import (
	"bytes"
	"fmt"
	"math/big"
	"sort"
	"strings"
	"sync"
	"time"

	"github.com/LemoFoundationLtd/lemochain-core/chain/params"
	"github.com/LemoFoundationLtd/lemochain-core/chain/types"
	"github.com/LemoFoundationLtd/lemochain-core/common"
	"github.com/LemoFoundationLtd/lemochain-core/common/crypto"
	"github.com/LemoFoundationLtd/lemochain-core/common/merkle"
	"github.com/LemoFoundationLtd/lemochain-core/store"
	"github.com/LemoFoundationLtd/lemochain-core/store/trie"

	"verif/simrt"
	"verif/simrt/simos"
)

// C17 (a) storesim: trie.SecureTrie / trie.Trie over the real store.TrieDatabase on the real BeansDB
// (simulated disk, asynchronous writer under the scheduler) against a Go map.
//   - reads return the last value written;
//   - the root equals the root of a FRESH trie built from the map's content in sorted order, whatever
//     the history (order, deletions, commits, cache eviction, reopen);
//   - a trie reopened by root (same TrieDatabase, fresh TrieDatabase, after a clean restart, after a
//     crash that happened after TrieDatabase.Commit had returned) has exactly the content the map had
//     when that root was produced;
//   - proofs (the encoded nodes on the path, indexed by their own keccak as a receiver does) verify for
//     present keys, yield no value for absent keys, and yield no value once a node is altered/removed.
// C17 (b) unitsim: common/merkle against a reference written from the description.

const (
	c17Home = "/sim/c17/chaindata"
	c17Tag  = 1
	// The preimage side table of a SecureTrie (GetKey) is read back after every reopen. In the current tree
	// TrieDatabase.Commit loses all but one preimage per commit (all batch items alias one key buffer). No
	// production code reads preimages and the property statement speaks of the key/value content, so this
	// is counted as a probe and does not fail the check; set to true once the repository is repaired.
	c17PreimageGates = false
)

type c17Trie interface {
	TryGet(key []byte) ([]byte, error)
	TryUpdate(key, value []byte) error
	TryDelete(key []byte) error
	Hash() common.Hash
	Commit(onleaf trie.LeafCallback) (common.Hash, error)
	NodeIterator(start []byte) trie.NodeIterator
}

type c17Snap map[string][]byte

func (s c17Snap) clone() c17Snap {
	out := make(c17Snap, len(s))
	for k, v := range s {
		out[k] = v
	}
	return out
}

func (s c17Snap) keys() []string {
	ks := make([]string, 0, len(s))
	for k := range s {
		ks = append(ks, k)
	}
	sort.Strings(ks)
	return ks
}

type c17World struct {
	c      *Ctx
	db     *store.ChainDatabase
	tdb    *store.TrieDatabase
	secure bool
	limit  uint16
	t      c17Trie
	model  c17Snap
	keys   [][]byte

	memRoots map[common.Hash]c17Snap // roots committed into the current TrieDatabase's memory
	durable  map[common.Hash]c17Snap // roots for which TrieDatabase.Commit has returned nil
	lastDur  common.Hash
	hasDur   bool
	curRoot  common.Hash // root of the last Trie.Commit of the current trie (valid while clean)
	clean    bool        // no update since the last Trie.Commit

	hist     []string
	valSeq   int
	nUpdates int
	nDeletes int
	nCommits int
	nReopen  int
	dbClosed bool
}

func (w *c17World) logf(format string, args ...interface{}) {
	s := fmt.Sprintf(format, args...)
	w.hist = append(w.hist, s)
	simrt.Log("c17", int64(len(w.hist)), 0, s)
}

func (w *c17World) fail(sig, format string, args ...interface{}) {
	h := w.hist
	if len(h) > 70 {
		h = h[len(h)-70:]
	}
	w.c.Fail(sig, "%s\noperations:\n  %s", fmt.Sprintf(format, args...), strings.Join(h, "\n  "))
}

func (w *c17World) do(name string, f func()) bool {
	t := w.c.W.Do(c17Tag, name, f)
	if t.Panic != nil {
		// same signature as the driver derives from the recorded panic; reported at once so that the run stops here
		w.c.Fail("C17/panic/"+panicSite(t.PanicStack), "panic in task %s (node %d): %v\n%s", t.Name, t.Node, t.Panic, trimStack(t.PanicStack))
	}
	return t.Finished
}

func (w *c17World) kind() string {
	if w.secure {
		return "SecureTrie"
	}
	return "Trie"
}

func (w *c17World) open(root common.Hash, tdb *store.TrieDatabase) (c17Trie, error) {
	if w.secure {
		t, err := trie.NewSecure(root, tdb, w.limit)
		if err != nil {
			return nil, err
		}
		return t, nil
	}
	t, err := trie.New(root, tdb)
	if err != nil {
		return nil, err
	}
	t.SetCacheLimit(w.limit)
	return t, nil
}

// refRoot: the root of a fresh trie (own in-memory database) holding exactly snap, inserted in sorted order.
func (w *c17World) refRoot(snap c17Snap) common.Hash {
	mem, _ := store.NewMemDatabase()
	t, err := w.open(common.Hash{}, store.NewTrieDatabase(mem))
	if err != nil {
		panic(err)
	}
	for _, k := range snap.keys() {
		if err := t.TryUpdate([]byte(k), snap[k]); err != nil {
			panic(err)
		}
	}
	return t.Hash()
}

func (w *c17World) leafKey(k []byte) []byte {
	if w.secure {
		return crypto.Keccak256(k)
	}
	return k
}

func b2i(b bool) int {
	if b {
		return 1
	}
	return 0
}

func short(b []byte) string {
	if len(b) <= 6 {
		return fmt.Sprintf("%x", b)
	}
	return fmt.Sprintf("%x..(%d)", b[:4], len(b))
}

// checkContent compares a trie with a snapshot: every key of the universe, then the leaf enumeration.
func (w *c17World) checkContent(t c17Trie, snap c17Snap, class, what string) {
	for _, k := range w.keys {
		got, err := t.TryGet(k)
		want := snap[string(k)]
		if err != nil {
			w.fail("C17/"+class+"/read-error", "%s: TryGet(%s) = error %v, the map has %s", what, short(k), err, short(want))
			return
		}
		if !bytes.Equal(got, want) {
			w.fail("C17/"+class+"/wrong-value", "%s: TryGet(%s) = %s, the map has %s", what, short(k), short(got), short(want))
			return
		}
	}
	want := map[string][]byte{}
	for k, v := range snap {
		want[string(w.leafKey([]byte(k)))] = v
	}
	it := trie.NewIterator(t.NodeIterator(nil))
	n := 0
	for it.Next() {
		n++
		v, ok := want[string(it.Key)]
		if !ok {
			w.fail("C17/"+class+"/extra-leaf", "%s: the leaf enumeration yields key %s = %s which the map does not contain", what, short(it.Key), short(it.Value))
			return
		}
		if !bytes.Equal(v, it.Value) {
			w.fail("C17/"+class+"/wrong-leaf", "%s: the leaf enumeration yields %s = %s, the map has %s", what, short(it.Key), short(it.Value), short(v))
			return
		}
	}
	if it.Err != nil {
		w.fail("C17/"+class+"/iterator-error", "%s: leaf enumeration failed: %v", what, it.Err)
		return
	}
	if n != len(snap) {
		w.fail("C17/"+class+"/missing-leaf", "%s: the leaf enumeration yields %d leaves, the map has %d entries", what, n, len(snap))
		return
	}
	// a SecureTrie stores hashed keys; the stored preimages are the only way back to the keys of the content
	if st, ok := t.(*trie.SecureTrie); ok && class == "reopen" {
		for _, k := range snap.keys() {
			if got := st.GetKey(crypto.Keccak256([]byte(k))); !bytes.Equal(got, []byte(k)) {
				if !c17PreimageGates {
					w.c.Probe("secure_key_preimage_lost_after_reopen")
					return
				}
				w.fail("C17/reopen/preimage-lost", "%s: GetKey(keccak(%s)) = %s: the key of a stored entry cannot be recovered", what, short([]byte(k)), short(got))
				return
			}
		}
		w.c.Probe("secure_key_preimages_read_back")
	}
}

func (w *c17World) checkRoot(got common.Hash, snap c17Snap, what string) {
	if want := w.refRoot(snap); got != want {
		w.fail("C17/root/history-dependent", "%s = %x, a fresh %s holding the same %d entries has root %x", what, got[:6], w.kind(), len(snap), want[:6])
	}
}

// ---------- proofs ----------

type c17Recorder struct {
	tdb   *store.TrieDatabase
	nodes [][]byte
}

func (r *c17Recorder) Get(flg uint32, key []byte) ([]byte, error) {
	b, err := r.tdb.Node(common.BytesToHash(key))
	if err == nil && b != nil {
		r.nodes = append(r.nodes, common.CopyBytes(b))
	}
	return b, err
}
func (r *c17Recorder) Has(flg uint32, key []byte) (bool, error) {
	b, err := r.tdb.Node(common.BytesToHash(key))
	return b != nil, err
}

// c17ProofDB is what the receiver of a proof builds: the nodes indexed by their own hash.
type c17ProofDB map[common.Hash][]byte

func c17IndexProof(nodes [][]byte) c17ProofDB {
	db := c17ProofDB{}
	for _, n := range nodes {
		db[crypto.Keccak256Hash(n)] = n
	}
	return db
}
func (p c17ProofDB) Get(flg uint32, key []byte) ([]byte, error) {
	return p[common.BytesToHash(key)], nil
}
func (p c17ProofDB) Has(flg uint32, key []byte) (bool, error) {
	_, ok := p[common.BytesToHash(key)]
	return ok, nil
}

func (w *c17World) opProve(root common.Hash, snap c17Snap, k []byte, lab string) {
	hk := w.leafKey(k)
	want := snap[string(k)]
	rec := &c17Recorder{tdb: w.tdb}
	val, err, _ := trie.VerifyProof(root, hk, rec)
	if len(snap) == 0 {
		return // the empty trie has no nodes and no proofs
	}
	if len(want) > 0 {
		w.c.Probe("proof_for_present_key")
		if err != nil || !bytes.Equal(val, want) {
			w.fail("C17/proof/present-key", "the nodes on the path of present key %s do not verify against root %x: value %s err %v, the map has %s", short(k), root[:6], short(val), err, short(want))
			return
		}
	} else {
		w.c.Probe("proof_for_absent_key")
		if len(val) != 0 {
			w.fail("C17/proof/absent-key", "VerifyProof yields value %s for key %s which the map does not contain (root %x)", short(val), short(k), root[:6])
			return
		}
	}
	// the recorded nodes alone are the proof
	val2, err2, _ := trie.VerifyProof(root, hk, c17IndexProof(rec.nodes))
	if !bytes.Equal(val2, val) || (err == nil) != (err2 == nil) {
		w.fail("C17/proof/not-self-contained", "the %d path nodes of key %s verify to %s (err %v) instead of %s (err %v)", len(rec.nodes), short(k), short(val2), err2, short(val), err)
		return
	}
	if len(rec.nodes) == 0 {
		return
	}
	// altered proof: one bit of one node flipped, or one node withheld; altered root; other key
	i := w.c.Draw(lab, len(rec.nodes))
	alt := make([][]byte, len(rec.nodes))
	copy(alt, rec.nodes)
	if w.c.Chance(lab, 1, 3) {
		alt = append(alt[:i:i], alt[i+1:]...)
	} else {
		n := common.CopyBytes(alt[i])
		n[w.c.Draw(lab, len(n))] ^= byte(1 << uint(w.c.Draw(lab, 8)))
		alt[i] = n
	}
	if v, _, _ := trie.VerifyProof(root, hk, c17IndexProof(alt)); len(v) != 0 {
		w.fail("C17/proof/altered-accepted", "an altered proof for key %s still yields value %s", short(k), short(v))
		return
	}
	badRoot := root
	badRoot[w.c.Draw(lab, 32)] ^= 0x40
	if v, _, _ := trie.VerifyProof(badRoot, hk, c17IndexProof(rec.nodes)); len(v) != 0 {
		w.fail("C17/proof/wrong-root-accepted", "a proof for root %x yields value %s under root %x", root[:6], short(v), badRoot[:6])
		return
	}
	w.c.Probe("altered_proof_rejected")
}

// ---------- crash / fault hook ----------

type c17Fault struct {
	k      int
	mode   int // 0 crash before, 1 crash after, 2 torn half, 3 torn head; 10 = I/O error instead of a crash
	fgDone bool
	fired  bool
	seen   int
	what   string
}

func (w *c17World) arm(f *c17Fault) {
	w.c.W.S.IOHook = func(ev *simrt.IOEvent) simrt.IOAction {
		if f.fired || !f.fgDone || ev.Node != c17Tag {
			return simrt.IOAction{}
		}
		if f.mode == 10 && (ev.Kind != "write" || strings.HasSuffix(ev.Path, "tmp.data")) {
			return simrt.IOAction{}
		}
		if f.mode == 11 && (ev.Kind != "write" || !strings.HasSuffix(ev.Path, "tmp.data")) {
			return simrt.IOAction{} // 11: the write-ahead append inside TrieDatabase.Commit itself fails
		}
		f.seen++
		if f.seen-1 != f.k {
			return simrt.IOAction{}
		}
		f.fired = true
		f.what = fmt.Sprintf("%s %s len=%d", ev.Kind, ev.Path, ev.Len)
		switch f.mode {
		case 10, 11:
			return simrt.IOAction{Err: simos.ErrInjected}
		case 1:
			return simrt.IOAction{CrashAfter: true}
		case 2:
			if ev.Len > 1 {
				return simrt.IOAction{CrashBefore: true, Torn: ev.Len / 2}
			}
		case 3:
			if ev.Len > 20 {
				return simrt.IOAction{CrashBefore: true, Torn: 18}
			}
		}
		return simrt.IOAction{CrashBefore: true}
	}
}

func (w *c17World) disarm() { w.c.W.S.IOHook = nil }

func (w *c17World) crashCleanup() {
	wd := w.c.W
	wd.S.Kill(c17Tag)
	db := w.db
	func() {
		defer func() { recover() }()
		if db != nil && db.Beansdb != nil && db.Beansdb.Queue != nil {
			close(db.Beansdb.Queue.Quit)
		}
	}()
	wd.Settle()
	func() {
		defer func() { recover() }()
		if db != nil && db.LevelDB != nil {
			db.LevelDB.LDB().Close()
		}
	}()
	w.db, w.tdb, w.t = nil, nil, nil
	wd.Sleep(2 * time.Second)
	wd.S.Revive(c17Tag)
}

// reopenDB opens the store again; the process memory is gone: fresh TrieDatabase, every durable root must be
// readable with the content it had, the current trie restarts from the last durable root.
func (w *c17World) reopenDB(kind string, f *c17Fault) bool {
	w.memRoots = map[common.Hash]c17Snap{}
	ok := w.do("open", func() {
		w.db = store.NewChainDataBase(c17Home)
		w.dbClosed = false
		w.tdb = w.db.GetTrieDatabase()
		if f != nil {
			f.fgDone = true
		}
		w.checkDurable("after a " + kind + " restart (inside the opening task)")
	})
	if f != nil && f.fired {
		return false
	}
	if !ok {
		if !w.c.Failed() {
			w.fail("C17/reopen/stuck", "NewChainDataBase did not return after a %s restart", kind)
		}
		return false
	}
	if w.c.Failed() {
		return false
	}
	ok = w.do("check", func() {
		w.checkDurable("after a " + kind + " restart (writer drained)")
		root := common.Hash{}
		w.model = c17Snap{}
		if w.hasDur {
			root = w.lastDur
			w.model = w.durable[root].clone()
		}
		t, err := w.open(root, w.tdb)
		if err != nil {
			w.fail("C17/reopen/missing-root", "opening durable root %x after a %s restart: %v", root[:6], kind, err)
			return
		}
		w.t, w.curRoot, w.clean = t, root, w.hasDur
	})
	if !ok && !w.c.Failed() {
		w.fail("C17/reopen/stuck", "reading the durable roots after a %s restart did not return", kind)
	}
	return ok && !w.c.Failed()
}

func (w *c17World) checkDurable(what string) {
	roots := make([]common.Hash, 0, len(w.durable))
	for r := range w.durable {
		roots = append(roots, r)
	}
	sort.Slice(roots, func(i, j int) bool { return bytes.Compare(roots[i][:], roots[j][:]) < 0 })
	for _, r := range roots {
		if w.c.Failed() {
			return
		}
		snap := w.durable[r]
		t, err := w.open(r, w.db.GetTrieDatabase())
		if err != nil {
			if len(snap) == 0 {
				continue
			}
			w.fail("C17/reopen/missing-root", "%s: root %x (%d entries), for which TrieDatabase.Commit had returned nil, cannot be opened: %v", what, r[:6], len(snap), err)
			return
		}
		w.nReopen++
		w.checkContent(t, snap, "reopen", fmt.Sprintf("%s: trie reopened by durable root %x", what, r[:6]))
		if !w.c.Failed() {
			if h := t.Hash(); h != r {
				w.fail("C17/reopen/root-changed", "%s: a trie opened by root %x hashes to %x", what, r[:6], h[:6])
			}
		}
	}
}

// ---------- key universe ----------

var (
	c17MineOnce sync.Once
	c17Mined    [][]byte
)

// c17SecureKeys: preimages whose keccak hashes share leading nibbles (0xab.. six times, 0xabc.. four times)
// so that a SecureTrie, too, gets extension nodes, nested branches and node collapses on delete.
func c17SecureKeys() [][]byte {
	c17MineOnce.Do(func() {
		n2, n3 := 0, 0
		for i := 0; n2 < 6 || n3 < 4; i++ {
			k := []byte(fmt.Sprintf("slot-%d", i))
			h := crypto.Keccak256(k)
			if h[0] == 0xab && h[1]>>4 == 0xc && n3 < 4 {
				c17Mined = append(c17Mined, k)
				n3++
			} else if h[0] == 0xab && n2 < 6 {
				c17Mined = append(c17Mined, k)
				n2++
			}
		}
		for i := 0; i < 4; i++ {
			c17Mined = append(c17Mined, []byte(fmt.Sprintf("free-%d", i)))
		}
	})
	return c17Mined
}

func c17PlainKeys() [][]byte {
	long := bytes.Repeat([]byte{0x5a}, 32)
	l1 := append(append([]byte{}, long[:31]...), 0x01)
	l2 := append(append([]byte{}, long[:31]...), 0x02)
	l3 := append(append([]byte{}, long[:16]...), bytes.Repeat([]byte{0x77}, 16)...)
	return [][]byte{
		[]byte("a"), []byte("ab"), []byte("abc"), []byte("abd"), []byte("abcd"), []byte("b"), []byte("ba"),
		{0x00}, {0x00, 0x00}, {0x10}, {0x11}, {0xff, 0xff}, l1, l2, l3, long,
	}
}

func (w *c17World) value(lab string) []byte {
	w.valSeq++
	var n int
	switch w.c.Draw(lab, 8) {
	case 0:
		n = 1
	case 1:
		n = 4
	case 2:
		n = 31
	case 3:
		n = 32
	case 4:
		n = 33
	case 5:
		n = 70
	case 6:
		n = 300
	default:
		n = 2 + w.c.Draw(lab, 60)
	}
	v := make([]byte, n)
	for i := range v {
		v[i] = byte(w.valSeq*31 + i*7 + 1)
	}
	if w.c.Chance(lab, 1, 6) {
		// the same small set of values again and again: identical subtrees, identical node hashes
		v = []byte{byte(1 + w.c.Draw(lab, 3))}
	}
	return v
}

// ---------- scenario (a) ----------

func c17SimConfig(c *Ctx) simrt.Config {
	cfg := c17SimConfigInner(c)
	cfg.Trace = envInt("VERIF_TRACE", 0)
	return cfg
}

func c17SimConfigInner(c *Ctx) simrt.Config {
	if c.Var == "merkle" {
		return simrt.Config{Policy: simrt.PolicyCoarse}
	}
	switch c.Draw("cfg", 4) {
	case 2:
		return simrt.Config{Policy: simrt.PolicyRandom, MeanGap: 24}
	case 3:
		return simrt.Config{Policy: simrt.PolicyRandom, MeanGap: 200}
	}
	return simrt.Config{Policy: simrt.PolicyCoarse}
}

func c17Scenario(c *Ctx) {
	if c.Var == "account" {
		// the four per-account tries behind chain/account/account.go: the journal world of C07 (setters of every
		// kind on a real account.Manager over the real store), judged here only by "saved and reopened by root =
		// what was held when saving"; C07's own clauses are not reported under C17
		c.Var = "paths"
		c07Unit(c)
		c.Var = "account"
		var keep []Violation
		for _, v := range c.Violations {
			if strings.HasPrefix(v.Sig, "C17/") {
				keep = append(keep, v)
			}
		}
		c.Violations = keep
		return
	}
	if c.Var == "merkle" {
		// inside a task, so that a panic of the merkle code is a violation and not a harness error
		if t := c.W.Do(c17Tag, "merkle", func() { c17Merkle(c) }); !t.Finished && t.Panic == nil && !c.Failed() {
			c.Fail("C17/merkle/stuck", "the merkle computation did not return")
		}
		return
	}
	w := &c17World{c: c, model: c17Snap{}, memRoots: map[common.Hash]c17Snap{}, durable: map[common.Hash]c17Snap{}}
	crashVariant := c.Var == "crash"
	switch c.Var {
	case "secure":
		w.secure = true
	case "plain":
		w.secure = false
	default:
		w.secure = c.Chance("gen", 1, 2)
	}
	w.limit = []uint16{0, 1, 2, 120}[c.Draw("gen", 4)]
	if c.Chance("gen", 1, 2) {
		simrt.SetMapMode(c17Tag, simrt.MapShuffled)
	}
	pool := c17PlainKeys()
	if w.secure {
		pool = c17SecureKeys()
	}
	// a subset of the universe, at least 4 keys
	for _, k := range pool {
		if c.Draw("keys", 4) != 3 {
			w.keys = append(w.keys, k)
		}
	}
	if len(w.keys) < 4 {
		w.keys = pool[:4]
	}
	w.logf("%s cachelimit=%d keys=%d", w.kind(), w.limit, len(w.keys))

	if !w.do("open", func() {
		w.db = store.NewChainDataBase(c17Home)
		w.tdb = w.db.GetTrieDatabase()
		t, err := w.open(common.Hash{}, w.tdb)
		if err != nil {
			w.fail("C17/open/empty", "opening an empty trie: %v", err)
			return
		}
		w.t = t
	}) {
		c.Fail("C17/stuck/open", "first NewChainDataBase did not return")
		return
	}

	nops := 12 + c.Draw("gen", 50)
	for i := 0; i < nops && !c.Failed() && w.db != nil; i++ {
		lab, flab := fmt.Sprintf("o%02d", i), fmt.Sprintf("f%02d", i)
		k := c.Draw(lab, 25) - 1
		switch {
		case k < 0:
			continue
		case k < 8: // update (empty value = delete, as the API says)
			key := w.keys[c.Draw(lab, len(w.keys))]
			val := w.value(lab)
			if c.Chance(lab, 1, 12) {
				val = nil
			}
			w.logf("Update %s = %s", short(key), short(val))
			w.do("update", func() {
				if err := w.t.TryUpdate(key, val); err != nil {
					w.fail("C17/update/error", "TryUpdate(%s) = %v", short(key), err)
					return
				}
				if len(val) == 0 {
					delete(w.model, string(key))
					w.nDeletes++
				} else {
					w.model[string(key)] = val
					w.nUpdates++
				}
				w.clean = false
			})
		case k < 11: // delete
			key := w.keys[c.Draw(lab, len(w.keys))]
			w.logf("Delete %s", short(key))
			w.do("delete", func() {
				if err := w.t.TryDelete(key); err != nil {
					w.fail("C17/delete/error", "TryDelete(%s) = %v", short(key), err)
					return
				}
				if _, ok := w.model[string(key)]; ok {
					w.nDeletes++
				}
				delete(w.model, string(key))
				w.clean = false
			})
		case k < 13: // read one key
			key := w.keys[c.Draw(lab, len(w.keys))]
			w.logf("Get %s", short(key))
			w.do("get", func() {
				got, err := w.t.TryGet(key)
				if err != nil {
					w.fail("C17/read/read-error", "TryGet(%s) = error %v, the map has %s", short(key), err, short(w.model[string(key)]))
				} else if !bytes.Equal(got, w.model[string(key)]) {
					w.fail("C17/read/wrong-value", "TryGet(%s) = %s, the map has %s", short(key), short(got), short(w.model[string(key)]))
				}
			})
		case k < 14: // full content comparison
			w.logf("compare content")
			w.do("content", func() { w.checkContent(w.t, w.model, "read", "current trie") })
		case k < 16: // Hash
			w.logf("Hash")
			w.do("hash", func() { w.checkRoot(w.t.Hash(), w.model, "Hash() of the current trie") })
		case k < 19: // Trie.Commit (into the TrieDatabase's memory; starts a new cache generation)
			w.opCommit()
		case k < 21: // TrieDatabase.Commit of a root (to the BeansDB), possibly followed by a restart / crash
			w.opDBCommit(lab, flab, crashVariant)
		case k < 23: // reopen by root
			w.opReopen(lab)
		default: // proofs
			if !w.clean {
				w.opCommit()
			}
			if c.Failed() {
				break
			}
			key := w.keys[c.Draw(lab, len(w.keys))]
			root, snap := w.curRoot, w.model.clone()
			w.logf("Prove %s under root %x", short(key), root[:6])
			w.do("prove", func() { w.opProve(root, snap, key, lab) })
		}
		if !c.Failed() && w.t != nil && c.Chance(lab, 1, 5) {
			w.do("content", func() { w.checkContent(w.t, w.model, "read", "current trie") })
		}
		c.State(uint64(len(w.model))<<24 | uint64(len(w.durable))<<16 | uint64(len(w.memRoots))<<8 | uint64(w.limit&0xf)<<1 | uint64(b2i(w.secure)))
	}
	// epilogue: final root and content, make it durable, restart, compare again
	if !c.Failed() && w.db != nil {
		w.logf("final: compare, Commit, TrieDatabase.Commit, restart")
		w.do("final", func() {
			w.checkContent(w.t, w.model, "read", "current trie (final)")
			if !c.Failed() {
				w.checkRoot(w.t.Hash(), w.model, "final Hash()")
			}
		})
		if !c.Failed() {
			w.opCommit()
		}
		if !c.Failed() {
			w.dbCommitRoot(w.curRoot, w.model.clone(), nil)
		}
		if !c.Failed() {
			w.cleanRestart(false)
		}
	}
	if w.db != nil {
		db := w.db
		if !w.dbClosed {
			w.do("close", func() { db.Close() })
		}
		c.W.Sleep(2 * time.Second)
		c09Drain(c, []*store.ChainDatabase{db})
	}
	debugDumpTrace(c)
	c.Nontrivial = w.nUpdates >= 4 && w.nCommits >= 1 && w.nReopen >= 1
	tail := w.hist
	if len(tail) > 16 {
		tail = tail[len(tail)-16:]
	}
	c.Sample = map[string]interface{}{"variant": c.Var, "trie": w.kind(), "cachelimit": w.limit, "updates": w.nUpdates, "deletes": w.nDeletes, "commits": w.nCommits, "reopened": w.nReopen, "ops_tail": tail}
}

func (w *c17World) opCommit() {
	w.logf("Commit")
	w.do("commit", func() {
		root, err := w.t.Commit(nil)
		if err != nil {
			w.fail("C17/commit/error", "Commit = %v", err)
			return
		}
		w.nCommits++
		w.checkRoot(root, w.model, "root returned by Commit()")
		w.memRoots[root] = w.model.clone()
		w.curRoot, w.clean = root, true
		if w.limit <= 2 {
			w.c.Probe("commit_with_small_cachelimit")
		}
	})
}

// dbCommitRoot makes root durable; f (optional) is an armed fault that may only fire after the call returned.
func (w *c17World) dbCommitRoot(root common.Hash, snap c17Snap, f *c17Fault) (returned bool) {
	w.do("dbcommit", func() {
		err := w.tdb.Commit(root, false)
		returned = true
		if f != nil {
			f.fgDone = true
		}
		if err != nil {
			w.fail("C17/dbcommit/error", "TrieDatabase.Commit(%x) = %v", root[:6], err)
			return
		}
		w.durable[root] = snap
		w.lastDur, w.hasDur = root, true
		// readable at once through a FRESH TrieDatabase (nothing but the BeansDB, writes still queued)
		t, err := w.open(root, w.db.GetTrieDatabase())
		if err != nil {
			if len(snap) != 0 {
				w.fail("C17/reopen/missing-root", "root %x cannot be opened from the BeansDB right after TrieDatabase.Commit returned: %v", root[:6], err)
			}
			return
		}
		w.nReopen++
		w.checkContent(t, snap, "reopen", fmt.Sprintf("trie reopened from the BeansDB by root %x right after TrieDatabase.Commit", root[:6]))
	})
	return returned
}

func (w *c17World) opDBCommit(lab, flab string, crashVariant bool) {
	c := w.c
	// choose a root that exists in the TrieDatabase's memory: the current one (committing first if needed) or an older one
	var root common.Hash
	var snap c17Snap
	if len(w.memRoots) > 0 && c.Chance(lab, 1, 3) {
		roots := make([]common.Hash, 0, len(w.memRoots))
		for r := range w.memRoots {
			roots = append(roots, r)
		}
		sort.Slice(roots, func(i, j int) bool { return bytes.Compare(roots[i][:], roots[j][:]) < 0 })
		root = roots[c.Draw(lab, len(roots))]
		snap = w.memRoots[root]
		if root != w.curRoot {
			c.Probe("dbcommit_of_an_older_root")
		}
	} else {
		if !w.clean {
			w.opCommit()
			if c.Failed() {
				return
			}
		}
		root, snap = w.curRoot, w.model.clone()
	}
	w.logf("TrieDatabase.Commit %x (%d entries)", root[:6], len(snap))
	switch {
	case crashVariant && c.Chance(flab, 2, 3):
		f := &c17Fault{k: c.Draw(flab, 40), mode: c.Draw(flab, 4)}
		w.arm(f)
		w.dbCommitRoot(root, snap, f)
		w.disarm()
		if c.Failed() {
			return
		}
		if !f.fired {
			return
		}
		c.Fault("crash.async-writer")
		if f.mode >= 2 {
			c.Fault("crash.torn-write")
		}
		w.logf("CRASH at background I/O #%d after TrieDatabase.Commit returned (%s, mode %d)", f.k, f.what, f.mode)
		w.crashCleanup()
		var f2 *c17Fault
		if c.Chance(flab, 1, 3) {
			f2 = &c17Fault{k: c.Draw(flab, 40), mode: c.Draw(flab, 4)}
			w.arm(f2)
		}
		ok := w.reopenDB("crash", f2)
		w.disarm()
		if f2 != nil && f2.fired && !c.Failed() {
			c.Fault("crash.during-recovery-replay")
			w.logf("CRASH again while the reopened store replays its queue (%s, mode %d)", f2.what, f2.mode)
			w.crashCleanup()
			ok = w.reopenDB("crash", nil)
		}
		if ok {
			c.Probe("reopen_after_crash")
		}
	case !crashVariant && c.Chance(flab, 1, 6):
		// a write of the asynchronous writer fails: the data must stay readable (now and after a restart)
		f := &c17Fault{k: c.Draw(flab, 6), mode: 10}
		w.arm(f)
		w.dbCommitRoot(root, snap, f)
		w.disarm()
		if f.fired && !c.Failed() {
			c.Fault("ioerror.async-writer")
			w.logf("I/O error injected into the asynchronous writer (%s)", f.what)
			w.do("check", func() { w.checkDurable("after an I/O error in the asynchronous writer") })
			if !c.Failed() && c.Chance(flab, 1, 2) {
				w.cleanRestart(false)
			}
		}
	case !crashVariant && c.Chance("fgerr", 1, 8):
		// the disk refuses the write-ahead append of TrieDatabase.Commit (full disk, EIO): Commit fails. Nothing is
		// durable then, but nothing may be lost either: the root stays readable through the same TrieDatabase and a
		// second Commit, after the disk recovered, makes it durable.
		f := &c17Fault{k: 0, mode: 11, fgDone: true}
		w.arm(f)
		var err error
		ok := w.do("dbcommit-ioerror", func() { err = w.tdb.Commit(root, false) })
		w.disarm()
		if !ok && !c.Failed() {
			w.fail("C17/stuck/dbcommit", "TrieDatabase.Commit did not return after an I/O error")
		}
		if c.Failed() {
			return
		}
		if !f.fired || err == nil {
			// nothing to write, or the store absorbed the error: an ordinary commit
			if err == nil {
				w.durable[root] = snap
				w.lastDur, w.hasDur = root, true
			}
			return
		}
		c.Fault("ioerror.foreground-commit")
		w.logf("I/O error injected into TrieDatabase.Commit(%x) itself (%s): %v", root[:6], f.what, err)
		w.do("after-failed-commit", func() {
			t, oerr := w.open(root, w.tdb)
			if oerr != nil {
				if len(snap) != 0 {
					w.fail("C17/ioerror/trie-lost-after-failed-commit", "TrieDatabase.Commit(%x) failed with an I/O error (%v); afterwards the root cannot be opened through the same TrieDatabase any more: %v", root[:6], err, oerr)
				}
				return
			}
			w.checkContent(t, snap, "ioerror", fmt.Sprintf("trie at root %x read through the same TrieDatabase after its Commit failed with an I/O error", root[:6]))
		})
		if c.Failed() {
			return
		}
		w.dbCommitRoot(root, snap, nil) // the disk works again: the retry must succeed and be durable
	case !crashVariant && c.Chance(lab, 1, 4):
		// Close in the same task, with the writes still queued
		w.logf("... and Close in the same task; reopen")
		var err error
		ok := w.do("dbcommit+close", func() {
			err = w.tdb.Commit(root, false)
			if err != nil {
				w.fail("C17/dbcommit/error", "TrieDatabase.Commit(%x) = %v", root[:6], err)
				return
			}
			w.durable[root] = snap
			w.lastDur, w.hasDur = root, true
			w.db.Close()
			w.dbClosed = true
		})
		if !ok && !c.Failed() {
			w.fail("C17/stuck/close", "TrieDatabase.Commit+Close did not return")
		}
		if c.Failed() {
			return
		}
		c.Probe("closed_with_async_writes_pending")
		w.cleanRestart(true)
	default:
		w.dbCommitRoot(root, snap, nil)
		if !c.Failed() && c.Chance(lab, 1, 4) {
			w.cleanRestart(false)
		}
	}
}

func (w *c17World) cleanRestart(alreadyClosed bool) {
	if !alreadyClosed {
		w.logf("Close; reopen")
		if !w.do("close", func() { w.db.Close(); w.dbClosed = true }) && !w.c.Failed() {
			w.fail("C17/stuck/close", "Close did not return")
			return
		}
	}
	db := w.db
	w.db, w.tdb, w.t = nil, nil, nil
	w.c.W.Sleep(2 * time.Second)
	c09Drain(w.c, []*store.ChainDatabase{db})
	w.c.Fault("restart.clean")
	w.reopenDB("clean", nil)
}

func (w *c17World) opReopen(lab string) {
	c := w.c
	// candidates: roots in the TrieDatabase's memory (same TrieDatabase) and durable roots (fresh TrieDatabase)
	type cand struct {
		root  common.Hash
		snap  c17Snap
		fresh bool
	}
	var cands []cand
	for _, m := range []map[common.Hash]c17Snap{w.memRoots, w.durable} {
		roots := make([]common.Hash, 0, len(m))
		for r := range m {
			roots = append(roots, r)
		}
		sort.Slice(roots, func(i, j int) bool { return bytes.Compare(roots[i][:], roots[j][:]) < 0 })
		for _, r := range roots {
			cands = append(cands, cand{r, m[r], len(cands) >= len(w.memRoots)})
		}
	}
	if len(cands) == 0 {
		return
	}
	cd := cands[c.Draw(lab, len(cands))]
	adopt := c.Chance(lab, 1, 2)
	w.logf("reopen root %x (%d entries) fresh-TrieDatabase=%v adopt=%v", cd.root[:6], len(cd.snap), cd.fresh, adopt)
	w.do("reopen", func() {
		tdb := w.tdb
		if cd.fresh {
			tdb = w.db.GetTrieDatabase()
		}
		t, err := w.open(cd.root, tdb)
		if err != nil {
			if len(cd.snap) != 0 {
				w.fail("C17/reopen/missing-root", "root %x (%d entries) cannot be opened (fresh TrieDatabase: %v): %v", cd.root[:6], len(cd.snap), cd.fresh, err)
			}
			return
		}
		w.nReopen++
		w.checkContent(t, cd.snap, "reopen", fmt.Sprintf("trie reopened by root %x (fresh TrieDatabase: %v)", cd.root[:6], cd.fresh))
		if w.c.Failed() {
			return
		}
		if h := t.Hash(); h != cd.root {
			w.fail("C17/reopen/root-changed", "a trie opened by root %x hashes to %x", cd.root[:6], h[:6])
			return
		}
		if adopt {
			// continue working on the reopened trie (nodes are loaded on demand from now on)
			if cd.fresh {
				w.tdb = tdb
				w.memRoots = map[common.Hash]c17Snap{}
			}
			w.t, w.model, w.curRoot, w.clean = t, cd.snap.clone(), cd.root, true
			w.c.Probe("continued_on_reopened_trie")
		}
	})
}

// ---------- scenario (b): common/merkle ----------

// c17RefRoot is written from the description "pairs nodes left to right, promoting an odd tail": the nodes are
// consumed two at a time from the left and each parent is appended on the right; a node left without a
// partner at the end of the leaf row is thereby carried over and paired with the first parent. The root of
// the empty list is the hash of the empty string.
func c17RefRoot(leaves []common.Hash) common.Hash {
	if len(leaves) == 0 {
		return crypto.Keccak256Hash(nil)
	}
	q := append([]common.Hash(nil), leaves...)
	for len(q) > 1 {
		q = append(q[2:], crypto.Keccak256Hash(q[0][:], q[1][:]))
	}
	return q[0]
}

func c17Merkle(c *Ctx) {
	fail := func(sig, format string, args ...interface{}) { c.Fail(sig, format, args...) }
	// 34 leaves from the tape; sometimes with repeated leaves
	leaves := make([]common.Hash, 34)
	for i := range leaves {
		var seed [4]byte
		c.T.Bytes("leaf", seed[:])
		leaves[i] = crypto.Keccak256Hash(seed[:], []byte{byte(i)})
	}
	dups := c.Chance("gen", 1, 4)
	if dups {
		for i := 0; i < 4; i++ {
			leaves[c.Draw("gen", 34)] = leaves[c.Draw("gen", 34)]
		}
	}
	simrt.Log("c17m", 0, 0, fmt.Sprintf("%x", c17RefRoot(leaves)))
	proofs := 0
	for n := 0; n <= 33 && !c.Failed(); n++ {
		in := append([]common.Hash(nil), leaves[:n]...)
		orig := append([]common.Hash(nil), in...)
		tree := merkle.New(in)
		root := tree.Root()
		if want := c17RefRoot(orig); root != want {
			fail("C17/merkle/root", "%d leaves: Root() = %x, the reference computes %x", n, root[:6], want[:6])
			return
		}
		if r2 := merkle.New(append([]common.Hash(nil), orig...)).Root(); r2 != root || tree.Root() != root {
			fail("C17/merkle/not-a-function", "%d leaves: two evaluations give different roots", n)
			return
		}
		for i := range in {
			if in[i] != orig[i] {
				fail("C17/merkle/input-modified", "%d leaves: computing the root modified leaf %d of the caller's list", n, i)
				return
			}
		}
		nodes := tree.HashNodes()
		if n == 0 {
			continue
		}
		// order matters: exchanging two different leaves changes the root
		if n >= 2 {
			i, j := c.Draw("pos", n), c.Draw("pos", n)
			if orig[i] != orig[j] {
				sw := append([]common.Hash(nil), orig...)
				sw[i], sw[j] = sw[j], sw[i]
				if merkle.New(sw).Root() == root {
					fail("C17/merkle/order-insensitive", "%d leaves: exchanging the different leaves %d and %d leaves the root unchanged", n, i, j)
					return
				}
			}
		}
		// a changed leaf changes the root
		{
			i := c.Draw("pos", n)
			ch := append([]common.Hash(nil), orig...)
			ch[i][c.Draw("pos", 32)] ^= 0x01
			if merkle.New(ch).Root() == root {
				fail("C17/merkle/leaf-insensitive", "%d leaves: altering leaf %d leaves the root unchanged", n, i)
				return
			}
		}
		for pos := 0; pos < n; pos++ {
			path, err := merkle.FindSiblingNodes(orig[pos], nodes)
			if err != nil {
				fail("C17/merkle/no-proof", "%d leaves: no inclusion proof for position %d: %v", n, pos, err)
				return
			}
			if !merkle.Verify(orig[pos], root, path) {
				fail("C17/merkle/proof-rejected", "%d leaves: the inclusion proof of position %d does not verify", n, pos)
				return
			}
			proofs++
			// altered leaf
			bad := orig[pos]
			bad[c.Draw("alt", 32)] ^= byte(1 << uint(c.Draw("alt", 8)))
			if merkle.Verify(bad, root, path) {
				fail("C17/merkle/altered-leaf-accepted", "%d leaves, position %d: an altered leaf verifies", n, pos)
				return
			}
			// altered sibling / altered position (direction flag), on a copy
			var sibs []int
			for i, s := range path {
				if s.NodeType != merkle.RootNode {
					sibs = append(sibs, i)
				}
			}
			if len(sibs) > 0 {
				i := sibs[c.Draw("alt", len(sibs))]
				p2 := append([]merkle.MerkleNode(nil), path...)
				p2[i].Hash[c.Draw("alt", 32)] ^= 0x10
				if merkle.Verify(orig[pos], root, p2) {
					fail("C17/merkle/altered-sibling-accepted", "%d leaves, position %d: a proof with an altered sibling verifies", n, pos)
					return
				}
				p3 := append([]merkle.MerkleNode(nil), path...)
				if p3[i].NodeType == merkle.LeftNode {
					p3[i].NodeType = merkle.RightNode
				} else {
					p3[i].NodeType = merkle.LeftNode
				}
				// (with repeated leaves a node can equal its sibling, then the direction is immaterial)
				if !dups && merkle.Verify(orig[pos], root, p3) {
					fail("C17/merkle/altered-position-accepted", "%d leaves, position %d: a proof with a flipped direction verifies", n, pos)
					return
				}
				// the proof of one position does not prove a different leaf of another position
				other := c.Draw("alt", n)
				if orig[other] != orig[pos] && merkle.Verify(orig[other], root, path) {
					fail("C17/merkle/proof-transferable", "%d leaves: the proof of position %d verifies leaf %d", n, pos, other)
					return
				}
			}
		}
	}
	// the block-level roots are this tree over the item hashes
	if !c.Failed() {
		n := c.Draw("gen", 9)
		txs := make(types.Transactions, n)
		hs := make([]common.Hash, n)
		for i := range txs {
			txs[i] = types.NewTransaction(common.HexToAddress("0x1001"), common.HexToAddress("0x2002"), big.NewInt(int64(i+1)), 21000, big.NewInt(1), nil, params.OrdinaryTx, 1, 946684900, "", fmt.Sprintf("m%d", c.Draw("gen", 100)))
			hs[i] = txs[i].Hash()
		}
		if got, want := txs.MerkleRootSha(), c17RefRoot(hs); got != want {
			fail("C17/merkle/tx-root", "Transactions.MerkleRootSha over %d transactions = %x, the reference over their hashes = %x", n, got[:6], want[:6])
		}
		dn := make(types.DeputyNodes, n)
		dh := make([]common.Hash, n)
		for i := range dn {
			dn[i] = &types.DeputyNode{MinerAddress: common.BigToAddress(big.NewInt(int64(100 + i))), NodeID: bytes.Repeat([]byte{byte(i + 1)}, 64), Rank: uint32(i), Votes: big.NewInt(int64(1000 - i))}
			dh[i] = dn[i].Hash()
		}
		if got, want := dn.MerkleRootSha(), c17RefRoot(dh); got != want {
			fail("C17/merkle/deputy-root", "DeputyNodes.MerkleRootSha over %d nodes = %x, the reference over their hashes = %x", n, got[:6], want[:6])
		}
	}
	c.Probes["merkle_inclusion_proofs_checked"] += int64(proofs)
	if dups {
		c.Probe("merkle_list_with_repeated_leaves")
	}
	c.Nontrivial = proofs > 0
	c.Sample = map[string]interface{}{"variant": "merkle", "lengths": "0..33", "proofs": proofs, "repeated_leaves": dups}
}

func init() {
	Register(&PropDef{
		ID:        "C17",
		Variants:  []string{"secure", "plain", "crash", "secure", "plain", "crash", "merkle", "account"},
		SimConfig: c17SimConfig,
		Scenario:  c17Scenario,
		Rule: "(a) one SecureTrie or Trie (cache limit 0/1/2/120, shuffled or sorted map order inside the TrieDatabase) over the real TrieDatabase on the real BeansDB: " +
			"12-61 tape-chosen operations out of update (values of 1..300 bytes, empty = delete, recurring values), delete, get, full comparison, Hash, Commit, " +
			"TrieDatabase.Commit of the current or an older root, reopen by root (same or fresh TrieDatabase, optionally continuing on the reopened trie), proofs, " +
			"clean restart (also Close in the committing task), injected I/O error in the asynchronous writer, and - variant crash - process death at the k-th I/O " +
			"of the asynchronous writer after TrieDatabase.Commit returned (plain/after/torn) and again during the replay; keys: 4-16 out of a universe with shared " +
			"prefixes (plain: keys that are prefixes of each other, 32-byte keys differing in the last byte; secure: preimages mined so that their hashes share 2-3 nibbles). " +
			"non-trivial = >=4 updates, >=1 Commit and >=1 trie reopened by root. (b) variant merkle: 34 tape-chosen leaves, every length 0..33, every position. " +
			"distinct = distinct event-log digests",
		Real: []string{"store/trie (Trie, SecureTrie, hasher, iterator, VerifyProof)", "store.TrieDatabase", "store.BeansDB + FileQueue + SyncFileDB background goroutines + BitCask on simos", "store/leveldb on goleveldb (simldb)", "common/merkle, types.Transactions/DeputyNodes.MerkleRootSha"},
		Stub: []string{"callers; proof construction (Trie.Prove is commented out in the repository: the harness records the nodes VerifyProof fetches from the TrieDatabase and re-indexes them by keccak as a receiver would)"},
		Assumptions: []string{
			"the root oracle is history independence (equal to a fresh trie with the same content), not conformance to an external MPT specification",
			"crashes and I/O errors are injected only after TrieDatabase.Commit has returned (asynchronous writer, recovery replay); read errors cannot be injected (simos has no read events)",
			"roots committed only into the TrieDatabase's memory are not expected to survive a restart",
			"(b) has no schedule or fault dimension: pure input sampling plus complete enumeration of lengths 0..33 and positions",
		},
	})
}
