package harness

import (
	"fmt"
	"sort"
	"strings"
	"sync"
	"time"

	"github.com/LemoFoundationLtd/lemochain-core/chain/consensus"
	"github.com/LemoFoundationLtd/lemochain-core/chain/miner"
	"github.com/LemoFoundationLtd/lemochain-core/chain/types"
	"github.com/LemoFoundationLtd/lemochain-core/common"
	"github.com/LemoFoundationLtd/lemochain-core/common/log"
	"github.com/LemoFoundationLtd/lemochain-core/common/subscribe"
	"github.com/LemoFoundationLtd/lemochain-core/network"

	"verif/simrt"
)

// C13 variant "miners": n = 1..5 full nodes, each a deputy running the REAL miner.Miner timer
// loop on the real BlockChain/DPoVP/deputynode.Manager. A small gossip shell plays the
// protocol manager's part: it takes what a node publishes on its event bus (NewMinedBlock,
// NewConfirm) and delivers it to the other nodes after a tape-chosen latency (0 .. several
// slots); blocks whose parent the receiver does not have are held back (as the protocol
// manager's block cache does), confirmations that arrive before their block likewise.
// Faults: latency, a partition with heal + re-sync, crash + restart of the deputy in turn.
// All nodes share one clock (stated limit: no validator clock skew).

type c13Delivery struct {
	due  int64 // unix ms
	seq  int
	to   int // node index
	from int
	blk  *types.Block
	conf *network.BlockConfirmData
}

type c13MNode struct {
	idx   int
	nd    *Node
	mnr   *miner.Miner
	quit  chan struct{}
	group int

	outBlocks []*types.Block
	outConfs  []*network.BlockConfirmData

	orphans  []*types.Block
	pendConf map[common.Hash][]types.SignData
	downTill int64 // restart time while crashed (unix ms), 0 = up
	runaway  bool
}

type c13MWorld struct {
	c     *Ctx
	net   *Net
	m     *c13Model
	nodes []*c13MNode
	queue []*c13Delivery
	seq   int

	blocks    map[common.Hash]*types.Block // every block any honest node mined (and genesis)
	minedBy   map[common.Hash]int
	confs     map[common.Hash][]*network.BlockConfirmData
	partUntil int64
	unjudged  []*types.Block

	logMu sync.Mutex
	logs  map[int][]string

	mined, delivered, inserted, ignored int
	maxHeight                           uint32
	minerCfg                            miner.MineConfig
	notes                               []string
}

func nowMs() int64 { return time.Now().UnixNano() / 1e6 }

func (w *c13MWorld) startNode(mn *c13MNode) bool {
	// a (re)started process has an empty event bus; the simulator keeps node-local globals across
	// a kill, so subscriptions of the previous incarnation (its miner's 1-slot channel, the old
	// gossip channels) would stay registered and every later Send would poll them forever
	mn.nd.Do("bus.reset", subscribe.ClearSub)
	if !mn.nd.StartNode() {
		return false
	}
	mn.quit = make(chan struct{})
	quit := mn.quit
	cw := w.c.W
	cw.Spawn(mn.nd.Tag, mn.nd.Name+".gossip.blocks", func() {
		ch := make(chan *types.Block, 64)
		subscribe.Sub(subscribe.NewMinedBlock, ch)
		for {
			select {
			case b := <-ch:
				simrt.Yield(0)
				mn.outBlocks = append(mn.outBlocks, b)
				if len(mn.outBlocks) > 60 {
					// dozens of blocks within one world tick (100 ms): the miner loop re-arms with zero
					// delay (observed: a single deputy with a 1 s slot, after sealing at the end of its wait
					// window, sees the same window still open because the stamp is floored to the second) and
					// the fake clock can never advance. Every such block is in turn, so this is not a
					// scheduling-rule matter; stop the node so that the run ends, and record it.
					mn.runaway = true
					simrt.KillCurrentNode()
					return
				}
			case <-quit:
				return
			}
		}
	})
	cw.Spawn(mn.nd.Tag, mn.nd.Name+".gossip.confirms", func() {
		ch := make(chan *network.BlockConfirmData, 64)
		subscribe.Sub(subscribe.NewConfirm, ch)
		for {
			select {
			case cf := <-ch:
				simrt.Yield(0)
				mn.outConfs = append(mn.outConfs, cf)
			case <-quit:
				return
			}
		}
	})
	cw.Settle()
	mn.nd.Do("miner.start", func() {
		mn.mnr = miner.New(w.minerCfg, mn.nd.BC, mn.nd.DM, mn.nd.Pool)
		mn.mnr.Start()
	})
	return true
}

func (w *c13MWorld) stopNode(mn *c13MNode) {
	if !mn.nd.Alive {
		return
	}
	mn.nd.Do("miner.stop", func() {
		mn.mnr.Stop()
		mn.mnr.Close()
	})
	close(mn.quit)
	mn.nd.StopNode()
}

func (w *c13MWorld) connected(a, b *c13MNode) bool {
	return w.partUntil == 0 || a.group == b.group
}

func (w *c13MWorld) latency() int64 {
	c := w.c
	slot := w.m.SlotMs
	var l int64
	switch c.Draw("fault", 10) {
	case 0, 1, 2, 3:
		l = 0
	case 4:
		l = 10
	case 5:
		l = 100
	case 6:
		l = 500
	case 7:
		l = slot / 2
	case 8:
		l = slot + int64(c.Draw("fault", int(slot)))
	default:
		l = slot * int64(2+c.Draw("fault", 3))
	}
	switch {
	case l >= slot:
		c.Fault("latency>=slot")
	case l > 0:
		c.Fault("latency<slot")
	}
	return l
}

func (w *c13MWorld) push(d *c13Delivery) {
	w.seq++
	d.seq = w.seq
	w.queue = append(w.queue, d)
}

// collect moves what the nodes published into the delivery queue; every block an honest
// miner produced is judged against the reference rule first.
func (w *c13MWorld) collect() int {
	n := 0
	now := nowMs()
	for _, mn := range w.nodes {
		bs, cs := mn.outBlocks, mn.outConfs
		mn.outBlocks, mn.outConfs = nil, nil
		// each mined block is published by its own goroutine: arrival order is not mining order
		sort.SliceStable(bs, func(i, j int) bool { return bs[i].Height() < bs[j].Height() })
		for _, b := range bs {
			n++
			w.mined++
			h := b.Hash()
			if _, dup := w.blocks[h]; !dup {
				w.blocks[h] = b
				w.minedBy[h] = mn.idx
				if b.Height() > w.maxHeight {
					w.maxHeight = b.Height()
				}
				w.unjudged = append(w.unjudged, b)
			}
			for _, o := range w.nodes {
				if o == mn {
					continue
				}
				if !w.connected(mn, o) {
					w.c.Fault("partition-drop")
					continue
				}
				w.push(&c13Delivery{due: now + w.latency(), to: o.idx, from: mn.idx, blk: b})
			}
		}
		for _, cf := range cs {
			n++
			w.confs[cf.Hash] = append(w.confs[cf.Hash], cf)
			for _, o := range w.nodes {
				if o == mn {
					continue
				}
				if !w.connected(mn, o) {
					w.c.Fault("partition-drop")
					continue
				}
				w.push(&c13Delivery{due: now + w.latency(), to: o.idx, from: mn.idx, conf: cf})
			}
		}
	}
	var later []*types.Block
	for _, b := range w.unjudged {
		if w.blocks[b.ParentHash()] == nil {
			later = append(later, b)
			continue
		}
		w.judgeMined(w.nodes[w.minedBy[b.Hash()]], b, now)
	}
	w.unjudged = later
	return n
}

// judgeMined: a block the real miner loop produced must be in turn by the reference rule
// ("a block mined inside the node's own window").
func (w *c13MWorld) judgeMined(mn *c13MNode, b *types.Block, now int64) {
	c := w.c
	parent := w.blocks[b.ParentHash()]
	if parent == nil {
		c.Fail("C13/harness/unknown-parent", "node %d mined on a parent the harness never saw", mn.idx)
		return
	}
	if b.Height()%w.m.T == 0 && len(w.m.Terms) == int(b.Height()/w.m.T) {
		w.m.Terms = append(w.m.Terms, b.DeputyNodes)
	}
	act := w.m.active(b.Height())
	if len(act) == 0 {
		return
	}
	pMs := int64(parent.Time()) * 1000
	want, ok := w.m.entitled(b.Height(), parent.MinerAddress(), pMs, int64(b.Time())*1000)
	got := rankOf(act, b.MinerAddress())
	if w.m.firstOfTerm(b.Height()) && b.Height() > 1 {
		c.Probe("mined_reward_height")
	}
	if (int64(b.Time())*1000-pMs)/w.m.SlotMs >= int64(len(act)) {
		c.Probe("mined_after_full_round")
	}
	if b.Time() == parent.Time() {
		c.Probe("mined_same_second_as_parent")
	}
	if !ok || want != got {
		c.Fail("C13/miners/mined-out-of-turn", "the real miner of node %d (rank %d) produced block %s stamped %d on parent %s (miner rank %d, time %d): by the slot rule rank %d is entitled at that stamp (n=%d slot=%dms, mined at clock %d ms)",
			mn.idx, got, b.ShortString(), b.Time(), parent.ShortString(), w.m.parentRank(b.Height(), parent.MinerAddress()), parent.Time(), want, len(act), w.m.SlotMs, now)
	}
}

func classifyRefusal(lines []string) string {
	for _, l := range lines {
		switch {
		case strings.Contains(l, "miner is not in turn"), strings.Contains(l, "can't find correct miner"):
			return "out-of-turn"
		case strings.Contains(l, "can't find deputy node"):
			return "signer-not-deputy"
		case strings.Contains(l, "can't load parent block"):
			return "parent-unknown"
		case strings.Contains(l, "block is in the future"):
			return "future-time"
		case strings.Contains(l, "tx is appeared in parent blocks"):
			return "duplicate-tx"
		}
	}
	return "other"
}

func (w *c13MWorld) takeLogs(tag int) []string {
	w.logMu.Lock()
	defer w.logMu.Unlock()
	l := w.logs[tag]
	delete(w.logs, tag)
	return l
}

// insert hands block b to node r the way the protocol manager does.
func (w *c13MWorld) insert(r *c13MNode, b *types.Block) {
	c := w.c
	nd := r.nd
	h := b.Hash()
	if nd.BC.HasBlock(h) || b.Height() <= nd.BC.StableBlock().Height() {
		w.ignored++
		return
	}
	parent := nd.BC.GetBlockByHash(b.ParentHash())
	if parent == nil {
		r.orphans = append(r.orphans, b)
		c.Probe("block_held_until_parent_arrives")
		return
	}
	wire := wireCopyBlock(b)
	termKnown := len(nd.DM.GetDeputiesByHeight(b.Height(), true)) > 0
	if !termKnown {
		c.Probe("receiver_does_not_know_term_yet")
	}
	// oracle (iv), decided without logs: the receiver's own schedule verification of this
	// honest block (its deputy manager, its slot length, the parent as the receiver stores it)
	if termKnown {
		var verr error
		nd.Do("verify-miner", func() {
			verr = consensus.NewValidator(uint64(w.m.SlotMs), nil, nd.DM, nil, nil).VerifyMiner(wire.Header, parent.Header)
		})
		if verr != nil {
			c.Fail("C13/miners/honest-block-out-of-turn-at-receiver", "node %d's VerifyMiner rejects block %s (stamp %d, miner rank %d) mined by honest node %d on parent %s (stamp %d): %v",
				r.idx, b.ShortString(), b.Time(), rankOf(w.m.active(b.Height()), b.MinerAddress()), w.minedBy[h], parent.ShortString(), parent.Time(), verr)
		}
	}
	w.takeLogs(nd.Tag)
	_, err := nd.InsertBlock(wire)
	lines := w.takeLogs(nd.Tag)
	switch {
	case err == nil:
		w.inserted++
		if sigs := r.pendConf[h]; len(sigs) > 0 {
			delete(r.pendConf, h)
			nd.InsertConfirms(b.Height(), h, sigs)
		}
		// children waiting for this block
		var rest, ready []*types.Block
		for _, o := range r.orphans {
			if o.ParentHash() == h {
				ready = append(ready, o)
			} else {
				rest = append(rest, o)
			}
		}
		r.orphans = rest
		for _, o := range ready {
			w.insert(r, o)
		}
	case err == consensus.ErrIgnoreBlock:
		w.ignored++
	default:
		// the engine hides why; error-level log lines of the call only name the sub-cause
		class := classifyRefusal(lines)
		future := int64(b.Time())-time.Now().Unix() > 1
		switch {
		case class == "out-of-turn" && termKnown:
			c.Fail("C13/miners/honest-block-rejected-out-of-turn", "node %d refused block %s mined by honest node %d (stamp %d, parent %s stamp %d) although parent and term are known and the stamp is not in the future: %v\nlog: %s",
				r.idx, b.ShortString(), w.minedBy[h], b.Time(), parent.ShortString(), parent.Time(), err, strings.Join(lines, " | "))
		case !termKnown || future:
			c.Probe("legitimate_refusal:" + class)
		default:
			c.Probe("honest_block_refused_other_reason:" + class)
			if len(w.notes) < 3 {
				w.notes = append(w.notes, fmt.Sprintf("node %d refused %s: %v [%s] %s", r.idx, b.ShortString(), err, class, strings.Join(lines, " | ")))
			}
		}
	}
}

func (w *c13MWorld) deliverDue() int {
	now := nowMs()
	sort.SliceStable(w.queue, func(i, j int) bool {
		if w.queue[i].due != w.queue[j].due {
			return w.queue[i].due < w.queue[j].due
		}
		return w.queue[i].seq < w.queue[j].seq
	})
	n := 0
	for len(w.queue) > 0 && w.queue[0].due <= now {
		d := w.queue[0]
		w.queue = w.queue[1:]
		r := w.nodes[d.to]
		if !r.nd.Alive {
			continue // lost; re-synced after the restart
		}
		n++
		w.delivered++
		if d.blk != nil {
			w.insert(r, d.blk)
			continue
		}
		cf := d.conf
		if !r.nd.BC.HasBlock(cf.Hash) {
			r.pendConf[cf.Hash] = append(r.pendConf[cf.Hash], cf.SignInfo)
			continue
		}
		r.nd.InsertConfirms(cf.Height, cf.Hash, []types.SignData{cf.SignInfo})
	}
	return n
}

// resync offers node r everything it misses (what the status handshake + block/confirm
// fetching of the protocol manager achieves after a reconnect or restart).
func (w *c13MWorld) resync(r *c13MNode) {
	var bs []*types.Block
	for _, b := range w.blocks {
		if b.Height() > 0 {
			bs = append(bs, b)
		}
	}
	sort.Slice(bs, func(i, j int) bool {
		if bs[i].Height() != bs[j].Height() {
			return bs[i].Height() < bs[j].Height()
		}
		return bs[i].Hash().Hex() < bs[j].Hash().Hex()
	})
	now := nowMs()
	lat := w.latency()
	for _, b := range bs {
		if w.minedBy[b.Hash()] == r.idx && r.nd.BC.HasBlock(b.Hash()) {
			continue
		}
		w.push(&c13Delivery{due: now + lat, to: r.idx, from: -1, blk: b})
		for _, cf := range w.confs[b.Hash()] {
			w.push(&c13Delivery{due: now + lat, to: r.idx, from: -1, conf: cf})
		}
	}
}

func c13MinersScenario(c *Ctx) {
	p := defaultParams(c)
	p.NDeputies = 1 + c.Draw("gen", 5)
	p.DeputyCount = p.NDeputies
	p.SlotMs = []uint64{3000, 1000, 2000, 10000}[c.Draw("gen", 4)]
	p.TermDuration = uint32(6 + c.Draw("gen", 4))
	p.InterimDuration = uint32(1 + c.Draw("gen", 3))
	net := NewNet(c, p)
	w := &c13MWorld{c: c, net: net, blocks: map[common.Hash]*types.Block{}, minedBy: map[common.Hash]int{}, confs: map[common.Hash][]*network.BlockConfirmData{}, logs: map[int][]string{}}
	w.m = &c13Model{T: p.TermDuration, I: p.InterimDuration, SlotMs: int64(p.SlotMs), MaxDep: p.DeputyCount, byMiner: map[common.Address]*c13Ident{}}
	slot := int64(p.SlotMs)
	// miner timing as main/node derives it from config: sleep < timeout, a third of the rest reserved
	sleep := slot * int64(1+c.Draw("gen", 3)) / 4
	w.minerCfg = miner.MineConfig{SleepTime: sleep, Timeout: slot, ReservedPropagationTime: (slot - sleep) / 3}

	log.VerifSetErrorSink(func(msg string) {
		tag := simrt.CurrentNode()
		w.logMu.Lock()
		if len(w.logs[tag]) < 64 {
			w.logs[tag] = append(w.logs[tag], msg)
		}
		w.logMu.Unlock()
	})
	defer log.VerifSetErrorSink(nil)

	for i, d := range net.Deputies {
		mn := &c13MNode{idx: i, nd: net.AddNode(1+i, fmt.Sprintf("d%d", i), d.Node), pendConf: map[common.Hash][]types.SignData{}}
		w.nodes = append(w.nodes, mn)
	}
	for _, mn := range w.nodes {
		if !w.startNode(mn) {
			c.Fail("C13/harness/start", "node %d did not start", mn.idx)
			return
		}
	}
	gen := net.GenBlock
	w.blocks[gen.Hash()] = gen
	w.m.Terms = append(w.m.Terms, gen.DeputyNodes)

	target := p.TermDuration + p.InterimDuration + 2 + uint32(c.Draw("gen", 3))
	if c.Chance("gen", 1, 2) {
		target = uint32(4 + c.Draw("gen", 5)) // short runs: more of them
	}
	start := nowMs()
	deadline := start + int64(target)*slot*int64(p.NDeputies+2) + 30000
	tick := int64(100)

	// fault plan
	var partAt, partLen, crashAt, crashLen int64
	if p.NDeputies >= 2 && c.Chance("fault", 1, 4) {
		partAt = start + slot*int64(1+c.Draw("fault", int(target)))
		partLen = slot * int64(1+c.Draw("fault", 2*p.NDeputies))
	}
	if c.Chance("fault", 1, 4) {
		crashAt = start + slot*int64(1+c.Draw("fault", int(target))) + int64(c.Draw("fault", int(slot)))
		crashLen = slot/2 + int64(c.Draw("fault", int(3*slot)))
	}
	txEvery := int64(0)
	if c.Chance("gen", 1, 2) {
		txEvery = slot * int64(1+c.Draw("gen", 3)) // a transfer enters every pool now and then
	}
	nextTx := start + txEvery
	txN := 0

	for nowMs() < deadline && !c.Failed() {
		for {
			if w.collect()+w.deliverDue() == 0 {
				break
			}
		}
		now := nowMs()
		// ---- faults
		if partAt != 0 && now >= partAt && w.partUntil == 0 {
			for _, mn := range w.nodes {
				mn.group = c.Draw("fault", 2)
			}
			w.nodes[0].group, w.nodes[len(w.nodes)-1].group = 0, 1
			w.partUntil = now + partLen
			partAt = 0
			c.Fault("partition")
		}
		if w.partUntil != 0 && now >= w.partUntil {
			w.partUntil = 0
			c.Fault("partition-heal")
			for _, mn := range w.nodes {
				if mn.nd.Alive {
					w.resync(mn)
				}
			}
		}
		if crashAt != 0 && now >= crashAt {
			crashAt = 0
			// the deputy in turn right now on the longest chain the harness knows
			victim := w.nodes[c.Draw("fault", len(w.nodes))]
			if head := w.head(); head != nil && c.Chance("fault", 3, 4) {
				act := w.m.active(head.Height() + 1)
				if r, ok := w.m.entitled(head.Height()+1, head.MinerAddress(), int64(head.Time())*1000, now); ok && len(act) > 0 {
					if d := net.DeputyByMiner(act[r].MinerAddress); d != nil {
						victim = w.nodes[d.Rank]
						c.Probe("crashed_deputy_in_turn")
					}
				}
			}
			close(victim.quit)
			victim.mnr.Close() // frees the miner loop's goroutine (blocked in a native select); it dies at its next yield
			victim.nd.Crash()
			victim.downTill = nowMs() + crashLen
			victim.orphans, victim.pendConf = nil, map[common.Hash][]types.SignData{}
			c.Fault("crash")
		}
		for _, mn := range w.nodes {
			if mn.downTill != 0 && nowMs() >= mn.downTill {
				mn.downTill = 0
				if !w.startNode(mn) {
					c.Fail("C13/harness/restart", "node %d did not restart", mn.idx)
					return
				}
				c.Fault("restart")
				w.resync(mn)
			}
		}
		if txEvery > 0 && now >= nextTx {
			nextTx = now + txEvery
			txN++
			tx := net.SignedTransfer(net.Founder, net.Users[txN%len(net.Users)].Addr, common.Lemo2Mo("10"), uint64(now/1000)+600, fmt.Sprintf("t%d", txN))
			for _, mn := range w.nodes {
				if mn.nd.Alive {
					nd := mn.nd
					nd.Do("addtx", func() { nd.Pool.AddTx(tx) })
				}
			}
			c.Probe("tx_entered_pools")
		}
		runaway := false
		for _, mn := range w.nodes {
			if mn.runaway {
				runaway = true
				close(mn.quit)
				mn.mnr.Close()
				mn.nd.Crash()
			}
		}
		if runaway {
			c.Probe("zero_delay_mining_loop_single_deputy_stopped")
			break
		}
		if w.maxHeight >= target && len(w.queue) == 0 {
			break
		}
		// ---- advance the clock to the next event
		next := nowMs() + tick
		if len(w.queue) > 0 {
			sort.SliceStable(w.queue, func(i, j int) bool { return w.queue[i].due < w.queue[j].due || (w.queue[i].due == w.queue[j].due && w.queue[i].seq < w.queue[j].seq) })
			if w.queue[0].due < next {
				next = w.queue[0].due
			}
		}
		if d := next - nowMs(); d > 0 {
			c.W.Sleep(time.Duration(d) * time.Millisecond)
		} else {
			c.W.Sleep(time.Millisecond)
		}
	}
	heads := []string{}
	for _, mn := range w.nodes {
		if mn.nd.Alive {
			heads = append(heads, fmt.Sprintf("%d/%d", mn.nd.BC.CurrentBlock().Height(), mn.nd.BC.StableBlock().Height()))
		} else {
			heads = append(heads, "down")
		}
	}
	for _, mn := range w.nodes {
		w.stopNode(mn)
	}
	c.Nontrivial = w.mined >= 3 && w.inserted >= 1 || (p.NDeputies == 1 && w.mined >= 3)
	c.Sample = map[string]interface{}{"variant": "miners", "n": p.NDeputies, "slot_s": p.SlotMs / 1000, "sleep_ms": sleep, "term": p.TermDuration, "interim": p.InterimDuration,
		"target_height": target, "blocks_mined": w.mined, "deliveries": w.delivered, "inserted": w.inserted, "ignored": w.ignored,
		"current/stable per node": heads, "sim_seconds": (nowMs() - start) / 1000, "faults": c.Faults, "notes": w.notes}
}

// head returns the highest block the harness has seen (lowest hash on ties).
func (w *c13MWorld) head() *types.Block {
	var best *types.Block
	for _, b := range w.blocks {
		if best == nil || b.Height() > best.Height() || (b.Height() == best.Height() && b.Hash().Hex() < best.Hash().Hex()) {
			best = b
		}
	}
	return best
}
