package harness

import (
	"strings"
	"fmt"
	"time"

	"github.com/LemoFoundationLtd/lemochain-core/chain/consensus"
	"github.com/LemoFoundationLtd/lemochain-core/chain/types"
	"github.com/LemoFoundationLtd/lemochain-core/common"

	"verif/simrt"
)

// C01: every block an honest miner produces is re-executed identically by every honest
// validator: same hash, accepted, same account state field for field - whatever the
// validator's map iteration order, restarts, or earlier history, and whatever other
// transactions the miner tried and discarded.

func wireCopyTx(tx *types.Transaction) *types.Transaction {
	buf, err := rlpEncode(tx)
	if err != nil {
		panic(err)
	}
	var out types.Transaction
	if err := rlpDecode(buf, &out); err != nil {
		panic(err)
	}
	return &out
}

// whichRoot names the first header field in which two blocks differ.
func whichRoot(a, b *types.Block) string {
	switch {
	case a.VersionRoot() != b.VersionRoot():
		return "version-root"
	case a.LogRoot() != b.LogRoot():
		return "log-root"
	case a.TxRoot() != b.TxRoot():
		return "tx-root"
	case a.GasUsed() != b.GasUsed():
		return "gas-used"
	case string(a.DeputyRoot()) != string(b.DeputyRoot()):
		return "deputy-root"
	case a.GasLimit() != b.GasLimit():
		return "gas-limit"
	}
	return "other-header-field"
}

type c01Validator struct {
	nd      *Node
	able    bool
	restart bool
	forky   bool
}

func c01Scenario(c *Ctx) {
	terms := c.Var == "terms"
	p := drawParams(c, terms)
	net := NewNet(c, p)
	f := net.NewFactory(40)
	f2 := net.NewFactory(50)
	g := NewTxGen(net, c, "tx")
	// every party iterates maps in its own order
	for t := 40; t < 48; t++ {
		simrt.SetMapMode(t, simrt.MapSorted)
	}
	for t := 50; t < 58; t++ {
		simrt.SetMapMode(t, simrt.MapReversed)
	}
	modes := []simrt.MapMode{simrt.MapReversed, simrt.MapShuffled, simrt.MapShuffled}
	var vals []*c01Validator
	for i := 0; i < 3; i++ {
		self := detKey(fmt.Sprintf("observer%d", i))
		if i == 1 && c.Draw("gen", 2) == 0 {
			self = net.Deputies[c.Draw("gen", len(net.Deputies))].Node // a deputy validates too
		}
		nd := net.AddNode(1+i, fmt.Sprintf("v%d", i+1), self)
		simrt.SetMapMode(1+i, modes[i])
		if !nd.StartNode() {
			c.Fail("C01/harness/start", "validator did not start")
			return
		}
		vals = append(vals, &c01Validator{nd: nd, able: true, restart: i == 1, forky: i == 2})
	}
	var chainBlocks []*types.Block
	parent2 := f2.Blocks[net.GenBlock.Hash()]
	blocks, restarts, alts := 0, 0, 0
	maxBlocks := 6
	if terms {
		maxBlocks = 15
	}
	chainRun(c, net, g, f, ChainRunOpts{MaxBlocks: maxBlocks, MaxTxs: 7, Terms: terms,
		OnBlock: func(r *BlockRec) bool {
			blk := r.Block
			blocks++
			// (b) twin miner: same parent, same instant, only the packaged transactions
			var only types.Transactions
			for _, tx := range blk.Txs {
				only = append(only, wireCopyTx(tx))
			}
			f2.GasLimitOverride = blk.GasLimit() // the header gas limit is the miner's choice: the twin makes the same one
			tw, twInvalid, err := f2.Mine(r.Deputy, parent2, blk.Time(), only, "")
			f2.GasLimitOverride = 0
			if err != nil {
				c.Fail("C01/twin/mine-error", "twin miner failed on the packaged transactions of block %d: %v", blk.Height(), err)
				return false
			}
			if len(twInvalid) > 0 {
				// the signature names what was discarded and why (the twin's own log), so that one cause does not stand for all
				why := "unknown"
				lines := takeErrors(f2.Tag + 1 + r.Deputy)
				reason := func(l, mark string) string {
					i := strings.Index(l, mark)
					if i < 0 {
						return ""
					}
					w := strings.Fields(strings.SplitN(l[i+len(mark):], ", transaction:", 2)[0])
					if len(w) > 6 {
						w = w[:6]
					}
					return sanitize(strings.Join(w, "-"))
				}
				for _, l := range lines { // the line that names the discarded transaction wins
					if strings.Contains(l, twInvalid[0].Hash().Hex()) {
						if r := reason(l, "Apply transaction failure. error:"); r != "" {
							why = r
						}
					}
				}
				if why == "unknown" {
					for _, l := range lines {
						if r := reason(l, "VerifyTxBeforeApply fail error="); r != "" {
							why = r
						}
					}
				}
				c.Fail(fmt.Sprintf("C01/twin/discarded/type%d/%s", twInvalid[0].Type(), why), "twin miner (same parent, same instant, same packaged transactions; its own stable block is genesis, the first miner's trails its head by %d) discarded %d of the transactions the first miner packaged in block %d: %v\ntwin's log: %v",
					r.Lag, len(twInvalid), blk.Height(), txsSummary(twInvalid), lines)
				return false
			}
			if tw.Hash() != blk.Hash() {
				c.Fail("C01/twin/hash-"+whichRoot(tw, blk), "block %d mined from the packaged transactions alone differs from the block mined with %d extra discarded candidates (%s): %s vs %s; txs: %v",
					blk.Height(), len(r.Invalid), whichRoot(tw, blk), tw.Hash().Hex()[:12], blk.Hash().Hex()[:12], txsSummary(blk.Txs))
				return false
			}
			parent2 = tw
			// alternative sibling for the validator with a different history
			var alt *types.Block
			if c.Draw("gen", 3) == 0 && len(r.Cands) > 0 {
				var sub types.Transactions
				for i, tx := range r.Cands {
					if i%2 == 0 {
						sub = append(sub, wireCopyTx(tx))
					}
				}
				f.GasLimitOverride = blk.GasLimit()
				a, _, err := f.Mine(r.Deputy, r.Parent, blk.Time(), sub, "alt")
				f.GasLimitOverride = 0
				if err == nil && a.Hash() != blk.Hash() {
					alt = a
					alts++
				}
			}
			for _, v := range vals {
				if !v.able {
					continue
				}
				nd := v.nd
				if v.restart && c.Draw("gen", 2) == 0 {
					nd.StopNode()
					if !nd.StartNode() {
						c.Fail("C01/restart/failed", "validator did not come back after a clean restart")
						return false
					}
					restarts++
					c.Fault("clean_restart")
					// re-feed the unstable ancestors the restart forgot, as sync would
					st := nd.BC.StableBlock().Height()
					for _, ob := range chainBlocks {
						if ob.Height() > st {
							nd.InsertBlock(wireCopyBlock(ob))
						}
					}
				}
				if v.forky && alt != nil {
					nd.InsertBlock(wireCopyBlock(alt))
					c.Fault("sibling_first")
				}
				// precondition "able to judge": the term governing this height is loaded,
				// i.e. its snapshot block is stable on this validator
				h := blk.Height()
				T, I := net.P.TermDuration, net.P.InterimDuration
				if h > T+I {
					need := ((h - I - 1) / T) * T
					if nd.BC.StableBlock().Height() < need {
						v.able = false
						c.Probe("validator_unable_term_not_stable")
						continue
					}
				}
				takeErrors(nd.Tag)
				_, ierr := nd.InsertBlock(wireCopyBlock(blk))
				if ierr == consensus.ErrIgnoreBlock && nd.BC.StableBlock().Height() >= blk.Height() {
					// the validator finalised a sibling at this height (e.g. a single deputy's
					// sibling block is stable at once): it legitimately no longer looks at this branch
					v.able = false
					c.Probe("validator_finalised_sibling")
					continue
				}
				if ierr != nil {
					lines := takeErrors(nd.Tag)
					why := classifyRejection(lines)
					detail := ""
					for _, l := range lines {
						if strings.HasPrefix(l, "Local logs:") {
							detail += "\nvalidator computed: " + l + "\nblock carries: " + fmt.Sprintf("%s", blk.ChangeLogs)
						}
						if strings.HasPrefix(l, "nodes in body:") {
							detail += "\n" + l
						}
					}
					c.Fail("C01/rejected/"+why, "honest validator %s rejected block %d of the honest miner (%v, reason: %s); txs: %v%s", nd.Name, blk.Height(), ierr, why, txsSummary(blk.Txs), detail)
					return false
				}
				var dump StateDump
				nd.Do("dump", func() { dump = DumpState(nd.DB, blk.Hash(), r.Universe, r.Keys) })
				if diff := DiffState(r.Post, dump); diff != "" {
					c.Fail("C01/state/differs", "validator %s accepted block %d but its account state differs from the miner's: %s", nd.Name, blk.Height(), diff)
					return false
				}
				// confirmations from the other deputies so that stable follows
				if c.Draw("gen", 3) != 0 {
					var sigs []types.SignData
					for _, d := range r.Term {
						if d.Miner.Addr != r.Miner.Miner.Addr {
							sigs = append(sigs, net.ConfirmBy(d, blk.Hash()))
						}
					}
					if len(sigs) > 0 {
						nd.InsertConfirms(blk.Height(), blk.Hash(), sigs)
					}
				}
			}
			chainBlocks = append(chainBlocks, blk)
			c.State(hashString(fmt.Sprintf("%d/%d/%d/%v/%v", blk.Height(), len(blk.Txs), len(r.Invalid), r.IsReward, r.IsSnap)))
			return true
		}})
	// a node that was not there when the blocks were mined: it syncs the whole chain later,
	// at another wall-clock time, in one go (confirmations first for half of the blocks) and
	// must end with the same state ("does not depend on wall-clock time or on what the node
	// executed before")
	if !c.Failed() && len(chainBlocks) >= 2 && c.Draw("gen", 2) == 0 {
		c.W.Sleep(time.Duration(10+c.Draw("gen", 7200)) * time.Second)
		late := net.AddNode(4, "late", detKey("observer-late"))
		simrt.SetMapMode(4, simrt.MapShuffled)
		if late.StartNode() {
			c.Fault("late_sync_clock_shift")
			ok := true
			for _, ob := range chainBlocks {
				h := ob.Height()
				T, I := net.P.TermDuration, net.P.InterimDuration
				if h > T+I && late.BC.StableBlock().Height() < ((h-I-1)/T)*T {
					c.Probe("late_syncer_unable_term_not_stable")
					ok = false
					break
				}
				takeErrors(late.Tag)
				if _, err := late.InsertBlock(wireCopyBlock(ob)); err != nil {
					why := classifyRejection(takeErrors(late.Tag))
					c.Fail("C01/rejected-by-late-syncer/"+why, "a node syncing the chain later (clock shifted) rejected honest block %d (%v, reason: %s)", h, err, why)
					ok = false
					break
				}
				var sigs []types.SignData
				for k := range net.Deputies {
					if net.Deputies[k].Miner.Addr != ob.MinerAddress() {
						sigs = append(sigs, net.Confirm(k, ob.Hash()))
					}
				}
				if len(sigs) > 0 {
					late.InsertConfirms(h, ob.Hash(), sigs)
				}
			}
			if ok {
				last := chainBlocks[len(chainBlocks)-1]
				uni := net.Universe(g, chainBlocks...)
				keys := g.DumpKeys()
				var a, b StateDump
				late.Do("dump", func() { a = DumpState(late.DB, last.Hash(), uni, keys) })
				c.W.Do(f.Tag, "dump", func() { b = DumpState(f.DB, last.Hash(), uni, keys) })
				if diff := DiffState(b, a); diff != "" {
					c.Fail("C01/state/late-syncer-differs", "a node that synced the chain later ends with another state at block %d than the miner: %s", last.Height(), diff)
				}
				c.Probe("late_syncer_compared")
			}
		}
	}
	c.Nontrivial = blocks >= 2
	c.Sample = map[string]interface{}{"params": fmt.Sprintf("%+v", p), "blocks": blocks, "restarts": restarts, "sibling_forks": alts}
	_ = common.Hash{}
}

func init() {
	Register(&PropDef{
		ID: "C01", Variants: []string{"mixed", "terms", "mixed"},
		Scenario: c01Scenario,
		Rule: "an honest miner (factory, sorted map order) builds 2-6 blocks of 0-7 tape-generated transactions of all types plus junk it must discard; a twin miner (reversed map order) re-mines each block from the packaged transactions only; three validators (reversed / tape-shuffled map order; one restarted cleanly between blocks with its unstable blocks re-fed; one fed a sibling fork first) receive the block over the real RLP codec, must accept it and must end with a field-for-field equal dump of the whole account universe; non-trivial = >=2 blocks; distinct = event-log digests",
		Real: []string{"store", "chain/account", "chain/vm", "chain/transaction", "chain/consensus (DPoVP.InsertBlock, validator, assembler)", "chain/deputynode", "chain/txpool.TxGuard", "common/rlp"},
		Stub: []string{"no network: blocks are handed to InsertBlock by the harness", "miner = harness factory driving the real BlockAssembler"},
		Assumptions: []string{"a validator is only required to accept when it is able to judge (term of that height stable on it); restarted validators are re-fed the unstable blocks they forgot", "chain/vm internal map ranges are order-controlled too (map_only instrumentation)"},
	})
}
