package harness

import (
	"fmt"
	"os"
	"strings"

	"github.com/LemoFoundationLtd/lemochain-core/chain/types"

	"verif/simrt"
	"verif/simrt/simldb"
	"verif/simrt/simos"
)

// C08 - durability under crashes. Every I/O event of the node under test (NUT) during a
// workload is a crash point; run index -> (workload, crash point k, variant slot) enumerates
// them (variant "enum"), a second family of runs draws workload, crash point and variant
// from the tape (variant "random").

const (
	c08Group  = 3 // workloads enumerated side by side (rank-major: all "before" points of the group first)
	c08Margin = 6 // tolerated difference between the twin's and the NUT's event count (preemptive schedules)
)

// ranks of the enumeration: which variants exist for which event kinds
const (
	rkBefore = iota
	rkAfter
	rkTornCut
	rkTornLast
	rkTornHdr
	rkTorn256
	rkTorn1
	rkTorn256k
	rkRecoveryA
	rkRecoveryB
	rkCount
)

var rkNames = []string{"before", "after", "torncut", "tornlen-1", "torn18", "torn256", "torn1", "torn256k", "crash+recovery-crash", "crash+recovery-crashes"}
var rkVariant = []int{cvBefore, cvAfter, cvTornCut, cvTornLast, cvTornHdr, cvTorn256, cvTorn1, cvTornRec, -1, -1}

// rankApplies says whether variant rank rk is a distinct experiment for event r.
func rankApplies(rk int, r ioRec) bool {
	simosWrite := r.Kind == "write" && r.Len >= 2
	ldbWrite := r.Kind == "ldb.write" && r.Len >= 2
	switch rk {
	case rkBefore, rkRecoveryA:
		return true
	case rkAfter:
		return r.Kind != "sync" // a sync changes nothing under the process-death model
	case rkTornCut:
		return simosWrite || ldbWrite
	case rkTornLast, rkTorn1:
		return simosWrite
	case rkTornHdr:
		return simosWrite && r.Len > 18
	case rkTorn256:
		return simosWrite && r.Len > 256
	case rkTorn256k:
		return simosWrite && r.Len > 512
	case rkRecoveryB:
		return r.Kind != "sync" && !strings.HasPrefix(r.Kind, "ldb.")
	}
	return false
}

type c08Plan struct {
	Mode     string // "enum", "random"
	Workload int
	K        int // enumerable event number (1-based)
	Rank     int
	// enumeration bookkeeping (enum positions = indices among the enum runs)
	Pos, GroupLo, GroupHi int // this run's position and the position range of its workload group
	PointsOfWorkload      int // crash points x applicable variants of this workload
	EventsOfWorkload      int
}

// enumIndex maps a run index to its position among the "enum" runs (variants cycle
// enum,enum,enum,random).
func c08EnumPos(idx int) int { return (idx/4)*3 + idx%4 }

func c08RunIndexOfEnum(e int) int { return (e/3)*4 + e%3 }

// ---- census: the I/O events of a workload, learnt from a fault-free pass of the twin ----

type c08Census struct {
	Events []ioRec // enumerable events of the twin, in order
	Points int     // number of (event, applicable rank) pairs
}

type enumSpec struct {
	Prop  string
	Build func(c *Ctx, enum bool) *c08Workload
}

var (
	c08CensusCache = map[string]*c08Census{}
	c08CensusOut   *c08Census
	enumSpecs      = map[string]*enumSpec{}
)

func workloadSeed(base uint64, prop string, w int) uint64 {
	return simrt.Mix(base, prop+"/workload", uint64(w))
}

func resetRunGlobals() {
	simos.Reset()
	simldb.Reset()
	for i := 0; i < 64; i++ {
		simrt.SetMapMode(i, simrt.MapSorted)
	}
	resetGlobals()
}

// getCensus runs (once per process and workload) the fault-free twin pass of workload w in
// a bubble of its own. It is a pure function of (seed, tier, workload).
func getCensus(c *Ctx, prop string, w int) *c08Census {
	key := fmt.Sprintf("%s/%s/%d/%d", prop, c.Tier, c.BaseSeed, w)
	if cs := c08CensusCache[key]; cs != nil {
		return cs
	}
	tape := simrt.NewTape(simrt.Mix(c.BaseSeed, prop+"/census", uint64(w)))
	tape.Preset("plan", w)
	c08CensusOut = &c08Census{}
	out := execute(registry[prop+"-census"], tape, c.Tier, "census")
	cs := c08CensusOut
	c08CensusOut = nil
	if out.HarnessErr != "" {
		panic("census of workload failed: " + out.HarnessErr)
	}
	for _, r := range cs.Events {
		for rk := 0; rk < rkCount; rk++ {
			if rankApplies(rk, r) {
				cs.Points++
			}
		}
	}
	if len(c08CensusCache) > 64 {
		c08CensusCache = map[string]*c08Census{}
	}
	c08CensusCache[key] = cs
	resetRunGlobals()
	return cs
}

// locate maps an enum position to (workload, k, rank). Groups of c08Group workloads are
// enumerated rank-major: first "crash before" at every event of every workload of the
// group, then "crash after", then the torn variants, then the recovery-crash combinations.
func locate(c *Ctx, prop string, pos int) (w, k, rank, lo, hi, points, events int) {
	base := 0
	for g := 0; ; g++ {
		total := 0
		var cens [c08Group]*c08Census
		for i := 0; i < c08Group; i++ {
			cens[i] = getCensus(c, prop, g*c08Group+i)
			total += cens[i].Points
		}
		if pos >= base+total {
			base += total
			if g > 100000 {
				panic("locate: no workload with crash points")
			}
			continue
		}
		r := pos - base
		for rk := 0; rk < rkCount; rk++ {
			for i := 0; i < c08Group; i++ {
				for ei, ev := range cens[i].Events {
					if !rankApplies(rk, ev) {
						continue
					}
					if r == 0 {
						return g*c08Group + i, ei + 1, rk, base, base + total, cens[i].Points, len(cens[i].Events)
					}
					r--
				}
			}
		}
		panic("locate: inconsistent census")
	}
}

// c08Prepare derives the plan from the run index (generation mode), records it on the tape
// and seeds the workload streams per workload. In replay mode everything is read back.
func c08Prepare(c *Ctx, prop string) *c08Plan {
	pl := &c08Plan{Mode: "random"}
	switch c.Var {
	case "census":
		pl.Mode = "census"
		pl.Workload = c.Draw("plan", 1<<30)
		c.T.Reseed(workloadSeed(c.BaseSeed, prop, pl.Workload), "plan", "fault")
	case "enum":
		if !c.T.Replaying() {
			pos := c08EnumPos(c.RunIndex)
			w, k, rank, lo, hi, points, events := locate(c, prop, pos)
			c.T.Preset("plan", w, k, rank, pos, lo, hi, points, events)
		}
		pl.Mode = "enum"
		pl.Workload = c.Draw("plan", 1<<30)
		pl.K = c.Draw("plan", 1<<30)
		pl.Rank = c.Draw("plan", rkCount)
		pl.Pos = c.Draw("plan", 1<<30)
		pl.GroupLo = c.Draw("plan", 1<<30)
		pl.GroupHi = c.Draw("plan", 1<<30)
		pl.PointsOfWorkload = c.Draw("plan", 1<<30)
		pl.EventsOfWorkload = c.Draw("plan", 1<<30)
		// every stream except the run-specific ones belongs to the workload
		c.T.Reseed(workloadSeed(c.BaseSeed, prop, pl.Workload), "plan", "fault")
	}
	c.Keep["plan"] = pl
	return pl
}

func c08SimConfig(c *Ctx) simrt.Config {
	pl := c08Prepare(c, "C08")
	if pl.Mode == "random" && c.Draw("pol", 4) == 3 {
		// swarm profile for the interplay of the foreground with the store's write goroutine:
		// blocks full of asset transactions (the writer appends asset index records to the
		// write-ahead file itself) under fine-grained preemption
		c.Keep["profile"] = "asset-race"
		cfg := simrt.Config{Policy: simrt.PolicyRandom, MeanGap: []int{40, 150, 600}[c.Draw("pol", 3)], MaxSteps: 400_000_000}
		c.Keep["policy"] = fmt.Sprintf("%s/%d", cfg.Policy, cfg.MeanGap)
		return cfg
	}
	return c08Policy(c)
}

func c08Policy(c *Ctx) simrt.Config {
	cfg := simrt.Config{Policy: simrt.PolicyCoarse, MaxSteps: 400_000_000}
	switch c.Draw("pol", 5) {
	case 2:
		cfg.Policy, cfg.MeanGap = simrt.PolicyRandom, 20000
	case 3:
		cfg.Policy, cfg.MeanGap = simrt.PolicyRandom, 3000
	case 4:
		cfg.Policy, cfg.MeanGap = simrt.PolicyRandom, 400
	}
	c.Keep["policy"] = fmt.Sprintf("%s/%d", cfg.Policy, cfg.MeanGap)
	return cfg
}

type c08Run struct {
	c    *Ctx
	w    *c08Workload
	plan *c08Plan
	twin *Node
	nut  *Node
	pl   *crashPlanner
	tpl  *crashPlanner // counts the twin's events

	tw           []c08Res // twin's result per op
	schedule     []c08Step // every delivery to the node under test, in order
	triedSecond  bool
	twinChain    []*types.Block
	twinChainAll []*types.Block
	twinEnumN    int64
	twinRawN     int64

	completedH    uint32 // highest stable height reported by an op that returned on the NUT
	site          string
	crashes       []*firedCrash
	restarted     bool
	restartStable uint32
	cleanRestart  bool
	probeOnly     bool // power-loss probe: count, never fail
	probeFailed   bool
	panicsSeen    int
	recoveryPlan  []recoveryCrash
	inflightOp    int
}

type recoveryCrash struct {
	At      int64
	Variant int
}

// fail reports a violation. The signature names the violated clause and, where there is one,
// the failing component (class: panic function, error class, rejection reason, part of a read)
// plus "first-start" when the crash hit the very first start of the node. The I/O site of the
// crash is part of the message (story) only: more budget must not mint new signatures for
// one root cause.
func (x *c08Run) fail(clause, class, format string, args ...interface{}) {
	if x.probeOnly {
		x.c.Probe("powerloss_violation/" + clause)
		x.probeFailed = true
		return
	}
	sig := x.c.Prop + "/" + clause
	if class != "" {
		sig += "/" + class
	}
	if len(x.crashes) > 0 && x.crashes[0].Phase == "init" {
		sig += "/first-start"
	}
	x.c.Fail(sig, "[fault site: %s] "+format, append([]interface{}{x.siteNote()}, args...)...)
}

func (x *c08Run) siteNote() string {
	if x.site == "" {
		return "none"
	}
	return x.site
}

// errorClass turns an error text into a short stable class name.
func errorClass(msg string) string {
	msg = strings.TrimPrefix(msg, "new block chain failed: ")
	w := strings.Fields(msg)
	if len(w) > 5 {
		w = w[:5]
	}
	return sanitize(strings.Join(w, "-"))
}

// story describes the history of the run for violation messages.
func (x *c08Run) story() string {
	var b strings.Builder
	fmt.Fprintf(&b, "history: %d deputies, %d main blocks, %d ops; ", len(x.w.Net.Deputies), len(x.w.Main)-1, len(x.w.Ops))
	for i, f := range x.crashes {
		if i > 0 {
			b.WriteString(", then ")
		}
		fmt.Fprintf(&b, "crash %s", describeEv(f))
	}
	if x.cleanRestart {
		b.WriteString("clean stop/start")
	}
	if x.inflightOp < len(x.w.Ops) {
		fmt.Fprintf(&b, " during op %d %s", x.inflightOp, x.w.Ops[x.inflightOp])
	}
	fmt.Fprintf(&b, "; last completed promotion on the node: height %d", x.completedH)
	lo := x.inflightOp - 6
	if lo < 1 {
		lo = 1
	}
	b.WriteString("; ops before: ")
	for i := lo; i <= x.inflightOp && i < len(x.w.Ops); i++ {
		fmt.Fprintf(&b, "[%d]%s ", i, x.w.Ops[i])
	}
	return b.String()
}

// newPanics returns the panics recorded since the last call, for the given node tag.
func (x *c08Run) newPanics(tag int) []simrt.PanicInfo {
	all := x.c.W.Panics()
	var out []simrt.PanicInfo
	for _, p := range all[x.panicsSeen:] {
		if p.Node == tag {
			out = append(out, p)
		}
	}
	x.panicsSeen = len(all)
	return out
}

func c08Build(c *Ctx, enum bool) *c08Workload {
	maxBlocks := 8
	if c.Tier == "quick" && enum {
		maxBlocks = 4
	}
	if c.Keep["profile"] == "asset-race" {
		return c08BuildWorkload(c, 6, 6, []int{kCreateAsset, kCreateAsset, kIssueAsset, kIssueAsset, kTransferAsset, kTransfer}, false)
	}
	return c08BuildWorkload(c, maxBlocks, 5, nil, false)
}

func c08Scenario(c *Ctx) {
	plan, _ := c.Keep["plan"].(*c08Plan)
	if plan == nil {
		plan = &c08Plan{Mode: "random"}
	}
	w := c08Build(c, plan.Mode != "random")
	x := &c08Run{c: c, w: w, plan: plan}
	c08Drive(x)
}

// c08Drive runs the twin, then the node under test with the planned faults.
func c08Drive(x *c08Run) {
	c, w := x.c, x.w
	net := w.Net
	if len(w.Main) < 2 {
		c.Probe("workload_without_blocks")
		return
	}
	trace := os.Getenv("VERIF_C08_TRACE") != ""
	// ---- the never-crashed twin ----
	x.twin = net.AddNode(2, "twin", detKey("observer-twin"))
	x.tpl = newCrashPlanner(c, x.twin.Tag, x.twin.Home)
	x.tpl.keepLog = true
	x.nut = net.AddNode(1, "nut", detKey("observer-nut"))
	x.pl = newCrashPlanner(c, x.nut.Tag, x.nut.Home)
	x.pl.keepLog = trace
	c.W.S.IOHook = func(ev *simrt.IOEvent) simrt.IOAction {
		if ev.Node == x.twin.Tag {
			return x.tpl.hook(ev)
		}
		return x.pl.hook(ev)
	}
	// whatever happens, free what a dead or half-started node under test left behind
	defer func() {
		if x.nut != nil && !x.nut.Alive {
			c.W.S.Kill(x.nut.Tag)
			x.nut.CrashCleanup()
		}
	}()
	x.tw = make([]c08Res, len(w.Ops))
	if !x.twin.StartNode() {
		c.Probe("reference_twin_failed_run_discarded")
		return
	}
	x.tpl.phase = "run"
	st := x.twin.BC.StableBlock()
	x.tw[0] = c08Res{Done: true, Verdict: "ok", StableH: st.Height(), Stable: st.Hash(), HeadH: st.Height(), Head: st.Hash()}
	for _, bt := range w.Batches {
		lo, hi := bt[0], bt[1]
		x.twin.Do("batch", func() {
			for i := lo; i < hi; i++ {
				x.tw[i] = w.apply(x.twin, w.Ops[i])
			}
		})
		if !x.tw[hi-1].Done || len(x.newPanics(x.twin.Tag)) > 0 {
			// the reference itself failed on the honest workload (another property's business)
			c.Probe("reference_twin_failed_run_discarded")
			return
		}
	}
	x.newPanics(-1)
	final := x.tw[len(w.Ops)-1]
	x.twin.Do("chain", func() {
		for h := uint32(0); h <= final.StableH; h++ {
			b, err := x.twin.DB.GetBlockByHeight(h)
			if err != nil {
				return
			}
			x.twinChain = append(x.twinChain, b)
		}
	})
	if len(x.twinChain) != int(final.StableH)+1 {
		c.Probe("reference_twin_failed_run_discarded")
		return
	}
	// path used to classify wrong accounts: the stable chain plus the main blocks above it
	x.twinChainAll = append(x.twinChainAll, x.twinChain...)
	for _, b := range w.Main {
		if b.Height() > final.StableH {
			x.twinChainAll = append(x.twinChainAll, b)
		}
	}
	x.twinEnumN, x.twinRawN = x.tpl.enum, x.tpl.raw
	if x.plan.Mode == "census" {
		if c08CensusOut != nil {
			for _, r := range x.tpl.log {
				if r.Enum {
					c08CensusOut.Events = append(c08CensusOut.Events, r)
				}
			}
		}
		return
	}
	promo2 := false
	for i := 1; i < len(x.tw); i++ {
		if x.tw[i].StableH >= x.tw[i-1].StableH+2 {
			promo2 = true
		}
	}
	if promo2 {
		c.Probe("promotion_of_2_or_more_blocks_at_once")
	}

	// ---- decide the faults ----
	x.decideFaults()

	// ---- the node under test ----
	x.inflightOp = 0
	fin, pv, ps := x.nut.startTracked()
	if f := x.pl.takeFired(); f != nil {
		if !x.afterCrash(f, 0) {
			x.finish()
			return
		}
	} else if !fin {
		c.Fail("C08/start-failed-without-fault", "first start of the node did not finish without any fault (panic: %v)\n%s", pv, trimStack(ps))
		return
	} else {
		x.pl.phase = "run"
		if ps := x.newPanics(x.nut.Tag); len(ps) > 0 {
			c.Fail("C08/panic/"+panicSite(ps[0].Stack), "panic in a task of the node during its first start without any fault: %s\n%s", ps[0].Value, trimStack(ps[0].Stack))
			return
		}
		st := x.nut.BC.StableBlock()
		x.completedH = st.Height()
		if st.Hash() != x.tw[0].Stable {
			c.Fail("C08/nocrash-differs/genesis", "node and twin built different genesis blocks")
			return
		}
	}
	cleanAt := -1
	if x.cleanRestart {
		cleanAt = c.Draw("fault", len(w.Batches))
	}
	for bi, bt := range w.Batches {
		if c.Failed() || x.probeFailed {
			break
		}
		if bi == cleanAt {
			x.inflightOp = bt[0] - 1
			x.nut.StopNode()
			c.Fault("clean_restart")
			x.site = "clean-restart"
			x.pl.phase = "recovery"
			fin, pv, ps := x.nut.startTracked()
			if !fin {
				x.reopenFailed(pv, ps)
				break
			}
			x.pl.phase = "run"
			x.restarted = true
			if !x.checkRestarted(x.inflightOp) || !x.refeed(x.inflightOp) {
				break
			}
		}
		if !x.runBatch(bt[0], bt[1]) {
			break
		}
	}
	x.finish()
	if trace {
		for i, r := range x.pl.log {
			fmt.Fprintf(os.Stderr, "EV %d %s %s:%s len=%d off=%d %s\n", i+1, r.Phase, r.Kind, r.Class, r.Len, r.Off, r.Path)
		}
	}
}

// runBatch executes ops [lo,hi) on the NUT in one task and compares with the twin.
func (x *c08Run) runBatch(lo, hi int) bool {
	c, w := x.c, x.w
	res := make([]c08Res, hi-lo)
	x.inflightOp = lo
	x.nut.Do("batch", func() {
		for i := lo; i < hi; i++ {
			x.inflightOp = i
			res[i-lo] = w.apply(x.nut, w.Ops[i])
		}
	})
	for i := lo; i < hi; i++ {
		r := res[i-lo]
		if !r.Done {
			x.schedule = append(x.schedule, c08Step{Kind: "inflight", Op: i}) // started on the node, interrupted
			break
		}
		x.schedule = append(x.schedule, c08Step{Kind: "op", Op: i})
		if r.StableH > x.completedH {
			x.completedH = r.StableH
		}
	}
	if f := x.pl.takeFired(); f != nil {
		// ops before the in-flight one completed: they must have matched the twin
		for i := lo; i < x.inflightOp; i++ {
			if !x.compare(i, res[i-lo]) {
				return false
			}
		}
		if !x.afterCrash(f, x.inflightOp) {
			return false
		}
		// the rest of the batch follows as ordinary input
		if x.inflightOp+1 < hi {
			return x.runBatch(x.inflightOp+1, hi)
		}
		return true
	}
	if ps := x.newPanics(x.nut.Tag); len(ps) > 0 {
		clause := "panic"
		if x.restarted {
			clause = "diverges-after-restart/panic"
		}
		site := panicSite(ps[0].Stack)
		x.fail(clause, site, "panic in a task of the node while the twin handled the same input without one: %s; %s\n%s", ps[0].Value, x.story(), trimStack(ps[0].Stack))
		return false
	}
	for i := lo; i < hi; i++ {
		if !res[i-lo].Done {
			x.inflightOp = i
			clause := "nocrash-differs/op-did-not-return"
			if x.restarted {
				clause = "diverges-after-restart/op-did-not-return"
			}
			x.fail(clause, "", "op %d %s did not return on the node (it did on the twin); %s", i, w.Ops[i], x.story())
			return false
		}
		if !x.compare(i, res[i-lo]) {
			return false
		}
	}
	_ = c
	return true
}

// compare checks one completed op of the NUT against the twin's.
func (x *c08Run) compare(i int, r c08Res) bool {
	t := x.tw[i]
	what := ""
	switch {
	case r.Verdict != t.Verdict && !(x.restarted && x.w.Ops[i].Kind == opConfirm):
		// after a restart the statement speaks of blocks ("accepts the same subsequent blocks and computes the same
		// hashes"): the wording of the answer to a confirmation packet (e.g. "confirms are enough" for a stable block
		// whose stored confirmations a crash took away) is not compared; its effect on stable / head is
		what = "verdict"
	case r.Hash != t.Hash:
		what = "block-hash"
	case r.StableH != t.StableH || r.Stable != t.Stable:
		what = "stable"
	case x.w.Linear && (r.HeadH != t.HeadH || r.Head != t.Head):
		what = "head"
	case r.Read != t.Read:
		what = "read"
	}
	if what == "" {
		return true
	}
	detail := fmt.Sprintf("node: %s; twin: %s", r, t)
	if what == "read" {
		detail = fmt.Sprintf("node read %q; twin read %q", r.Read, t.Read)
	}
	if what == "verdict" {
		detail += "; node log: | " + strings.Join(takeErrors(x.nut.Tag), " | ")
	}
	if x.restarted && x.explainedBySecondDelivery(r, i) {
		return false
	}
	if x.restarted {
		x.inflightOp = i
		switch what {
		case "read":
			pa, pb := strings.Split(r.Read, "|"), strings.Split(t.Read, "|")
			for k := 0; k < len(pa) && k < len(pb); k++ {
				if pa[k] != pb[k] {
					what = "read-" + strings.SplitN(pa[k], ":", 2)[0]
					break
				}
			}
		case "verdict":
			what = "verdict-" + classifyRejection(strings.Split(detail, " | "))
		}
		x.fail("diverges-after-restart/"+what, "", "(%s) after the restart op %d %s gives a different %s than on the never-stopped twin: %s; restart was on stable %d; %s", x.restartKind(), i, x.w.Ops[i], what, detail, x.restartStable, x.story())
	} else {
		x.inflightOp = i
		x.fail("nocrash-differs/"+what, "", "without any fault op %d %s gives a different %s on the node than on its twin: %s; %s", i, x.w.Ops[i], what, detail, x.story())
	}
	return false
}

// restartKind is the site component of divergences that show up after a restart whose
// persisted state passed the whole restart oracle: the crash site no longer matters then.
func (x *c08Run) restartKind() string {
	switch {
	case x.cleanRestart:
		return "after-clean-restart"
	case len(x.crashes) > 1:
		return "after-crash+recovery-crash"
	}
	return "after-crash"
}

// decideFaults turns the plan into an armed crash (and planned recovery crashes).
func (x *c08Run) decideFaults() {
	c, plan := x.c, x.plan
	drawRecovery := func(n int) {
		for i := 0; i < n; i++ {
			at := int64(1 + c.Draw("fault", 8))
			if c.Draw("fault", 2) == 1 {
				at = int64(1 + c.Draw("fault", 64))
			}
			x.recoveryPlan = append(x.recoveryPlan, recoveryCrash{at, c.Draw("fault", cvCount)})
		}
	}
	if plan.Mode == "enum" {
		variant := cvBefore
		if plan.Rank < len(rkVariant) {
			variant = rkVariant[plan.Rank]
		}
		switch plan.Rank {
		case rkRecoveryA:
			variant = c.Draw("fault", cvCount)
			drawRecovery(1)
		case rkRecoveryB:
			variant = c.Draw("fault", cvCount)
			drawRecovery(1 + c.Draw("fault", 2))
		}
		x.pl.armEnum(int64(plan.K), variant)
		return
	}
	// random choices (own workload, or an enumerated workload whose points are used up)
	switch c.Draw("fault", 16) {
	case 0, 1:
		x.cleanRestart = true
		return
	case 2, 3:
		x.probeOnly = true // power-loss probe
	}
	if x.twinRawN > 0 {
		x.pl.armRaw(int64(1+c.Draw("fault", int(x.twinRawN))), c.Draw("fault", cvCount))
	}
	if c.Draw("fault", 3) == 0 {
		drawRecovery(1 + c.Draw("fault", 2))
	}
}

func (x *c08Run) reopenFailed(pv interface{}, ps string) {
	if pv == nil {
		x.fail("reopen-hang", "", "the restart did not finish (no panic; a task is blocked); %s", x.story())
		return
	}
	msg := fmt.Sprint(pv)
	if strings.HasPrefix(msg, "new block chain failed") || strings.HasPrefix(msg, "can't get genesis block") {
		x.fail("reopen-error", errorClass(msg), "the node does not come up again: %s; node log: %s; %s", msg, strings.Join(takeErrors(x.nut.Tag), " | "), x.story())
		return
	}
	x.fail("reopen-panic", panicSite(ps), "reopening the data directory panics: %s; %s\n%s", msg, x.story(), trimStack(ps))
}

// afterCrash cleans up after the kill, restarts (with the planned crashes during recovery),
// evaluates the restart oracle and re-feeds what the restart legitimately forgot.
func (x *c08Run) afterCrash(f *firedCrash, inflight int) bool {
	c := x.c
	x.inflightOp = inflight
	x.crashes = append(x.crashes, f)
	if x.site == "" {
		x.site = f.Site()
	}
	takeErrors(x.nut.Tag)
	for {
		x.nut.CrashCleanup()
		for _, p := range x.newPanics(x.nut.Tag) {
			c.Probe("panic_in_task_of_dead_node_ignored/" + panicSite(p.Stack))
		}
		if x.probeOnly {
			if x.nut.dropUnsynced() > 0 {
				c.Probe("powerloss_dropped_unsynced_bytes")
			}
		}
		x.pl.phase = "recovery"
		if len(x.recoveryPlan) > 0 {
			rc := x.recoveryPlan[0]
			x.recoveryPlan = x.recoveryPlan[1:]
			x.pl.armRelative(rc.At, rc.Variant)
		}
		fin, pv, ps := x.nut.startTracked()
		x.pl.disarm()
		if f2 := x.pl.takeFired(); f2 != nil {
			x.crashes = append(x.crashes, f2)
			if !strings.HasSuffix(x.site, "+recovery") {
				x.site += "+recovery"
			}
			continue
		}
		if !fin {
			x.reopenFailed(pv, ps)
			return false
		}
		if ps := x.newPanics(x.nut.Tag); len(ps) > 0 {
			x.fail("reopen-panic", panicSite(ps[0].Stack), "a background task of the restarted node panics: %s; %s\n%s", ps[0].Value, x.story(), trimStack(ps[0].Stack))
			return false
		}
		break
	}
	x.pl.phase = "run"
	x.restarted = true
	if !x.checkRestarted(inflight) {
		return false
	}
	return x.refeed(inflight)
}

// refeed gives the restarted node the inputs 1..inflight again, as block sync would: blocks
// and confirmations above its stable block (what it legitimately forgot).
func (x *c08Run) refeed(inflight int) bool {
	c, w := x.c, x.w
	var list []*c08Op
	for i := 1; i <= inflight && i < len(w.Ops); i++ {
		op := w.Ops[i]
		switch op.Kind {
		case opInsert:
			if op.Blk.Height() > x.restartStable {
				list = append(list, op)
			}
		case opConfirm:
			if op.Height > x.restartStable {
				list = append(list, op)
			}
		}
	}
	if len(list) > 0 {
		c.Probe("restart_with_unstable_blocks_refed")
	}
	var last c08Res
	last.Done = true
	st := x.nut.BC.StableBlock()
	last.StableH, last.Stable = st.Height(), st.Hash()
	hd := x.nut.BC.CurrentBlock()
	last.HeadH, last.Head = hd.Height(), hd.Hash()
	done := x.nut.Do("refeed", func() {
		for _, op := range list {
			last = w.apply(x.nut, op)
		}
	})
	if ps := x.newPanics(x.nut.Tag); len(ps) > 0 || !done {
		msg, stack := "a task is blocked", ""
		if len(ps) > 0 {
			msg, stack = ps[0].Value, ps[0].Stack
		}
		x.fail("diverges-after-restart/refeed-panic", "", "re-feeding the forgotten blocks to the restarted node fails: %s; %s\n%s", msg, x.story(), trimStack(stack))
		return false
	}
	if last.StableH > x.completedH {
		x.completedH = last.StableH
	}
	x.schedule = append(x.schedule, c08Step{Kind: "refeed", List: list})
	t := x.tw[inflight]
	if (last.StableH != t.StableH || last.Stable != t.Stable || (w.Linear && (last.HeadH != t.HeadH || last.Head != t.Head))) && x.explainedBySecondDelivery(last, -1) {
		return false
	}
	if last.StableH != t.StableH || last.Stable != t.Stable {
		x.fail("diverges-after-restart/refeed-stable", "", "after re-feeding inputs 1..%d the restarted node is at stable %d/%s, the twin at %d/%s (restart was on stable %d); node log: %s; %s",
			inflight, last.StableH, last.Stable.Hex()[:10], t.StableH, t.Stable.Hex()[:10], x.restartStable, strings.Join(takeErrors(x.nut.Tag), " | "), x.story())
		return false
	}
	if w.Linear && (last.HeadH != t.HeadH || last.Head != t.Head) {
		x.fail("diverges-after-restart/refeed-head", "", "after re-feeding inputs 1..%d the restarted node's head is %d/%s, the twin's %d/%s; node log: %s; %s",
			inflight, last.HeadH, last.Head.Hex()[:10], t.HeadH, t.Head.Hex()[:10], strings.Join(takeErrors(x.nut.Tag), " | "), x.story())
		return false
	}
	return true
}

// c08Step is one delivery to the node under test, in order: a completed op, an op that was interrupted by the
// crash, or the re-feed of forgotten inputs after a restart.
type c08Step struct {
	Kind string // op, inflight, refeed
	Op   int
	List []*c08Op
}

// explainedBySecondDelivery: the restarted node has been given inputs a SECOND time (the re-feed of what it
// legitimately forgot), the recorded twin saw every input once. Whether a block is accepted can depend on what is
// stable when it is offered (a block of a term whose snapshot block is not stable yet is refused and accepted when
// offered again later), so a difference from the once-fed twin is not yet a difference from "a node that never
// stopped". This runs a never-stopped reference that receives exactly the deliveries the node under test received
// (with and without the op the crash interrupted) and compares the result of the last delivery. If one of them
// agrees, the run ends there without a verdict (probe); otherwise the caller reports the violation.
func (x *c08Run) explainedBySecondDelivery(nutRes c08Res, uptoOp int) bool {
	c, w := x.c, x.w
	if x.triedSecond {
		return false
	}
	x.triedSecond = true
	prev := c.W.S.IOHook
	defer func() { c.W.S.IOHook = prev }()
	for v, skipInflight := range []bool{false, true} {
		tag := 3 + v
		c.W.S.IOHook = func(ev *simrt.IOEvent) simrt.IOAction {
			if ev.Node == tag {
				return simrt.IOAction{}
			}
			if prev != nil {
				return prev(ev)
			}
			return simrt.IOAction{}
		}
		nd := w.Net.AddNode(tag, fmt.Sprintf("twin2%c", 'a'+v), detKey(fmt.Sprintf("observer-twin2%c", 'a'+v)))
		if !nd.StartNode() {
			c.Probe("second_delivery_reference_failed")
			continue
		}
		end := len(x.schedule)
		var lastOp *c08Op
		if uptoOp >= 0 {
			lastOp = w.Ops[uptoOp]
			for k, st := range x.schedule {
				if st.Kind == "op" && st.Op == uptoOp {
					end = k + 1
				}
			}
		}
		var last c08Res
		done := nd.Do("second-delivery", func() {
			for _, st := range x.schedule[:end] {
				switch st.Kind {
				case "op":
					last = w.apply(nd, w.Ops[st.Op])
				case "inflight":
					if !skipInflight {
						last = w.apply(nd, w.Ops[st.Op])
					}
				case "refeed":
					for _, op := range st.List {
						last = w.apply(nd, op)
					}
				}
			}
		})
		nd.StopNode()
		if !done || len(x.newPanics(tag)) > 0 {
			c.Probe("second_delivery_reference_failed")
			continue
		}
		same := last.StableH == nutRes.StableH && last.Stable == nutRes.Stable && last.Hash == nutRes.Hash && last.Read == nutRes.Read
		if w.Linear && (last.HeadH != nutRes.HeadH || last.Head != nutRes.Head) {
			same = false
		}
		if lastOp != nil && lastOp.Kind != opConfirm && last.Verdict != nutRes.Verdict {
			same = false
		}
		if same {
			c.Probe("difference_from_twin_explained_by_second_delivery")
			return true
		}
	}
	return false
}

// finish records evidence for the run.
func (x *c08Run) finish() {
	c, w, plan := x.c, x.w, x.plan
	fired := len(x.crashes)
	c.Nontrivial = (fired > 0 || x.cleanRestart) && len(w.Main) >= 2
	if plan.Mode == "enum" {
		if fired > 0 {
			c.Probe(fmt.Sprintf("enum_points_done/workload_%d(of_%d)", plan.Workload, plan.PointsOfWorkload))
		} else {
			c.Probe("enum_point_not_reached")
		}
	}
	var cr []string
	for _, f := range x.crashes {
		cr = append(cr, describeEv(f))
	}
	kinds := map[string]int{}
	for _, r := range x.tpl.log {
		k := r.Kind
		if !strings.HasPrefix(k, "ldb.") {
			k += ":" + r.Class
		}
		kinds[k]++
	}
	st := fmt.Sprintf("%s/%s/%d/%v/%d", x.site, plan.Mode, len(x.crashes), x.restarted, int(x.restartStable)-int(x.completedH))
	c.State(hashString(st))
	if len(x.crashes) > 0 && x.crashes[0].Phase == "init" && plan.Mode == "enum" && c.RunIndex >= 4 {
		return // keep the few sample slots of the evidence file for crashes inside the workload proper
	}
	c.Sample = map[string]interface{}{
		"mode": plan.Mode, "workload": plan.Workload, "crash_point_k": plan.K, "variant": rkNames[plan.Rank%rkCount],
		"crash_points_in_workload": x.twinEnumN, "io_events_in_workload_raw": x.twinRawN, "points_x_variants_of_workload": plan.PointsOfWorkload,
		"run_index_range_of_workload_group": []int{c08RunIndexOfEnum(plan.GroupLo), c08RunIndexOfEnum(plan.GroupHi)},
		"exhaustive_for_workload":           plan.Mode == "enum" && x.c.Keep["policy"] == "coarse/0",
		"exhaustive_note":                   "enum runs: every (I/O event k, applicable variant) of the workload is exactly one run index inside run_index_range_of_workload_group (rank-major over a group of 3 workloads); the workload is enumerated exhaustively iff all indices of the range were executed, i.e. evidence.evaluations >= upper bound (probe enum_points_done/workload_N(of_M) then counts M). exhaustive_for_workload is false for workloads with a preemptive schedule, where the node's own event sequence may differ from the census by a few events",
		"schedule_policy":                   x.c.Keep["policy"],
		"params":                            fmt.Sprintf("%+v", w.P), "main_blocks": len(w.Main) - 1, "siblings": w.Sibs, "ops": len(w.Ops), "batches": len(w.Batches),
		"max_blocks_promoted_by_one_op": w.MaxPromo, "crashes": cr, "site": x.site, "restart_stable": x.restartStable, "completed_before_crash": x.completedH,
		"io_event_kinds_of_workload": kinds, "power_loss_probe": x.probeOnly, "clean_restart": x.cleanRestart,
	}
}

func init() {
	// hidden helper: fault-free twin pass that numbers the I/O events of one workload
	Register(&PropDef{ID: "C08-census", SimConfig: c08SimConfig, Scenario: c08Scenario, IgnorePanics: true})
	Register(&PropDef{
		ID: "C08", Variants: []string{"enum", "enum", "enum", "random"},
		SimConfig:    c08SimConfig,
		Scenario:     c08Scenario,
		IgnorePanics: true, // panics are judged by the scenario (dead tasks of a crashed node may panic legitimately)
		ShrinkExecs:  120, ShrinkSeconds: 30,
		Rule:        "workload = 2-8 factory blocks of tape-generated transactions of all kinds (+ sibling blocks), fed as block insertions, confirmation packets promoting 1-4 blocks at once (or carried in the block), partial/late packets and reads, grouped in batches run back to back; a never-crashed twin gets the same inputs first and numbers the I/O events. Variant enum: run index -> (workload, crash point k, variant slot): k-th I/O event of the node under test x {crash before, crash after, 6 torn-write lengths | crash + second crash during recovery}; variant random: workload, k (over all raw events), variant, recovery crashes, clean restart, power-loss probe from the tape. Oracle after restart from the statement; non-trivial = a crash or restart actually happened; distinct = event-log digests",
		Real:        []string{"store (ChainDatabase, BeansDB, FileQueue, SyncFileDB, BitCask, RunContext) on simos/simldb", "goleveldb", "chain/account", "chain/consensus (DPoVP.InsertBlock/InsertConfirms)", "chain/deputynode", "chain.NewBlockChain startup", "chain.SetupGenesisBlock"},
		Stub:        []string{"disk = in-memory simos/simldb with process-death crash model", "no network: inputs are handed to the engine by the harness; block sync after restart = re-feeding the inputs above the stable block"},
		Assumptions: []string{"process-death model: completed writes survive, the in-flight write may be torn to any prefix, create/remove/mkdir are atomic; a LevelDB call is atomic up to a torn journal tail (goleveldb recovery trusted)", "the reference state 'as of block B' is the honest miner's (factory) state at B; verdict/stable/head reference is a twin node that never stopped", "head is compared only for workloads without sibling blocks (fork choice legitimately depends on the stable height at arrival time)", "power-loss (un-synced bytes dropped) runs are probes, never violations"},
	})
}
