package harness

import (
	"time"

	"verif/simrt"
)

func init() {
	Register(&PropDef{
		ID:       "C13",
		Variants: []string{"probe", "miners"},
		// coarse scheduling (the property is about time and histories, not interleavings). A task that
		// busy-waits (subscribe.send polling the miner's full 1-slot channel while the miner loop
		// sleeps in waitCanPackageTx) must let the fake clock advance: SpinSleep.
		SimConfig: func(c *Ctx) simrt.Config {
			return simrt.Config{Policy: simrt.PolicyCoarse, SpinSleep: time.Millisecond}
		},
		Scenario: func(c *Ctx) {
			switch c.Var {
			case "miners":
				c13MinersScenario(c)
			default:
				c13ProbeScenario(c)
			}
		},
		Rule: "probe: per run one chain universe is drawn (1-7 genesis candidates, configured deputy count <, = or > that, slot 1/2/3/10 s, " +
			"TermDuration 6-12, InterimDuration 1-3); the real miner code (factory) mines a chain through one or two term changes with election " +
			"traffic (founder votes re-rank, newcomers register and replace deputies); after every block the real GetNextMineWindow / " +
			"GetMinerDistance / GetDeputyByDistance / GetCorrectMiner / Validator.VerifyMiner are probed with that block (and a synthetic " +
			"variation: other miner of the term, shifted stamp) as parent at 1-3 tape-drawn instants (slot boundaries +-1 ms, +-1 s, +-0.5 s, " +
			"mid-slot; 0 .. 2^20 elapsed slots) on the live deputy manager or one rebuilt from the chain, and compared with the reference slot " +
			"rule. miners: 1-5 full nodes with the real Miner timer loop and a gossip shell with tape-drawn latency (0 .. 4 slots), optional " +
			"partition+heal, crash+restart of the deputy in turn, optional transfers entering all pools. " +
			"Non-trivial: probe = at least 10 probes, one at a boundary offset, and a term change reached; miners = at least 3 blocks mined " +
			"and 1 inserted by a peer. Distinct = distinct event-log digests (the digest covers every probe instant / every scheduled task).",
		Real: []string{"chain/consensus schedule.go (GetNextMineWindow, GetCorrectMiner), validator.go (VerifyMiner, VerifyBeforeTxProcess via InsertBlock), assembler.go (PrepareHeader, MineBlock)",
			"chain/deputynode.Manager + term records (live, and rebuilt through NewManager from the chain)", "chain/miner.Miner timer loop (miners variant)",
			"chain.BlockChain, consensus.DPoVP, txpool, account, store on simulated disk (miners variant: every node; probe variant: the block factory)",
			"common/subscribe event bus (NewMinedBlock, NewConfirm, NewCurrentBlock)"},
		Stub: []string{"gossip shell instead of network.ProtocolManager (flood blocks/confirms with latency, hold orphans and early confirms, re-sync after heal/restart)",
			"election traffic generator (vote / transfer / register transactions built by the harness)", "synthetic parent headers (copy of a real header with another deputy of the term as miner) for the pure functions"},
		Assumptions: []string{
			"all nodes share one clock (one synctest bubble): validator clock skew is not simulated",
			"reference model: deputies of a term = first DeputyCount entries of the snapshot block's deputy list; term k>=1 is in charge from height k*TermDuration+InterimDuration+1; rank -1 ('from rank 0') at height 1 and at that first height",
			"a refusal by InsertBlock counts against C13 only if parent and term were known to the receiver and the stamp was not in the future (harness preconditions); captured error-level log lines only name the sub-cause; independently the receiver's own VerifyMiner verdict on every delivered honest block is checked without logs",
			"a task that busy-waits (subscribe.send polling a full channel) is put to sleep on the fake clock after 8 scheduler valve periods (simrt Config.SpinSleep) so that simulated time can advance",
			"a single deputy with a 1 s slot re-arms its mine timer with zero delay; the harness stops such a node after 60 blocks in one 100 ms tick (all of them in turn) and counts it as a probe",
		},
	})
}
