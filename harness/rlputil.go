package harness

import "github.com/LemoFoundationLtd/lemochain-core/common/rlp"

func rlpEncode(v interface{}) ([]byte, error)  { return rlp.EncodeToBytes(v) }
func rlpDecode(b []byte, v interface{}) error { return rlp.DecodeBytes(b, v) }
