package harness

import (
	"encoding/json"
	"fmt"
	"math/big"
	"time"

	"github.com/LemoFoundationLtd/lemochain-core/chain/deputynode"
	"github.com/LemoFoundationLtd/lemochain-core/chain/params"
	"github.com/LemoFoundationLtd/lemochain-core/chain/types"
	"github.com/LemoFoundationLtd/lemochain-core/common"
)

// chainRun is the shared nodesim workload: an honest miner (the factory) produces a
// chain of blocks filled by TxGen; per block a record with the state before and after is
// handed to the property's monitor.

type BlockRec struct {
	Net      *Net
	Gen      *TxGen
	F        *Factory
	Parent   *types.Block
	Block    *types.Block
	Cands    types.Transactions // what the miner was offered
	Invalid  types.Transactions // what it reported as invalid
	Universe []common.Address
	Keys     *DumpKeys
	Pre      StateDump // state at Parent (factory's view)
	Post     StateDump // state at Block
	Deputy   int
	Lag      int       // how far the miner's own stable block trails its head (0: never stabilises)
	Miner    *Deputy   // who mined it (genesis deputy or a user elected in a later term)
	Term     []*Deputy // all deputies of the term that governs this block, in rank order
	IsReward bool
	IsSnap   bool
}

type ChainRunOpts struct {
	Kinds      []int
	MaxBlocks  int
	MaxTxs     int
	Terms      bool // small TermDuration so that snapshot/reward blocks occur
	SingleTx   bool // one transaction per block between distinct parties
	OnBlock    func(r *BlockRec) bool // return false to stop
	AfterMine  func(r *BlockRec) bool // called before dumps (C01 inserts into validators here)
	FactoryTag int
	NoDumps    bool
	NoStableLag bool // the factory's store must keep every block's state readable (it serves as reference for older blocks)
}

func drawParams(c *Ctx, terms bool) ChainParams {
	p := defaultParams(c)
	p.NDeputies = 1 + c.Draw("cfg", 5)
	p.DeputyCount = p.NDeputies + c.Draw("cfg", 2)
	p.SlotMs = []uint64{3000, 1000, 2000, 10000}[c.Draw("cfg", 4)]
	p.NUsers = 4 + c.Draw("cfg", 4)
	p.MaxCandidates = []int{20, 2, 3, 5}[c.Draw("cfg", 4)]
	if terms {
		p.TermDuration = uint32(5 + c.Draw("cfg", 5))
		p.InterimDuration = uint32(1 + c.Draw("cfg", 3))
	}
	return p
}

// nextDeputy applies the reference slot rule to find who may mine on parent at time now.
func (n *Net) nextDeputy(parent *types.Block, nowSec int64) int {
	prank := -1
	h := parent.Height() + 1
	if h != 1 && !deputynode.IsRewardBlock(h) {
		if d := n.DeputyByMiner(parent.MinerAddress()); d != nil {
			prank = d.Rank
		}
	}
	return InTurnRank(prank, int64(parent.Time())*1000, nowSec*1000, int64(n.P.SlotMs), len(n.Deputies))
}

func chainRun(c *Ctx, net *Net, g *TxGen, f *Factory, o ChainRunOpts) {
	parent := f.Blocks[net.GenBlock.Hash()]
	nBlocks := 2 + c.Draw("gen", o.MaxBlocks-1)
	if o.Terms && c.Draw("gen", 2) == 0 {
		nBlocks = o.MaxBlocks // half of the term runs go all the way to the reward block
	}
	// the miner's own stable block trails its head by lag blocks (0: it never stabilises anything
	// but genesis). What is stable on a node must not influence what it mines or accepts.
	lag := 0
	if !o.NoStableLag {
		lag = c.Draw("lag", 4)
	}
	var mined []*types.Block
	for h := 1; h <= nBlocks; h++ {
		// advance the clock by less than one slot so deputies rotate, sometimes by several
		step := time.Duration(net.P.SlotMs) * time.Millisecond
		if c.Draw("gen", 4) == 0 {
			step *= time.Duration(1 + c.Draw("gen", 2*len(net.Deputies)))
		}
		c.W.Sleep(step - 200*time.Millisecond)
		now := time.Now().Unix()
		if now < int64(parent.Time()) {
			now = int64(parent.Time())
		}
		who, d, term, terr := f.InTurn(parent, now)
		if terr != nil {
			c.Probe("mine_error")
			c.Keep["mine_error"] = terr.Error()
			return
		}
		if d >= len(net.Deputies) {
			c.Probe("block_mined_by_elected_user")
		}
		var cands types.Transactions
		if h == 1 {
			cands = append(cands, g.FundingTxs(now)...)
		} else if o.SingleTx {
			if tx := g.Gen(now, o.Kinds); tx != nil {
				cands = append(cands, tx)
			}
		} else {
			n := c.Draw("gen", o.MaxTxs+1)
			for i := 0; i < n; i++ {
				if tx := g.Gen(now, o.Kinds); tx != nil {
					cands = append(cands, tx)
				}
			}
		}
		if o.Terms && h >= 2 && c.Draw("gen", 3) == 0 {
			// founder sets the reward of a term through precompile 0x09
			term := uint32(c.Draw("gen", 3))
			val := lemo(int64(1000 * (1 + c.Draw("gen", 5))))
			data, _ := json.Marshal(&params.RewardJson{Term: term, Value: val})
			tx := types.NewTransaction(net.Founder.Addr, params.TermRewardContract, big.NewInt(0), 500000, big.NewInt(1e9), data, params.OrdinaryTx, net.P.ChainID, uint64(now+600), "", g.msg())
			cands = append(cands, signTx(tx, net.Founder))
			c.Probe("tx_set_reward")
		}
		// sometimes a block gas limit so small that candidates (also sub-transactions in the middle of a box) do not
		// fit: the miner must leave them out without a trace (the header gas limit is the miner's choice)
		f.GasLimitOverride = 0
		if h > 1 && c.Draw("gaslimit", 5) == 4 {
			switch c.Draw("gaslimit", 3) {
			case 0:
				f.GasLimitOverride = uint64(30000 + c.Draw("gaslimit", 300000))
			case 1:
				// room for a box (the generator's boxes buy 2,000,000) and for some of its sub-transactions only
				f.GasLimitOverride = uint64(2000000 + c.Draw("gaslimit", 1500000))
			default:
				f.GasLimitOverride = uint64(21000*(1+c.Draw("gaslimit", 120)) + c.Draw("gaslimit", 2))
			}
			c.Fault("small_block_gas_limit")
		}
		c.Context = fmt.Sprintf("mining block %d by deputy %d with candidates %v", h, d, txsSummary(cands))
		blk, invalid, err := f.Mine(d, parent, uint32(now), cands, "")
		f.GasLimitOverride = 0
		if err != nil {
			// the honest miner could not produce a block (e.g. term not known): stop the chain here
			c.Probe("mine_error")
			c.Keep["mine_error"] = err.Error()
			return
		}
		g.NoteIncluded(blk.Txs)
		mined = append(mined, blk)
		if lag > 0 && len(mined) > lag {
			if err := f.Stabilise(mined[len(mined)-1-lag]); err != nil {
				c.Probe("factory_stabilise_error")
				c.Keep["stabilise_error"] = err.Error()
				return
			}
			c.Fault("miner_stable_advanced")
		}
		rec := &BlockRec{Net: net, Gen: g, F: f, Parent: parent, Block: blk, Cands: cands, Invalid: invalid, Deputy: d, Miner: who, Term: term, Lag: lag,
			IsReward: deputynode.IsRewardBlock(blk.Height()), IsSnap: deputynode.IsSnapshotBlock(blk.Height())}
		if rec.IsReward {
			c.Probe("reward_block")
		}
		if rec.IsSnap {
			c.Probe("snapshot_block")
		}
		if len(invalid) > 0 {
			c.Probe("miner_discarded_tx")
		}
		rec.Universe = net.Universe(g, blk)
		rec.Keys = g.DumpKeys()
		if o.AfterMine != nil && !o.AfterMine(rec) {
			return
		}
		if !o.NoDumps {
			c.W.Do(f.Tag, "dump", func() {
				rec.Pre = DumpState(f.DB, parent.Hash(), rec.Universe, rec.Keys)
				rec.Post = DumpState(f.DB, blk.Hash(), rec.Universe, rec.Keys)
			})
		}
		if rec.Post != nil {
			// the fees go to the income address the miner's candidate profile names when the block is finalised
			// (the miner may change it by a transaction of its own in this very block); default: the miner account
			if s := profileField(rec.Post[who.Miner.Addr]["profile"], types.CandidateKeyIncomeAddress); s != "" {
				if a, err := common.StringToAddress(s); err == nil && a != who.Income.Addr {
					rec.Miner = &Deputy{Node: who.Node, Miner: who.Miner, Income: &keyInfo{Addr: a}, Rank: who.Rank}
				}
			} else if d >= len(net.Deputies) {
				rec.Miner = &Deputy{Node: who.Node, Miner: who.Miner, Income: &keyInfo{Addr: who.Miner.Addr}, Rank: who.Rank}
			}
		}
		for _, d := range rec.Post {
			if d[slotKey(common.BigToHash(big.NewInt(0x12)))] != "" {
				c.Probe("block_context_recorded_by_contract") // BLOCKHASH(number-2) etc. went into storage (txgen stream envc)
				break
			}
		}
		if o.OnBlock != nil && !o.OnBlock(rec) {
			return
		}
		if c.Failed() {
			return
		}
		parent = blk
	}
}

func txsSummary(txs types.Transactions) []string {
	var out []string
	for _, tx := range txs {
		to := "nil"
		if tx.To() != nil {
			to = tx.To().Hex()[:10]
		}
		out = append(out, fmt.Sprintf("type=%d from=%s to=%s amt=%s gas=%d/%d price=%s", tx.Type(), tx.From().Hex()[:10], to, tx.Amount(), tx.GasUsed(), tx.GasLimit(), tx.GasPrice()))
	}
	return out
}
