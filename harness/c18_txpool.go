package harness

import (
	"fmt"
	"math/big"
	"sort"
	"strings"
	"time"

	"github.com/LemoFoundationLtd/lemochain-core/chain/params"
	"github.com/LemoFoundationLtd/lemochain-core/chain/txpool"
	"github.com/LemoFoundationLtd/lemochain-core/chain/types"
	"github.com/LemoFoundationLtd/lemochain-core/common"
	"github.com/anishathalye/porcupine"

	"verif/simrt"
)

// C18(a): 2-4 client tasks on one real TxPool under statement-level scheduling.
// Oracle 1: the recorded history is linearizable with respect to the pool's own
// sequential behaviour (the unscheduled real code replayed operation by operation).
// Oracle 2: invariants taken from the property statement, checked on every output and
// on the quiescent final selection.

type poolUniverse struct {
	txs   []*types.Transaction // 0..nPlain-1 plain, then boxes
	exp   []uint64
	subs  [][]int // for boxes: indices of sub txs
	byHash map[common.Hash]int
}

const c18Base = uint64(946684800) // bubble epoch (seconds)

func buildPoolUniverse(c *Ctx) *poolUniverse {
	u := &poolUniverse{byHash: map[common.Hash]int{}}
	nPlain := 4 + c.Draw("gen", 3)
	from := common.HexToAddress("0x1001")
	to := common.HexToAddress("0x2002")
	for i := 0; i < nPlain; i++ {
		// expirations cluster around the selection times base+100 .. base+103
		exp := c18Base + 98 + uint64(c.Draw("gen", 8))
		tx := types.NewTransaction(from, to, big.NewInt(int64(i+1)), 21000, big.NewInt(1), nil, params.OrdinaryTx, 1, exp, "", fmt.Sprintf("t%d", i))
		u.txs = append(u.txs, tx)
		u.exp = append(u.exp, exp)
		u.subs = append(u.subs, nil)
	}
	nBox := 1 + c.Draw("gen", 2)
	for b := 0; b < nBox; b++ {
		// boxes share sub-transactions with each other and with the plain ones
		a := c.Draw("gen", nPlain)
		d := c.Draw("gen", nPlain)
		if d == a {
			d = (a + 1) % nPlain
		}
		subs := types.Transactions{u.txs[a], u.txs[d]}
		data, err := types.MarshalBoxData(subs)
		if err != nil {
			panic(err)
		}
		exp := c18Base + 100 + uint64(c.Draw("gen", 6))
		tx := types.NewTransaction(from, to, big.NewInt(0), 100000, big.NewInt(1), data, params.BoxTx, 1, exp, "", fmt.Sprintf("b%d", b))
		u.txs = append(u.txs, tx)
		u.exp = append(u.exp, exp)
		u.subs = append(u.subs, []int{a, d})
	}
	for i, tx := range u.txs {
		u.byHash[tx.Hash()] = i
	}
	return u
}

type poolIn struct {
	Op   string // add, addmany, get, del, empty
	Idx  []int
	Time uint32
	Size int
}

type poolOut struct {
	Err   string
	N     int
	Got   []int
	Empty bool
}

func (in poolIn) String() string {
	switch in.Op {
	case "get":
		return fmt.Sprintf("GetTxs(t=+%d,size=%d)", uint64(in.Time)-c18Base, in.Size)
	case "empty":
		return "IsEmpty()"
	}
	return fmt.Sprintf("%s%v", in.Op, in.Idx)
}

func (o poolOut) String() string {
	return fmt.Sprintf("{err=%q n=%d got=%v empty=%v}", o.Err, o.N, o.Got, o.Empty)
}

func (u *poolUniverse) pick(idx []int) types.Transactions {
	out := make(types.Transactions, len(idx))
	for i, x := range idx {
		out[i] = u.txs[x]
	}
	return out
}

func (u *poolUniverse) apply(pool *txpool.TxPool, in poolIn) poolOut {
	var out poolOut
	switch in.Op {
	case "add":
		if err := pool.AddTx(u.txs[in.Idx[0]]); err != nil {
			out.Err = err.Error()
		}
	case "addmany":
		out.N = pool.AddTxs(u.pick(in.Idx))
	case "get":
		for _, tx := range pool.GetTxs(in.Time, in.Size) {
			if tx == nil {
				out.Got = append(out.Got, -2)
				continue
			}
			i, ok := u.byHash[tx.Hash()]
			if !ok {
				i = -3
			}
			out.Got = append(out.Got, i)
		}
	case "del":
		pool.DelTxs(u.pick(in.Idx))
	case "empty":
		out.Empty = pool.IsEmpty()
	}
	return out
}

func (u *poolUniverse) dump(pool *txpool.TxPool) string {
	slots, cp, index := pool.VerifDump()
	var b strings.Builder
	fmt.Fprintf(&b, "cap=%d slots=", cp)
	for _, s := range slots {
		if s == nil {
			b.WriteString("_,")
		} else {
			fmt.Fprintf(&b, "%d,", u.byHash[s.Hash()])
		}
	}
	b.WriteString(" idx=")
	type kv struct{ k, v int }
	var kvs []kv
	for h, v := range index {
		kvs = append(kvs, kv{u.byHash[h], v})
	}
	sort.Slice(kvs, func(i, j int) bool { return kvs[i].k < kvs[j].k })
	for _, e := range kvs {
		fmt.Fprintf(&b, "%d>%d,", e.k, e.v)
	}
	return b.String()
}

func (u *poolUniverse) load(state string) *txpool.TxPool {
	var cp int
	parts := strings.SplitN(state, " ", 3)
	fmt.Sscanf(parts[0], "cap=%d", &cp)
	var slots []*types.Transaction
	for _, s := range strings.Split(strings.TrimPrefix(parts[1], "slots="), ",") {
		if s == "" {
			continue
		}
		if s == "_" {
			slots = append(slots, nil)
			continue
		}
		var i int
		fmt.Sscan(s, &i)
		slots = append(slots, u.txs[i])
	}
	index := map[common.Hash]int{}
	for _, s := range strings.Split(strings.TrimPrefix(parts[2], "idx="), ",") {
		if s == "" {
			continue
		}
		var k, v int
		fmt.Sscanf(s, "%d>%d", &k, &v)
		index[u.txs[k].Hash()] = v
	}
	return txpool.VerifLoad(slots, cp, index)
}

type poolOp struct {
	Client    int
	In        poolIn
	Out       poolOut
	Call, Ret int64
}

type c18State struct {
	u       *poolUniverse
	ops     []poolOp
	initCap int
	final   poolOut
	finalIn poolIn
	init    string
}

func c18SimConfig(c *Ctx) simrt.Config {
	switch c.Draw("cfg", 3) {
	case 0:
		return simrt.Config{Policy: simrt.PolicyRandom, MeanGap: []int{2, 4, 8, 16, 32}[c.Draw("cfg", 5)]}
	case 1:
		return simrt.Config{Policy: simrt.PolicyPCT, PCTDepth: 1 + c.Draw("cfg", 3), PCTSpan: 400}
	}
	return simrt.Config{Policy: simrt.PolicyRandom, MeanGap: 3}
}

func c18Scenario(c *Ctx) {
	st := &c18State{}
	c.Keep["st"] = st
	st.initCap = 1 + c.Draw("gen", 4)
	txpool.VerifSetDefaultPoolCap(st.initCap)
	u := buildPoolUniverse(c)
	st.u = u
	pool := txpool.NewTxPool()
	// optional sequential prefix so that concurrent phases start from non-empty states
	npre := c.Draw("gen", 3)
	for i := 0; i < npre; i++ {
		u.apply(pool, poolIn{Op: "add", Idx: []int{c.Draw("gen", len(u.txs))}})
	}
	st.init = u.dump(pool)

	nClients := 2 + c.Draw("gen", 3)
	var seq int64
	stamp := func() int64 {
		simrt.Yield(0)
		seq++
		return seq
	}
	genOp := func() poolIn {
		switch k := c.Draw("op", 10); {
		case k < 3:
			return poolIn{Op: "add", Idx: []int{c.Draw("op", len(u.txs))}}
		case k < 4:
			n := 2 + c.Draw("op", 2)
			var idx []int
			for i := 0; i < n; i++ {
				idx = append(idx, c.Draw("op", len(u.txs)))
			}
			return poolIn{Op: "addmany", Idx: idx}
		case k < 6:
			return poolIn{Op: "get", Time: uint32(c18Base + 99 + uint64(c.Draw("op", 5))), Size: 1 + c.Draw("op", 8)}
		case k < 9:
			n := 1 + c.Draw("op", 3)
			var idx []int
			for i := 0; i < n; i++ {
				idx = append(idx, c.Draw("op", len(u.txs)))
			}
			return poolIn{Op: "del", Idx: idx}
		}
		return poolIn{Op: "empty"}
	}
	// operations are generated up front (by the world) so that the schedule cannot
	// change which operations run
	plans := make([][]poolIn, nClients)
	total := 0
	for cl := 0; cl < nClients; cl++ {
		n := 1 + c.Draw("gen", 3)
		for i := 0; i < n; i++ {
			plans[cl] = append(plans[cl], genOp())
			total++
		}
	}
	results := make([][]poolOp, nClients)
	for cl := 0; cl < nClients; cl++ {
		cl := cl
		c.W.Spawn(1, fmt.Sprintf("client%d", cl), func() {
			for _, in := range plans[cl] {
				op := poolOp{Client: cl, In: in}
				op.Call = stamp()
				op.Out = u.apply(pool, in)
				op.Ret = stamp()
				results[cl] = append(results[cl], op)
			}
		})
	}
	c.W.Settle()
	for cl := range results {
		if len(results[cl]) != len(plans[cl]) {
			c.Fail("C18/stuck/client", "client %d finished %d of %d operations (deadlock in the pool?)", cl, len(results[cl]), len(plans[cl]))
		}
		st.ops = append(st.ops, results[cl]...)
	}
	// quiescent final selection, far enough in the past that nothing is expired by it
	st.finalIn = poolIn{Op: "get", Time: uint32(c18Base + 90), Size: 64}
	fop := poolOp{Client: nClients, In: st.finalIn}
	fop.Call = stamp()
	fop.Out = u.apply(pool, st.finalIn)
	fop.Ret = stamp()
	st.final = fop.Out
	st.ops = append(st.ops, fop)
	c.Nontrivial = c.W.S.Switches > int64(nClients)+2 && total >= 3
	c.Sample = map[string]interface{}{"init": st.init, "clients": nClients, "history": histStrings(st.ops)}
	_ = time.Now
}

func histStrings(ops []poolOp) []string {
	s := append([]poolOp(nil), ops...)
	sort.Slice(s, func(i, j int) bool { return s[i].Call < s[j].Call })
	out := make([]string, len(s))
	for i, o := range s {
		out[i] = fmt.Sprintf("c%d [%d,%d] %s -> %s", o.Client, o.Call, o.Ret, o.In, o.Out)
	}
	return out
}

func sameOut(a, b poolOut) bool {
	if a.Err != b.Err || a.N != b.N || a.Empty != b.Empty || len(a.Got) != len(b.Got) {
		return false
	}
	for i := range a.Got {
		if a.Got[i] != b.Got[i] {
			return false
		}
	}
	return true
}

func c18Post(c *Ctx) {
	st := c.Keep["st"].(*c18State)
	u := st.u
	txpool.VerifSetDefaultPoolCap(st.initCap) // gc() compares against it
	// ---- oracle 2: statement invariants on every selection ----
	for _, o := range st.ops {
		if o.In.Op != "get" {
			continue
		}
		seen := map[int]bool{}
		for _, g := range o.Out.Got {
			if g < 0 {
				c.Fail("C18/selection/nil-or-foreign", "selection returned a nil/unknown transaction: %s -> %s", o.In, o.Out)
				continue
			}
			if seen[g] {
				c.Fail("C18/selection/duplicate", "transaction %d handed out twice in one selection: %s -> %s", g, o.In, o.Out)
			}
			seen[g] = true
			if u.exp[g] < uint64(o.In.Time) {
				c.Fail("C18/selection/expired", "expired transaction %d (exp +%d) handed out at +%d", g, u.exp[g]-c18Base, uint64(o.In.Time)-c18Base)
			}
			for _, s := range u.subs[g] {
				if u.exp[s] < uint64(o.In.Time) {
					c.Fail("C18/selection/expired", "box %d with expired sub-transaction %d handed out", g, s)
				}
			}
		}
		if len(o.Out.Got) > o.In.Size {
			c.Fail("C18/selection/oversize", "selection larger than requested: %s -> %s", o.In, o.Out)
		}
		// box / sub-transaction exclusivity inside one selection
		for g := range seen {
			for _, s := range u.subs[g] {
				if seen[s] {
					c.Fail("C18/exclusive/box-and-sub", "box %d and its sub-transaction %d both handed out: %s", g, s, o.Out)
				}
				for h := range seen {
					if h != g {
						for _, s2 := range u.subs[h] {
							if s2 == s {
								c.Fail("C18/exclusive/two-boxes", "boxes %d and %d share sub-transaction %d and were both handed out", g, h, s)
							}
						}
					}
				}
			}
		}
	}
	// deleted transactions: some DelTxs naming x returned before the selection was invoked
	// and every add of x had returned before that delete was invoked
	for _, g := range st.ops {
		if g.In.Op != "get" {
			continue
		}
		for _, x := range g.Out.Got {
			if x < 0 {
				continue
			}
			for _, d := range st.ops {
				if d.In.Op != "del" || d.Ret >= g.Call || !containsInt(d.In.Idx, x) {
					continue
				}
				readded := false
				for _, a := range st.ops {
					if (a.In.Op == "add" || a.In.Op == "addmany") && containsInt(a.In.Idx, x) && a.Ret > d.Call {
						readded = true
					}
				}
				if !readded {
					c.Fail("C18/selection/deleted", "transaction %d was deleted by DelTxs [%d,%d] and not added again afterwards, yet handed out by the selection at [%d,%d]", x, d.Call, d.Ret, g.Call, g.Ret)
				}
			}
		}
	}
	// never loses: accepted, never named by any delete (directly or through a box
	// relation), never expired at any selection time -> must be in the final selection
	maxGet := uint64(0)
	for _, o := range st.ops {
		if o.In.Op == "get" && uint64(o.In.Time) > maxGet {
			maxGet = uint64(o.In.Time)
		}
	}
	related := func(a, b int) bool {
		if a == b {
			return true
		}
		for _, s := range u.subs[a] {
			if s == b {
				return true
			}
			for _, s2 := range u.subs[b] {
				if s2 == s {
					return true
				}
			}
		}
		for _, s := range u.subs[b] {
			if s == a {
				return true
			}
		}
		return false
	}
	inFinal := map[int]bool{}
	for _, g := range st.final.Got {
		inFinal[g] = true
	}
	for _, a := range st.ops {
		if a.In.Op != "add" || a.Out.Err != "" {
			continue
		}
		x := a.In.Idx[0]
		safe := u.exp[x] >= maxGet
		for _, s := range u.subs[x] {
			if u.exp[s] < maxGet {
				safe = false
			}
		}
		for _, d := range st.ops {
			if d.In.Op == "del" {
				for _, y := range d.In.Idx {
					if related(x, y) {
						safe = false
					}
				}
			}
		}
		if safe && !inFinal[x] {
			c.Fail("C18/lost/accepted-tx", "transaction %d was accepted by AddTx at [%d,%d], never deleted (nor any related box/sub), not expired, but is missing from the final selection %v", x, a.Call, a.Ret, st.final.Got)
		}
	}
	if c.Failed() {
		c.Violations[len(c.Violations)-1].Msg += "\nhistory:\n  " + strings.Join(histStrings(st.ops), "\n  ")
	}

	// ---- oracle 1: linearizability against the sequential real pool ----
	model := porcupine.Model{
		Init: func() interface{} { return st.init },
		Step: func(state, input, output interface{}) (bool, interface{}) {
			pool := u.load(state.(string))
			out := u.apply(pool, input.(poolIn))
			if !sameOut(out, output.(poolOut)) {
				return false, state
			}
			return true, u.dump(pool)
		},
		Equal: func(a, b interface{}) bool { return a.(string) == b.(string) },
		DescribeOperation: func(in, out interface{}) string {
			return fmt.Sprintf("%s -> %s", in.(poolIn), out.(poolOut))
		},
	}
	var ops []porcupine.Operation
	for _, o := range st.ops {
		ops = append(ops, porcupine.Operation{ClientId: o.Client, Input: o.In, Call: o.Call, Output: o.Out, Return: o.Ret})
	}
	switch porcupine.CheckOperationsTimeout(model, ops, 30*time.Second) {
	case porcupine.Illegal:
		c.Fail("C18/linearizability/txpool", "history is not linearizable w.r.t. the sequential pool (init %s):\n  %s", st.init, strings.Join(histStrings(st.ops), "\n  "))
	case porcupine.Unknown:
		c.Probe("porcupine_unknown")
	default:
		c.Probe("porcupine_ok")
	}
}

func containsInt(xs []int, x int) bool {
	for _, y := range xs {
		if y == x {
			return true
		}
	}
	return false
}

func init() {
	Register(&PropDef{
		ID:        "C18",
		Variants:  []string{"pool", "forks"},
		SimConfig: func(c *Ctx) simrt.Config {
			if c.Var == "forks" {
				return simrt.Config{Policy: simrt.PolicyCoarse}
			}
			return c18SimConfig(c)
		},
		Scenario: func(c *Ctx) {
			if c.Var == "forks" {
				c18bScenario(c)
				return
			}
			c18Scenario(c)
		},
		Post: func(c *Ctx) {
			if c.Var != "forks" {
				c18Post(c)
			}
		},
		Rule: "variant forks (1 of 4 runs, clause b): a tape-generated tree of up to 12 blocks whose forks carry overlapping subsets of 4-8 pending transfers is delivered in tape order to an observer (3-5 deputies) whose pool holds all of them; at every head move to a non-child block the pool is compared with the abandoned and the new branch; non-trivial = >=1 fork switch. variant pool (clause a): 2-4 client tasks issue 1-3 tape-generated AddTx/AddTxs/GetTxs/DelTxs/IsEmpty operations each on one real TxPool " +
			"(initial capacity 1-4, 4-6 transactions and 1-2 boxes sharing sub-transactions, expirations around the selection times) " +
			"under random-gap or PCT preemption at statement granularity; a run is non-trivial when the scheduler switched tasks more " +
			"often than there are clients (operations really interleaved) and >=3 operations ran; distinct = distinct event-log digests",
		Real: []string{"chain/txpool.TxPool (instrumented: yield before every statement, channel-based RWMutex)", "chain/types.Transaction"},
		Stub: []string{"callers (client tasks generated from the tape)"},
		Assumptions: []string{
			"linearizability is judged against the pool's own sequential behaviour (real code replayed without scheduling), so sequential quirks of the pool are not reported by oracle 1",
			"porcupine verdict Unknown (30 s cap) is counted, never reported",
		},
	})
}
