package harness

import (
	"fmt"
	"math/big"
	"sort"
	"strings"
	"time"

	"github.com/LemoFoundationLtd/lemochain-core/chain/consensus"
	"github.com/LemoFoundationLtd/lemochain-core/chain/types"
	"github.com/LemoFoundationLtd/lemochain-core/common"
	"github.com/LemoFoundationLtd/lemochain-core/network"

	"verif/simrt"
)

// C19 Engine thread-safety. k = 2..4 requests (InsertBlock of competing forks or of a
// parent and its child, InsertConfirms, MineBlock, read queries) hit one node
// concurrently under statement-level preemption (random gaps / PCT). Oracles:
// (1) sequential equivalence: per-request verdicts, stable, head, known-block set and pool
//     equal those of SOME serial order of the same requests executed by the same code
//     from the same pre-state at the same simulated instant (all k! orders are run as
//     further bubbles replaying the same generation tape);
// (2) every confirmation the node publishes recovers to its own node id over the hash
//     it names, and that block has the height it names;
// (3) no panic (framework); the race oracle runs on the -race build (see c19_race.go).

type c19Req struct {
	Kind  string // block, confirms, mine, read
	Block *types.Block
	Sigs  []types.SignData
	Label string
}

type c19Outcome struct {
	Verdicts []string
	Stable   string
	Head     string
	Known    string
	Pool     string
	Confirms string // per known block: which deputies' confirmations the store holds for it
}

// key: what sequential equivalence is judged on. The stored confirmation sets are NOT part of it: the engine's own
// background confirmer (not one of the requests) adds the node's signature at a moment of its own, and whether a
// later confirmation is still taken depends on "enough already": exact equality with one serial order would
// misjudge that actor's timing. They are bounded instead (confirmBounds).
func (o c19Outcome) key() string {
	return strings.Join(o.Verdicts, "|") + " stable=" + o.Stable + " head=" + o.Head + " known=" + o.Known + " pool=" + o.Pool
}

func (o c19Outcome) full() string { return o.key() + " confirms=" + o.Confirms }

// confirmSets parses Confirms ("[4]a:d0+d2,[5]child:d1") into block -> set of signers.
func confirmSets(s string) map[string]map[string]bool {
	out := map[string]map[string]bool{}
	for _, part := range strings.Split(s, ",") {
		i := strings.LastIndex(part, ":")
		if i < 0 {
			continue
		}
		set := map[string]bool{}
		for _, d := range strings.Split(part[i+1:], "+") {
			if d != "" {
				set[d] = true
			}
		}
		out[part[:i]] = set
	}
	return out
}

type c19Pub struct {
	Hash   common.Hash
	Height uint32
	Sig    types.SignData
}

// c19Run builds the pre-state, then issues the requests concurrently (order == nil) or
// serially in the given order. Everything is generated from the tape streams cfg/gen.
func c19Run(c *Ctx, order []int, serial bool) (out c19Outcome, reqs []c19Req, pubs []c19Pub, selfID []byte) {
	p := defaultParams(c)
	p.NDeputies = []int{3, 2, 4, 1, 5}[c.Draw("cfg", 5)]
	p.DeputyCount = p.NDeputies
	p.SlotMs = 3000
	net := NewNet(c, p)
	f := net.NewFactory(40)
	nutIsDeputy := c.Draw("cfg", 3) != 0
	self := detKey("observer1")
	nutRank := -1
	if nutIsDeputy {
		nutRank = c.Draw("cfg", p.NDeputies)
		self = net.Deputies[nutRank].Node
	}
	selfID = self.NodeID
	nut := net.AddNode(1, "nut", self)
	if !nut.StartNode() {
		c.Fail("C19/harness/start", "node did not start")
		return
	}
	// confirmations the node publishes
	pubCh := make(chan *network.BlockConfirmData, 64)
	nut.Do("subscribe", func() { nut.Eng.SubscribeConfirm(pubCh) })
	drain := func() {
		for {
			select {
			case d := <-pubCh:
				pubs = append(pubs, c19Pub{d.Hash, d.Height, d.SignInfo})
			default:
				return
			}
		}
	}
	gen := f.Blocks[net.GenBlock.Hash()]
	txn := 0
	mkTxs := func(now int64, n int) types.Transactions {
		var txs types.Transactions
		for i := 0; i < n; i++ {
			txn++
			txs = append(txs, net.SignedTransfer(net.Founder, net.Users[txn%len(net.Users)].Addr, big.NewInt(int64(100+txn)), uint64(now+900), fmt.Sprintf("c19-%d", txn)))
		}
		return txs
	}
	// ---- pre-state: a short chain delivered sequentially, a few pool transactions ----
	var fab []*types.Block
	parent := gen
	npre := c.Draw("gen", 4)
	for i := 0; i < npre; i++ {
		c.W.Sleep(time.Duration(p.SlotMs-500) * time.Millisecond)
		now := time.Now().Unix()
		d := net.nextDeputy(parent, now)
		blk, _, err := f.Mine(d, parent, uint32(now), mkTxs(now, c.Draw("gen", 3)), "")
		if err != nil || blk == nil {
			return
		}
		fab = append(fab, blk)
		nut.InsertBlock(wireCopyBlock(blk))
		if c.Draw("gen", 2) == 0 {
			var sigs []types.SignData
			for k := range net.Deputies {
				if k != d && k != nutRank {
					sigs = append(sigs, net.Confirm(k, blk.Hash()))
				}
			}
			if len(sigs) > 0 {
				nut.InsertConfirms(blk.Height(), blk.Hash(), sigs)
			}
		}
		parent = blk
	}
	// ---- candidate blocks for the concurrent phase: siblings and a child ----
	c.W.Sleep(time.Duration(p.SlotMs-500) * time.Millisecond)
	now := time.Now().Unix()
	d := net.nextDeputy(parent, now)
	var cand []*types.Block
	shared := mkTxs(now, 1+c.Draw("gen", 2)) // the forks carry overlapping transactions
	a, _, _ := f.Mine(d, parent, uint32(now), append(types.Transactions{}, shared...), "a")
	b, _, _ := f.Mine(d, parent, uint32(now), append(append(types.Transactions{}, shared[:1]...), mkTxs(now, 1)...), "b")
	if a != nil {
		cand = append(cand, a)
	}
	if b != nil && (a == nil || b.Hash() != a.Hash()) {
		cand = append(cand, b)
	}
	if a != nil {
		c.W.Sleep(time.Duration(p.SlotMs) * time.Millisecond)
		now = time.Now().Unix()
		d2 := net.nextDeputy(a, now)
		if ch, _, _ := f.Mine(d2, a, uint32(now), mkTxs(now, c.Draw("gen", 2)), "child"); ch != nil {
			cand = append(cand, ch)
		}
	}
	if len(cand) == 0 {
		return
	}
	fab = append(fab, cand...)
	// prepared mode: the node already holds the fork b | a <- child and (as a deputy) has signed b, not a. A
	// confirmation packet that makes the child stable then makes a stable WITHOUT enough confirmations of
	// its own: the engine's background confirmer signs it while late confirmations for it still arrive.
	prepared := false
	if a != nil && b != nil && len(cand) == 3 && nutIsDeputy && p.NDeputies >= 3 && c.Draw("late", 3) == 2 {
		prepared = true
		nut.InsertBlock(wireCopyBlock(b))
		nut.InsertBlock(wireCopyBlock(a))
		nut.InsertBlock(wireCopyBlock(cand[2]))
		c.Probe("prepared_fork_with_unsigned_ancestor")
	}
	// pool content before the phase
	// the node's pool holds its own copies (as decoded from its own network/RPC input), never
	// the objects that sit inside the fabricated blocks
	var poolTxs types.Transactions
	for _, tx := range append(mkTxs(now, c.Draw("gen", 3)), shared...) {
		poolTxs = append(poolTxs, wireCopyTx(tx))
	}
	nut.Do("pool", func() { nut.Pool.AddTxs(poolTxs) })
	// make the node's own slot come up for MineBlock if it is a deputy
	k := 2 + c.Draw("gen", 3)
	for i := 0; i < k; i++ {
		if prepared && i < 2 {
			blk := cand[2] // the child: everybody else confirms it
			var sigs []types.SignData
			for kk := range net.Deputies {
				if kk == nutRank || net.Deputies[kk].Miner.Addr == blk.MinerAddress() {
					continue
				}
				if i == 0 {
					sigs = append(sigs, net.Confirm(kk, blk.Hash()))
				} else if net.Deputies[kk].Miner.Addr != a.MinerAddress() && len(sigs) == 0 {
					sigs = append(sigs, net.Confirm(kk, a.Hash())) // one late confirmation for the ancestor
				}
			}
			if i == 1 {
				blk = a
			}
			if len(sigs) > 0 {
				reqs = append(reqs, c19Req{Kind: "confirms", Block: blk, Sigs: sigs, Label: fmt.Sprintf("InsertConfirms([%d]%s,%d sigs)", blk.Height(), blk.Extra(), len(sigs))})
				continue
			}
		}
		switch r := c.Draw("gen", 10); {
		case r < 5:
			blk := cand[c.Draw("gen", len(cand))]
			reqs = append(reqs, c19Req{Kind: "block", Block: blk, Label: fmt.Sprintf("InsertBlock([%d]%s)", blk.Height(), blk.Extra())})
		case r < 8:
			blk := cand[c.Draw("gen", len(cand))]
			if npre > 0 && c.Draw("late", 4) == 3 {
				// a late confirmation for a block of the pre-state (possibly stable already: the store then
				// rewrites the block on disk, which the engine's own background confirmer may do at the same time)
				blk = fab[c.Draw("late", npre)]
			}
			var sigs []types.SignData
			for kk := range net.Deputies {
				if kk != nutRank && net.Deputies[kk].Miner.Addr != blk.MinerAddress() && c.Draw("gen", 3) != 0 {
					sigs = append(sigs, net.Confirm(kk, blk.Hash()))
				}
			}
			if len(sigs) == 0 {
				sigs = append(sigs, net.Confirm(0, blk.Hash()))
			}
			reqs = append(reqs, c19Req{Kind: "confirms", Block: blk, Sigs: sigs, Label: fmt.Sprintf("InsertConfirms([%d]%s,%d sigs)", blk.Height(), blk.Extra(), len(sigs))})
		case r < 9:
			reqs = append(reqs, c19Req{Kind: "mine", Label: "MineBlock()"})
		default:
			reqs = append(reqs, c19Req{Kind: "read", Label: "reads"})
		}
	}
	// RPC-thread signature lookups (main/node/api.go "find my confirm in block": consensus.SignBlock of a known
	// block): 0-2 side tasks of the concurrent execution. SignBlock only fills the package-level memo, so they are
	// not part of the compared outcome and not permuted; what they RETURN must be the node's own valid signature
	// over the hash they asked for (stream "sign": absent in older replays = no side task)
	var signHashes []common.Hash
	for i, ns := 0, c.Draw("sign", 3); i < ns; i++ {
		if i > 0 && c.Draw("sign", 2) == 0 {
			signHashes = append(signHashes, signHashes[0])
		} else {
			signHashes = append(signHashes, cand[c.Draw("sign", len(cand))].Hash())
		}
	}
	signBad := make([]string, len(signHashes))
	signTask := func(i int) {
		h := signHashes[i]
		sig, err := consensus.SignBlock(h)
		if err != nil {
			return
		}
		id, rerr := types.BytesToSignData(sig).RecoverNodeID(h)
		if len(sig) != 65 || rerr != nil || string(id) != string(selfID) {
			signBad[i] = h.Hex()[:12]
		}
	}
	verdicts := make([]string, len(reqs))
	wire := make([]*types.Block, len(reqs)) // every request carries its own decoded copy
	for i, rq := range reqs {
		if rq.Kind == "block" {
			wire[i] = wireCopyBlock(rq.Block)
		}
	}
	run := func(i int) {
		rq := reqs[i]
		switch rq.Kind {
		case "block":
			_, err := nut.Eng.InsertBlock(wire[i])
			verdicts[i] = fmt.Sprintf("%s=%s", rq.Label, verdictClass(err))
		case "confirms":
			err := nut.Eng.InsertConfirms(rq.Block.Height(), rq.Block.Hash(), rq.Sigs)
			verdicts[i] = fmt.Sprintf("%s=%s", rq.Label, verdictClass(err))
		case "mine":
			blk, err := nut.Eng.MineBlock(10000)
			if err == nil && blk != nil {
				verdicts[i] = fmt.Sprintf("%s=mined(on [%d]%s,%d txs)", rq.Label, blk.Height()-1, blk.ParentHash().Hex()[2:8], len(blk.Txs))
			} else {
				verdicts[i] = fmt.Sprintf("%s=%s", rq.Label, verdictClass(err))
			}
		case "read":
			cur := nut.BC.CurrentBlock()
			st := nut.BC.StableBlock()
			_ = nut.BC.GetBlockByHash(cur.Hash())
			_ = nut.BC.GetBlockByHeight(st.Height())
			_ = nut.BC.HasBlock(cand[0].Hash())
			// (GetCandidatesTop(hash) is not called here: it panics by contract for a hash that
			// stopped being current/stable between two calls, also in a sequential execution)
			nut.DB.IterateUnConfirms(func(*types.Block) {})
			nut.BC.AccountManager().GetCanonicalAccount(net.Founder.Addr).GetBalance()
			verdicts[i] = rq.Label + "=done"
		}
	}
	if !serial {
		for i := range reqs {
			i := i
			c.W.Spawn(nut.Tag, fmt.Sprintf("req%d", i), func() { run(i) })
		}
		for i := range signHashes {
			i := i
			c.W.Spawn(nut.Tag, fmt.Sprintf("rpcsign%d", i), func() { signTask(i) })
		}
		c.W.Settle()
		for _, bad := range signBad {
			if bad != "" {
				c.Fail("C19/emitted-signature/not-own-signature", "consensus.SignBlock(%s), called by an RPC thread while the engine handled %d concurrent requests, returned bytes that are not the node's own signature over that hash (the signature memo was read while another caller was filling it)", bad, len(reqs))
			}
		}
		if len(signHashes) > 1 {
			c.Probe("concurrent_rpc_sign")
		}
	} else {
		for _, i := range order {
			i := i
			nut.Do(fmt.Sprintf("req%d", i), func() { run(i) })
		}
	}
	for i, v := range verdicts {
		if v == "" {
			verdicts[i] = reqs[i].Label + "=DID-NOT-RETURN"
		}
	}
	drain()
	nut.Do("observe", func() {
		st, cur := nut.BC.StableBlock(), nut.BC.CurrentBlock()
		name := func(b *types.Block) string {
			for _, fb := range fab {
				if fb.Hash() == b.Hash() {
					return fmt.Sprintf("[%d]%s", b.Height(), b.Extra())
				}
			}
			if b.Height() == 0 {
				return "genesis"
			}
			return fmt.Sprintf("[%d]own(on %s,%d txs)", b.Height(), b.ParentHash().Hex()[2:8], len(b.Txs))
		}
		out.Stable, out.Head = name(st), name(cur)
		var known []string
		for _, fb := range fab {
			if ok, _ := nut.DB.IsExistByHash(fb.Hash()); ok {
				known = append(known, name(fb))
			}
		}
		out.Known = strings.Join(known, ",")
		var cs []string
		for _, fb := range fab {
			sb, err := nut.DB.GetBlockByHash(fb.Hash())
			if err != nil || sb == nil {
				continue
			}
			var who []string
			for _, sg := range sb.Confirms {
				id, err := sg.RecoverNodeID(sb.Hash())
				if err != nil {
					who = append(who, "invalid")
					continue
				}
				if d := net.DeputyByNodeID(id); d != nil {
					who = append(who, fmt.Sprintf("d%d", d.Rank))
				} else {
					who = append(who, "outsider")
				}
			}
			sort.Strings(who)
			cs = append(cs, name(fb)+":"+strings.Join(who, "+"))
		}
		out.Confirms = strings.Join(cs, ",")
		slots, _, _ := nut.Pool.VerifDump()
		var ph []string
		for _, tx := range slots {
			if tx != nil {
				ph = append(ph, tx.Message())
			}
		}
		sort.Strings(ph)
		out.Pool = strings.Join(ph, ",")
	})
	out.Verdicts = verdicts
	return
}

// verdictClass compares request verdicts as accepted / refused: the concrete error of a
// refusal (e.g. "ignored: exists" vs "save failed: exists" for a block that a concurrent
// request inserted a moment earlier) is not acted upon by any caller.
func verdictClass(err error) string {
	if err == nil {
		return "ok"
	}
	return "refused"
}

func permutations(n int) [][]int {
	var res [][]int
	var rec func(cur []int, used []bool)
	rec = func(cur []int, used []bool) {
		if len(cur) == n {
			res = append(res, append([]int(nil), cur...))
			return
		}
		for i := 0; i < n; i++ {
			if !used[i] {
				used[i] = true
				rec(append(cur, i), used)
				used[i] = false
			}
		}
	}
	rec(nil, make([]bool, n))
	return res
}

func c19SimConfig(c *Ctx) simrt.Config {
	switch c.Draw("sc", 4) {
	case 0:
		return simrt.Config{Policy: simrt.PolicyPCT, PCTDepth: 1 + c.Draw("sc", 3), PCTSpan: 6000}
	case 1:
		return simrt.Config{Policy: simrt.PolicyRandom, MeanGap: 20}
	case 2:
		return simrt.Config{Policy: simrt.PolicyRandom, MeanGap: 200}
	}
	return simrt.Config{Policy: simrt.PolicyRandom, MeanGap: 1500}
}

func c19Scenario(c *Ctx) {
	out, reqs, pubs, selfID := c19Run(c, nil, false)
	c.Keep["out"] = out
	c.Keep["nreq"] = len(reqs)
	// oracle 2: published confirmations are the node's own valid signatures
	blockH := map[common.Hash]uint32{}
	for _, r := range reqs {
		if r.Block != nil {
			blockH[r.Block.Hash()] = r.Block.Height()
		}
	}
	for _, pb := range pubs {
		id, err := pb.Sig.RecoverNodeID(pb.Hash)
		if err != nil || string(id) != string(selfID) {
			c.Fail("C19/published-confirm/not-own-signature", "the node published a confirmation for block %s height %d whose signature does not recover to its own node id over that hash", pb.Hash.Hex()[:12], pb.Height)
		}
		if h, ok := blockH[pb.Hash]; ok && h != pb.Height {
			c.Fail("C19/published-confirm/wrong-height", "the node published a confirmation naming height %d for a block of height %d", pb.Height, h)
		}
	}
	if len(pubs) > 0 {
		c.Probe("confirms_published")
	}
	var labels []string
	for _, r := range reqs {
		labels = append(labels, r.Label)
	}
	c.Nontrivial = len(reqs) >= 2 && c.W.S.Switches > 40
	c.Sample = map[string]interface{}{"requests": labels, "outcome": out.key()}
}

func c19Post(c *Ctx) {
	if c.Failed() {
		return
	}
	out, _ := c.Keep["out"].(c19Outcome)
	n, _ := c.Keep["nreq"].(int)
	if n == 0 || len(out.Verdicts) == 0 {
		return
	}
	var serials []string
	matched := false
	// per block: signers stored in EVERY serial order / in SOME serial order
	var inter, union map[string]map[string]bool
	for _, ord := range permutations(n) {
		var so c19Outcome
		sub, res := runSub(c, simrt.Config{Policy: simrt.PolicyCoarse}, func(sc *Ctx) {
			so, _, _, _ = c19Run(sc, ord, true)
		})
		if res.HarnessEr != "" || sub.Failed() {
			c.Probe("serial_reference_failed")
			return
		}
		cs := confirmSets(so.Confirms)
		if inter == nil {
			inter, union = map[string]map[string]bool{}, map[string]map[string]bool{}
			for b, set := range cs {
				inter[b], union[b] = map[string]bool{}, map[string]bool{}
				for d := range set {
					inter[b][d], union[b][d] = true, true
				}
			}
		} else {
			for b := range inter {
				for d := range inter[b] {
					if !cs[b][d] {
						delete(inter[b], d)
					}
				}
			}
			for b, set := range cs {
				if union[b] == nil {
					union[b] = map[string]bool{}
				}
				for d := range set {
					union[b][d] = true
				}
			}
		}
		if so.key() == out.key() {
			matched = true
			if so.Confirms == out.Confirms {
				// equal to one serial order in every component, the stored confirmation sets included: inside the bounds
				c.Probe("matched_serial_order")
				return
			}
		}
		serials = append(serials, fmt.Sprintf("order %v: %s", ord, so.full()))
	}
	if matched {
		c.Probe("matched_serial_order")
		// stored confirmations: nothing that every serial order keeps may be missing (lost update between the
		// background confirmer and the network thread), nothing may be stored that no serial order stores
		got := confirmSets(out.Confirms)
		for _, b := range sortedKeys2(inter) {
			for _, d := range sortedKeys3(inter[b]) {
				if !got[b][d] {
					c.Fail("C19/confirms/lost", "after the concurrent execution the store holds no confirmation of %s for block %s, although it holds one after every one of the %d serial orders of the same requests (a stored confirmation was overwritten)\n concurrent: %s\n %s", d, b, len(serials), out.full(), strings.Join(serials, "\n "))
					return
				}
			}
		}
		for _, b := range sortedKeys2(got) {
			for _, d := range sortedKeys3(got[b]) {
				if !union[b][d] {
					c.Fail("C19/confirms/phantom", "after the concurrent execution the store holds a confirmation of %s for block %s that no serial order of the same requests stores\n concurrent: %s\n %s", d, b, out.full(), strings.Join(serials, "\n "))
					return
				}
			}
		}
		return
	}
	// classify the difference for the signature
	sub := "other"
	for _, v := range out.Verdicts {
		if strings.Contains(v, "DID-NOT-RETURN") {
			sub = "request-did-not-return"
		}
	}
	c.Fail("C19/not-serializable/"+sub, "the concurrent execution's outcome matches none of the %d serial orders of the same requests.\n concurrent: %s\n %s", len(serials), out.full(), strings.Join(serials, "\n "))
}

func init() {
	Register(&PropDef{
		ID: "C19", Variants: []string{"engine"}, SimConfig: c19SimConfig, Scenario: c19Scenario, Post: c19Post,
		Rule: "pre-state: 0-3 blocks and some confirmations delivered sequentially, pool filled; then 2-4 tape-chosen requests (InsertBlock of two sibling forks with overlapping transactions or of a child of one of them, InsertConfirms for any of them, MineBlock, a batch of lock-free read queries) plus 0-2 RPC-thread consensus.SignBlock lookups for the blocks in flight (half of the pairs for the same hash; the returned signature must be the node's own over that hash) run as concurrent tasks on one node (deputy or observer, 1-5 deputies) under random-gap (mean 20/200/1500 yields) or PCT preemption at statement granularity in consensus, store, deputynode, txpool; afterwards every one of the k! serial orders is executed as a further bubble replaying the same generation tape (same workload, same simulated instants); non-trivial = >=2 requests and >40 task switches; distinct = event-log digests",
		Real: []string{"chain/consensus.DPoVP (InsertBlock/InsertConfirms/MineBlock and its background goroutines)", "store.ChainDatabase + async file queue", "chain/deputynode", "chain/txpool", "chain/account", "common/subscribe"},
		Stub: []string{"request sources (network, miner timer, RPC threads) = harness tasks"},
		Assumptions: []string{"the engine's background jobs (confirm broadcast, batch confirm of stable blocks, evil-deputy judging, delayed confirm fetch) do not influence the compared outcome components (verdicts, stable, head, known-block set, pool), so comparing against the k! request orders is complete for this oracle", "confirm lists are not compared (the node's own optional signatures legitimately depend on order)"},
	})
}


func sortedKeys2(m map[string]map[string]bool) []string {
	out := make([]string, 0, len(m))
	for k := range m {
		out = append(out, k)
	}
	sort.Strings(out)
	return out
}

func sortedKeys3(m map[string]bool) []string {
	out := make([]string, 0, len(m))
	for k := range m {
		out = append(out, k)
	}
	sort.Strings(out)
	return out
}
