package harness

import (
	"encoding/hex"
	"fmt"
	"sort"
	"strings"

	"github.com/LemoFoundationLtd/lemochain-core/chain/account"
	"github.com/LemoFoundationLtd/lemochain-core/chain/types"
	"github.com/LemoFoundationLtd/lemochain-core/common"
)

// Whole-account dump used by C07 and C16. Every value is read through the public getters of
// types.AccountAccessor (what a caller of the account layer can observe); the overlay hook
// in hooks/chain/account only enumerates which addresses / trie keys are present in the
// manager's caches, because no public API lists them.

// keySets names the trie keys of one account that a dump reads.
type keySets struct {
	Storage, AssetCode, AssetId, Equity []common.Hash
}

func mergeHashes(a, b []common.Hash) []common.Hash {
	seen := map[common.Hash]bool{}
	var out []common.Hash
	for _, l := range [][]common.Hash{a, b} {
		for _, h := range l {
			if !seen[h] {
				seen[h] = true
				out = append(out, h)
			}
		}
	}
	sort.Slice(out, func(i, j int) bool { return string(out[i][:]) < string(out[j][:]) })
	return out
}

func (k keySets) merge(o keySets) keySets {
	return keySets{mergeHashes(k.Storage, o.Storage), mergeHashes(k.AssetCode, o.AssetCode), mergeHashes(k.AssetId, o.AssetId), mergeHashes(k.Equity, o.Equity)}
}

// cachedKeys returns the keys present in the caches of an already loaded account.
func cachedKeys(am *account.Manager, addr common.Address) keySets {
	s, ac, ai, eq := am.VerifTrieKeys(addr)
	return keySets{s, ac, ai, eq}
}

func mergeAddrs(lists ...[]common.Address) []common.Address {
	seen := map[common.Address]bool{}
	var out []common.Address
	for _, l := range lists {
		for _, a := range l {
			if !seen[a] {
				seen[a] = true
				out = append(out, a)
			}
		}
	}
	sort.Slice(out, func(i, j int) bool { return string(out[i][:]) < string(out[j][:]) })
	return out
}

func fmtProfile(p types.Profile) string {
	keys := make([]string, 0, len(p))
	for k := range p {
		keys = append(keys, k)
	}
	sort.Strings(keys)
	var b strings.Builder
	for _, k := range keys {
		fmt.Fprintf(&b, "%q=%q;", k, p[k])
	}
	return b.String()
}

func fmtAsset(a *types.Asset) string {
	if a == nil {
		return "nil"
	}
	ts := "nil"
	if a.TotalSupply != nil {
		ts = a.TotalSupply.String()
	}
	return fmt.Sprintf("cat=%d div=%v code=%x dec=%d supply=%s repl=%v issuer=%x profile={%s}", a.Category, a.IsDivisible, a.AssetCode[:4], a.Decimal, ts, a.IsReplenishable, a.Issuer[:], fmtProfile(a.Profile))
}

func fmtEquity(e *types.AssetEquity) string {
	if e == nil {
		return "nil"
	}
	q := "nil"
	if e.Equity != nil {
		q = e.Equity.String()
	}
	return fmt.Sprintf("code=%x id=%x equity=%s", e.AssetCode[:4], e.AssetId[:4], q)
}

func fmtSigners(s types.Signers) string {
	var b strings.Builder
	for _, x := range s {
		fmt.Fprintf(&b, "%x:%d,", x.Address[:], x.Weight)
	}
	return b.String()
}

func fmtEvent(e *types.Event) string {
	if e == nil {
		return "nil"
	}
	var b strings.Builder
	fmt.Fprintf(&b, "%x[", e.Address[:])
	for _, t := range e.Topics {
		fmt.Fprintf(&b, "%x,", t[:4])
	}
	fmt.Fprintf(&b, "]%x", e.Data)
	return b.String()
}

// guarded runs a getter; a panicking getter shows up as a value (and therefore as a difference).
func guarded(f func() string) (out string) {
	defer func() {
		if r := recover(); r != nil {
			out = fmt.Sprintf("PANIC(%v)", r)
		}
	}()
	return f()
}

// acctDump is attribute name -> rendered value. Attribute names are stable identifiers used in
// violation signatures ("balance", "code", "storage", ...); per-key attributes are "storage[ab12]".
type acctDump map[string]string

// attrClass strips the key part: "storage[ab12..]" -> "storage".
func attrClass(attr string) string {
	if i := strings.IndexByte(attr, '['); i >= 0 {
		return attr[:i]
	}
	return attr
}

const nLogTypes = 19 // account.BalanceLog .. account.SignerLog

func dumpAccount(acc types.AccountAccessor, ks keySets) acctDump {
	d := acctDump{}
	put := func(name string, f func() string) { d[name] = guarded(f) }
	put("balance", func() string { return acc.GetBalance().String() })
	put("codehash", func() string { h := acc.GetCodeHash(); return hex.EncodeToString(h[:]) })
	put("code", func() string {
		code, err := acc.GetCode()
		if err != nil {
			return "err:" + err.Error()
		}
		return hex.EncodeToString(code)
	})
	put("root.storage", func() string { h := acc.GetStorageRoot(); return hex.EncodeToString(h[:]) })
	put("root.assetCode", func() string { h := acc.GetAssetCodeRoot(); return hex.EncodeToString(h[:]) })
	put("root.assetId", func() string { h := acc.GetAssetIdRoot(); return hex.EncodeToString(h[:]) })
	put("root.equity", func() string { h := acc.GetEquityRoot(); return hex.EncodeToString(h[:]) })
	put("voteFor", func() string { a := acc.GetVoteFor(); return hex.EncodeToString(a[:]) })
	put("votes", func() string { return acc.GetVotes().String() })
	put("candidate", func() string { return fmtProfile(acc.GetCandidate()) })
	put("signers", func() string { return fmtSigners(acc.GetSigners()) })
	put("suicide", func() string { return fmt.Sprint(acc.GetSuicide()) })
	put("versions", func() string {
		var b strings.Builder
		for t := 1; t <= nLogTypes; t++ {
			if v := acc.GetVersion(types.ChangeLogType(t)); v != 0 {
				fmt.Fprintf(&b, "%d=%d,", t, v)
			}
		}
		return b.String()
	})
	put("json", func() string {
		b, err := acc.MarshalJSON()
		if err != nil {
			return "err:" + err.Error()
		}
		return string(b)
	})
	// not named by the C07 statement; kept apart (see eventsAttr)
	put(eventsAttr, func() string {
		var b strings.Builder
		for _, e := range acc.GetEvents() {
			b.WriteString(fmtEvent(e))
			b.WriteByte(' ')
		}
		return b.String()
	})
	for _, k := range ks.Storage {
		k := k
		put(fmt.Sprintf("storage[%x]", k[:]), func() string {
			v, err := acc.GetStorageState(k)
			if err != nil {
				return "err:" + err.Error()
			}
			return hex.EncodeToString(v)
		})
	}
	for _, k := range ks.AssetCode {
		k := k
		put(fmt.Sprintf("assetCode[%x]", k[:]), func() string {
			a, err := acc.GetAssetCode(k)
			if err != nil {
				return "err:" + err.Error()
			}
			return fmtAsset(a)
		})
	}
	for _, k := range ks.AssetId {
		k := k
		put(fmt.Sprintf("assetId[%x]", k[:]), func() string {
			v, err := acc.GetAssetIdState(k)
			if err != nil {
				return "err:" + err.Error()
			}
			return fmt.Sprintf("%q", v)
		})
	}
	for _, k := range ks.Equity {
		k := k
		put(fmt.Sprintf("equity[%x]", k[:]), func() string {
			e, err := acc.GetEquityState(k)
			if err != nil {
				return "err:" + err.Error()
			}
			return fmtEquity(e)
		})
	}
	return d
}

// eventsAttr is the per-account list behind GetEvents(). The C07/C16 statements name balance,
// code, storage, asset and equity entries, candidate profile, votes, signers, self-destruct
// flag and roots; contract events are published through AddEventLog change logs (which the
// journal oracle covers), and Manager.GetEvents has no caller in the node. The list is
// dumped and counted as a probe when it differs, but it does not gate.
const eventsAttr = "events(unpublished list)"

// stateDump is a dump of a set of accounts plus the journal.
type stateDump struct {
	Accts  map[common.Address]acctDump
	Keys   map[common.Address]keySets
	LogLen int
	Logs   []string // published (RLP) form of each journal entry, hex; "err:..." if it does not encode
}

func renderLog(l *types.ChangeLog) string {
	b, err := rlpEncode(l)
	if err != nil {
		return "err:" + err.Error()
	}
	return hex.EncodeToString(b)
}

// dumpState dumps the given accounts. keysFor gives the trie keys to read for an address (in
// addition to whatever the manager's caches hold for it at this moment).
func dumpState(am *account.Manager, addrs []common.Address, keysFor func(common.Address) keySets) *stateDump {
	sd := &stateDump{Accts: map[common.Address]acctDump{}, Keys: map[common.Address]keySets{}}
	for _, a := range addrs {
		ks := cachedKeys(am, a)
		if keysFor != nil {
			ks = ks.merge(keysFor(a))
		}
		sd.Keys[a] = ks
		sd.Accts[a] = dumpAccount(am.GetAccount(a), ks)
	}
	logs := am.GetChangeLogs()
	sd.LogLen = len(logs)
	for _, l := range logs {
		sd.Logs = append(sd.Logs, renderLog(l))
	}
	return sd
}

func (sd *stateDump) addrs() []common.Address {
	out := make([]common.Address, 0, len(sd.Accts))
	for a := range sd.Accts {
		out = append(out, a)
	}
	return mergeAddrs(out)
}

func (sd *stateDump) keysFor(a common.Address) keySets { return sd.Keys[a] }

type attrDiff struct {
	Addr      common.Address
	Attr      string
	Want, Got string
}

func (d attrDiff) String() string {
	return fmt.Sprintf("%x.%s: expected %s, got %s", d.Addr[:4], d.Attr, clip(d.Want, 200), clip(d.Got, 200))
}

func clip(s string, n int) string {
	if len(s) > n {
		return s[:n] + fmt.Sprintf("...(%d bytes)", len(s))
	}
	return s
}

// diffAccounts compares the attributes present in BOTH dumps of every account present in
// `want` (a dump with fewer keys constrains fewer attributes). Differences are sorted.
func diffAccounts(want, got *stateDump) []attrDiff {
	var out []attrDiff
	for _, a := range want.addrs() {
		w := want.Accts[a]
		g, ok := got.Accts[a]
		if !ok {
			continue
		}
		names := make([]string, 0, len(w))
		for n := range w {
			names = append(names, n)
		}
		sort.Strings(names)
		for _, n := range names {
			gv, ok := g[n]
			if !ok {
				continue
			}
			if gv != w[n] {
				out = append(out, attrDiff{a, n, w[n], gv})
			}
		}
	}
	return out
}

// splitGating separates differences of attributes named by the property statements from the
// non-gating events list.
func splitGating(ds []attrDiff) (gating, other []attrDiff) {
	for _, d := range ds {
		if d.Attr == eventsAttr {
			other = append(other, d)
		} else {
			gating = append(gating, d)
		}
	}
	return
}

func diffStrings(ds []attrDiff, max int) string {
	var b strings.Builder
	for i, d := range ds {
		if i >= max {
			fmt.Fprintf(&b, "\n  ... %d more", len(ds)-max)
			break
		}
		b.WriteString("\n  ")
		b.WriteString(d.String())
	}
	return b.String()
}

// hashDump folds a dump into 64 bits (for the event-log digest / abstract states).
func hashDump(sd *stateDump) uint64 {
	h := uint64(14695981039346656037)
	mix := func(s string) {
		for i := 0; i < len(s); i++ {
			h ^= uint64(s[i])
			h *= 1099511628211
		}
		h ^= 0xff
		h *= 1099511628211
	}
	for _, a := range sd.addrs() {
		mix(string(a[:]))
		d := sd.Accts[a]
		names := make([]string, 0, len(d))
		for n := range d {
			names = append(names, n)
		}
		sort.Strings(names)
		for _, n := range names {
			mix(n)
			mix(d[n])
		}
	}
	for _, l := range sd.Logs {
		mix(l)
	}
	return h
}
