package harness

import (
	"fmt"

	"github.com/LemoFoundationLtd/lemochain-core/chain/types"
	"github.com/LemoFoundationLtd/lemochain-core/common"
)

// C14 variant "traffic": objects produced by the real miner code (nodesim factory): blocks
// with transfers, votes, candidate registrations and a snapshot block with deputy nodes, the
// change logs the real transaction processor emitted and the account records the real store
// holds. Every harvested object goes through the same round-trip oracles as generated values.
func c14TrafficScenario(c *Ctx) {
	k := newC14(c)
	p := c13Params(c, 4)
	p.TermDuration = uint32(4 + c.Draw("gen", 3)) // reach the snapshot block quickly
	ch := newC13Chain(c, p, 40)
	el := ch.planElection(0, p.TermDuration)
	// extra transfers between users in every block
	length := int(p.TermDuration) + 1 + c.Draw("gen", 2)
	users := ch.net.Users
	for h := uint32(1); h <= uint32(length); h++ {
		h := h
		for i, n := 0, c.Draw("gen", 3); i < n; i++ {
			to := users[c.Draw("gen", len(users))].Addr
			amt := fmt.Sprint(1 + c.Draw("gen", 5000))
			salt := fmt.Sprintf("t%d.%d", h, i)
			ch.plan[h] = append(ch.plan[h], func(ts uint32) *types.Transaction {
				return ch.transferTx(ch.net.Founder, to, amt, ts, salt)
			})
		}
	}
	seenLogTypes := map[types.ChangeLogType]bool{}
	for len(ch.chain) <= length && !c.Failed() {
		parent := ch.head()
		act := ch.m.active(parent.Height() + 1)
		ts := parent.Time() + uint32(c.Draw("gen", 4))
		r, _ := ch.m.entitled(parent.Height()+1, parent.MinerAddress(), int64(parent.Time())*1000, int64(ts)*1000)
		blk, err := ch.extend(act[r].MinerAddress, ts)
		if err != nil {
			c.Fail("C14/harness/mine", "factory could not mine: %v", err)
			return
		}
		k.checkBlock("MinedBlock", blk)
		k.checkHeader(blk.Header)
		for _, tx := range blk.Txs {
			k.checkTx("MinedTx", tx, true)
		}
		for _, l := range blk.ChangeLogs {
			seenLogTypes[l.LogType] = true
			k.checkChangeLog(l)
		}
		for _, d := range blk.DeputyNodes {
			k.checkDeputyNode(d)
			c.Probe("mined_deputy_node")
		}
		// account records as the real store holds them after this block
		var recs []*types.AccountData
		addrs := []common.Address{ch.net.Founder.Addr, blk.MinerAddress(), users[0].Addr}
		for _, id := range ch.m.Idents {
			addrs = append(addrs, id.Miner.Addr)
		}
		c.W.Do(40, "read-accounts", func() {
			adb, err := ch.f.DB.GetActDatabase(blk.Hash())
			if err != nil {
				return
			}
			for _, a := range addrs {
				if d, err := adb.Get(a); err == nil && d != nil {
					recs = append(recs, d)
				}
			}
		})
		for _, r := range recs {
			k.checkAccountData(r)
			c.Probe("stored_account_record")
		}
	}
	// the gossip payloads built from real objects
	if len(ch.chain) > 1 {
		wire := wireCopyBlock(ch.chain[len(ch.chain)-1])
		if d := eqBlock(ch.chain[len(ch.chain)-1], wire); d != "" {
			c.Fail("C14/value/MinedBlock/"+sigPath(d), "wire copy of a mined block differs: %s", d)
		}
	}
	ch.close()
	c.Nontrivial = k.checks >= 10 && len(seenLogTypes) >= 2
	names := []string{}
	for t := c14FirstLog; t <= c14LastLog; t++ {
		if seenLogTypes[t] {
			names = append(names, t.String())
		}
	}
	c.Sample = map[string]interface{}{"variant": "traffic", "blocks": len(ch.chain) - 1, "election": el, "round_trips": k.checks, "log_types_seen": names}
}
