package harness

import (
	"fmt"
	"strconv"
	"strings"
	"time"

	"verif/simrt"
	"verif/simrt/simldb"
	"verif/simrt/simos"
)

// Crash machinery shared by C08 and C10: numbering of the I/O events of the node under
// test, the crash variants, the clean-up after a kill and the restart loop.

// crash variant of a first-level crash point
const (
	cvBefore   = iota // die before the operation takes effect
	cvAfter           // operation completes, then die
	cvTorn1           // torn write: 1 byte
	cvTornHdr         // torn write: 18 bytes (record header)
	cvTorn256         // torn write: first 256-byte boundary
	cvTornRec         // torn write: a tape-chosen 256-byte boundary
	cvTornLast        // torn write: len-1
	cvTornCut         // torn write: tape-chosen cut
	cvCount
)

var cvNames = []string{"before", "after", "torn1", "torn18", "torn256", "torn256k", "tornlen-1", "torncut"}

type ioRec struct {
	Kind  string
	Class string
	Len   int
	Phase string
	Enum  bool
	Off   int64
	Path  string
}

type firedCrash struct {
	Raw, Enum int64
	Ev        simrt.IOEvent
	Class     string
	Phase     string
	Variant   int
	Torn      int
	Panics    int // number of panics recorded when the crash fired
}

// Site is the signature component: event kind + file class (not the event number).
func (f *firedCrash) Site() string {
	s := f.Ev.Kind
	if !strings.HasPrefix(s, "ldb.") {
		s += ":" + f.Class
	}
	if f.Phase == "init" {
		s = "init:" + s
	}
	return s
}

// crashPlanner numbers the I/O events of one node and fires the planned crash.
type crashPlanner struct {
	c     *Ctx
	tag   int
	home  string
	phase string // "init" (first start until genesis is stable), "run", "recovery"

	raw, enum int64 // events seen so far (all / enumerable)
	log       []ioRec
	keepLog   bool

	armed   bool
	useEnum bool  // target counts enumerable events (else raw events)
	target  int64 // absolute counter value at which to fire
	variant int
	fired   *firedCrash
	nFired  int
	prev    [2]string // kind:class of the two preceding events of the node
}

func newCrashPlanner(c *Ctx, tag int, home string) *crashPlanner {
	p := &crashPlanner{c: c, tag: tag, home: home, phase: "init"}
	return p
}

// fileClass maps a path of the node's data directory to a class name.
func fileClass(home, path string) (class string, bitcask int) {
	rel := strings.TrimPrefix(path, home)
	rel = strings.TrimPrefix(rel, "/")
	bitcask = -1
	switch {
	case rel == "":
		return "home", -1
	case rel == "tmp.data" || rel == "context.data":
		return rel, -1
	case rel == "context.data.tmp":
		return "context.data", -1
	case rel == "index" || strings.HasPrefix(rel, "index/"):
		return "index", -1
	}
	parts := strings.Split(rel, "/")
	if len(parts) >= 2 {
		a, e1 := strconv.Atoi(parts[0])
		b, e2 := strconv.Atoi(parts[1])
		if e1 == nil && e2 == nil {
			bitcask = a<<4 | b
			if len(parts) == 2 {
				return "bitcask-dir", bitcask
			}
			return "bitcask", bitcask
		}
	}
	if len(parts) == 1 {
		if _, err := strconv.Atoi(parts[0]); err == nil {
			return "bitcask-dir", -1
		}
	}
	return "other", -1
}

// enumerable: the 2x256 mkdir/create events that lay out the bitcask directories at the
// first start are one code path executed 256 times; crash points are enumerated for the
// first 4 directories only, the rest is reached by the random mode.
func (p *crashPlanner) enumerable(ev *simrt.IOEvent, class string, bitcask int) bool {
	if p.phase == "init" && (class == "bitcask-dir" || class == "bitcask") && (ev.Kind == "mkdir" || ev.Kind == "create") && bitcask >= 4 {
		return false
	}
	return true
}

func (p *crashPlanner) tornLen(variant, n int) int {
	if n < 2 {
		return 0
	}
	cut := func() int { return 1 + p.c.Draw("fault", n-1) }
	switch variant {
	case cvTorn1:
		return 1
	case cvTornHdr:
		if n > 18 {
			return 18
		}
	case cvTorn256:
		if n > 256 {
			return 256
		}
	case cvTornRec:
		if n > 256 {
			return 256 * (1 + p.c.Draw("fault", (n-1)/256))
		}
	case cvTornLast:
		return n - 1
	}
	return cut()
}

func (p *crashPlanner) hook(ev *simrt.IOEvent) simrt.IOAction {
	if ev.Node != p.tag {
		return simrt.IOAction{}
	}
	class, bc := fileClass(p.home, ev.Path)
	p.raw++
	en := p.enumerable(ev, class, bc)
	if en {
		p.enum++
	}
	if p.keepLog {
		p.log = append(p.log, ioRec{Kind: ev.Kind, Class: class, Len: ev.Len, Phase: p.phase, Enum: en, Off: ev.Off, Path: strings.TrimPrefix(ev.Path, p.home)})
	}
	cur := ev.Kind + ":" + class
	prev := p.prev
	p.prev = [2]string{cur, prev[0]}
	if !p.armed {
		return simrt.IOAction{}
	}
	if p.useEnum {
		if !en || p.enum != p.target {
			return simrt.IOAction{}
		}
	} else if p.raw != p.target {
		return simrt.IOAction{}
	}
	p.armed = false
	variant := p.variant
	isWrite := (ev.Kind == "write" || ev.Kind == "ldb.write") && ev.Len >= 2
	if variant >= cvTorn1 && !isWrite {
		variant = cvBefore + variant%2
	}
	f := &firedCrash{Raw: p.raw, Enum: p.enum, Ev: *ev, Class: class, Phase: p.phase, Variant: variant, Panics: len(p.c.W.Panics())}
	p.fired = f
	p.nFired++
	kind := ev.Kind
	act := simrt.IOAction{}
	switch {
	case variant == cvBefore:
		act.CrashBefore = true
		p.c.Fault("crash_before/" + kind)
	case variant == cvAfter:
		act.CrashAfter = true
		p.c.Fault("crash_after/" + kind)
	default:
		f.Torn = p.tornLen(variant, ev.Len)
		act.CrashBefore = true
		act.Torn = f.Torn
		p.c.Fault("torn/" + kind)
		p.c.Probe("torn_variant/" + cvNames[variant])
	}
	if p.phase == "recovery" {
		p.c.Fault("crash_in_recovery")
	}
	// the window of the write-ahead design: batch in tmp.data, stable pointer not yet moved
	if p.phase == "run" && ((cur == "sync:tmp.data" && prev[0] == "write:tmp.data" && variant != cvAfter) ||
		(ev.Kind == "ldb.write" && prev[0] == "sync:tmp.data" && variant != cvAfter) ||
		(cur == "write:tmp.data" && variant == cvAfter) || (cur == "sync:tmp.data" && variant == cvAfter)) {
		p.c.Probe("crash_between_batch_and_stable_pointer")
	}
	simrt.Log("c08.crash", p.raw, int64(variant), kind+":"+class)
	return act
}

// arm plans a crash at the n-th event counted from now.
func (p *crashPlanner) armRelative(n int64, variant int) {
	p.armed, p.useEnum, p.target, p.variant = true, false, p.raw+n, variant
}

// armEnum plans a crash at enumerable event number k (absolute, 1-based).
func (p *crashPlanner) armEnum(k int64, variant int) {
	p.armed, p.useEnum, p.target, p.variant = true, true, k, variant
}

func (p *crashPlanner) armRaw(k int64, variant int) {
	p.armed, p.useEnum, p.target, p.variant = true, false, k, variant
}

func (p *crashPlanner) disarm() { p.armed = false }

// takeFired returns and clears the crash that fired since the last call.
func (p *crashPlanner) takeFired() *firedCrash {
	f := p.fired
	p.fired = nil
	return f
}

// CrashCleanup performs what remains to be done after the node's epoch was killed inside an
// I/O call (or by Kill): close the Quit channels so that natively blocked goroutines wake
// up and die at their next yield, close every LevelDB handle the node opened (the handles
// are dead: no byte reaches the disk), let goleveldb's goroutines drain.
func (nd *Node) CrashCleanup() {
	w := nd.Net.C.W
	func() {
		defer func() { recover() }()
		if nd.DB != nil && nd.DB.Beansdb != nil && nd.DB.Beansdb.Queue != nil {
			close(nd.DB.Beansdb.Queue.Quit)
		}
	}()
	func() {
		defer func() { recover() }()
		if nd.BC != nil {
			nd.BC.Stop()
		}
	}()
	w.Settle()
	func() {
		defer func() { recover() }()
		if nd.DB != nil && nd.DB.LevelDB != nil {
			nd.DB.LevelDB.LDB().Close()
		}
	}()
	func() {
		defer func() { recover() }()
		simldb.CloseNode(nd.Tag) // handles opened by a start that never returned
	}()
	nd.Alive = false
	nd.DB, nd.BC, nd.Eng, nd.DM, nd.Pool = nil, nil, nil, nil, nil
	w.Sleep(2 * time.Second)
	w.S.Revive(nd.Tag)
}

// dropUnsynced applies the power-loss view to the node's data directory (probe only).
func (nd *Node) dropUnsynced() int {
	n := simos.TheDisk().DropUnsynced(nd.Home)
	n += simldb.DropUnsynced(nd.Home + "/index")
	return n
}

// startTracked starts the node and keeps the partially built handles reachable even if the
// start dies half-way (so that CrashCleanup can free them).
func (nd *Node) startTracked() (finished bool, panicVal interface{}, panicStack string) {
	t := nd.Net.C.W.Do(nd.Tag, nd.Name+".start", nd.start)
	if nd.Net.GenBlock == nil && nd.BC != nil {
		nd.Net.GenBlock = nd.BC.Genesis()
	}
	return t.Finished, t.Panic, t.PanicStack
}

func describeEv(f *firedCrash) string {
	s := fmt.Sprintf("%s of %s event #%d (enumerable #%d) %s %s off=%d len=%d", cvNames[f.Variant], f.Phase, f.Raw, f.Enum, f.Ev.Kind, f.Ev.Path, f.Ev.Off, f.Ev.Len)
	if f.Variant >= cvTorn1 {
		s += fmt.Sprintf(" torn after %d bytes", f.Torn)
	}
	return s
}
