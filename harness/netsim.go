package harness

// netsim: one full chain node (nodesim stack) plus the REAL network.ProtocolManager, the
// REAL p2p.DiscoverManager on an empty simulated directory and - for the byte level - the
// REAL p2p.Server event loop and p2p.Peer. There is no TCP listener and no socket; remote
// parties are scripted:
//
//   message level: simPeer implements p2p.IPeer and is announced to the ProtocolManager
//                  through the event bus exactly as Server.run does (subscribe.AddNewPeer).
//   byte level:    simConn (netsim_conn.go) implements net.Conn and is handed to the real
//                  Server.HandleConn -> p2p.NewPeer -> DoHandshake -> Server.run -> Peer.Run.
//
// All node-side code runs in tasks tagged with the node (tag 1); scripted parties are world
// code or tasks with tag 0.

import (
	"crypto/ecdsa"
	crand "crypto/rand"
	"errors"
	"fmt"
	"io"
	"sort"
	"sync"
	"time"

	"github.com/LemoFoundationLtd/lemochain-core/chain/deputynode"
	"github.com/LemoFoundationLtd/lemochain-core/chain/params"
	"github.com/LemoFoundationLtd/lemochain-core/chain/types"
	"github.com/LemoFoundationLtd/lemochain-core/common"
	"github.com/LemoFoundationLtd/lemochain-core/common/subscribe"
	"github.com/LemoFoundationLtd/lemochain-core/network"
	"github.com/LemoFoundationLtd/lemochain-core/network/p2p"
	"github.com/LemoFoundationLtd/lemochain-core/store"

	"verif/simrt"
)

// ---------- deterministic crypto/rand ----------

// detRand replaces crypto/rand.Reader for one run (ECIES handshake nonces and ephemeral
// keys, peerSet.BestToSync). The stream is a splitmix64 sequence seeded by the run seed, so
// it is identical on replay and is not disturbed by tape shrinking. Only token holders
// call it (repo code reads randomness inside instrumented functions).
type detRand struct {
	mu sync.Mutex
	s  uint64
}

func (r *detRand) Read(p []byte) (int, error) {
	r.mu.Lock()
	defer r.mu.Unlock()
	for i := range p {
		r.s += 0x9e3779b97f4a7c15
		z := r.s
		z = (z ^ (z >> 30)) * 0xbf58476d1ce4e5b9
		z = (z ^ (z >> 27)) * 0x94d049bb133111eb
		p[i] = byte((z ^ (z >> 31)) >> 24)
	}
	return len(p), nil
}

// installDetRand swaps crypto/rand.Reader; the returned function restores it.
func installDetRand(c *Ctx) func() {
	old := crand.Reader
	crand.Reader = &detRand{s: simrt.Mix(c.T.Seed, "crypto/rand", 1)}
	return func() { crand.Reader = old }
}

// ---------- node with protocol manager ----------

type NetNode struct {
	*Node
	DataDir string
	Disc    *p2p.DiscoverManager
	PM      *network.ProtocolManager
	Srv     *p2p.Server
	SelfID  p2p.NodeID
	Sink    *peerSink
	netUp   bool
	// StateLocked: a read of the node's state from the world blocked for good
	StateLocked bool
}

func (n *Net) AddNetNode(tag int, name string, self *keyInfo) *NetNode {
	nd := n.AddNode(tag, name, self)
	return &NetNode{Node: nd, DataDir: fmt.Sprintf("/sim/%s", name), Sink: &peerSink{}}
}

// startNet builds the node the way main/node.New + Node.Start do, minus RPC, miner and the
// TCP listener/dialer. It must run in a task of the node.
func (nn *NetNode) startNet(withServer bool, connLimit int) {
	nn.Node.start()
	nn.Disc = p2p.NewDiscoverManager(nn.DataDir)
	copy(nn.SelfID[:], deputynode.GetSelfNodeID())
	nn.PM = network.NewProtocolManager(nn.Net.P.ChainID, nn.SelfID, nn.BC, nn.DM, nn.Pool, nn.BC.TxGuard(), nn.Disc, connLimit, params.VersionUint(), nn.DataDir)
	if withServer {
		nn.Srv = p2p.NewServer(p2p.Config{Name: nn.Name, PrivateKey: nn.Self.Key, Port: 7001}, nn.Disc)
		// Server.Start without startListening / dial loop:
		nn.Srv.VerifMarkRunning()
		if err := nn.Disc.Start(); err != nil {
			panic("discover start: " + err.Error())
		}
		simrt.Go(0, nn.Srv.VerifRun)
	} else {
		if err := nn.Disc.Start(); err != nil {
			panic("discover start: " + err.Error())
		}
	}
	nn.PM.Start()
	nn.netUp = true
}

func (nn *NetNode) StartNet(withServer bool, connLimit int) bool {
	t := nn.Net.C.W.Do(nn.Tag, nn.Name+".startnet", func() { nn.startNet(withServer, connLimit) })
	if nn.Net.GenBlock == nil && nn.BC != nil {
		nn.Net.GenBlock = nn.BC.Genesis()
	}
	return t.Finished
}

// StopNet is the clean shutdown (main/node.Stop order: server, protocol manager, chain, db).
// It reports whether the protocol manager's loops all ended.
func (nn *NetNode) StopNet() bool {
	ok := true
	if nn.netUp {
		t := nn.Net.C.W.Do(nn.Tag, nn.Name+".stopnet", func() {
			if nn.Srv != nil {
				nn.Srv.VerifQuit()
			}
			nn.PM.Stop()
			nn.Disc.Stop()
		})
		ok = t.Finished
		nn.netUp = false
	}
	nn.StopNode()
	return ok
}

// Release un-pins the node's memory (see network.VerifRelease). It must be the LAST thing a
// scenario does - no Settle / Sleep after it - because a node task that still ran would
// find nil fields.
func (nn *NetNode) Release() {
	if nn.PM != nil {
		nn.PM.VerifRelease()
	}
	releaseStore(nn.DB)
	nn.PM, nn.Srv, nn.Disc = nil, nil, nil
	nn.DB, nn.BC, nn.Eng, nn.DM, nn.Pool = nil, nil, nil, nil, nil
}

// CloseFactory releases the factory's store (its background loops would otherwise stay
// blocked until the end of the process).
func (f *Factory) CloseFactory() {
	f.Net.C.W.Do(f.Tag, "factory.close", func() {
		if f.DB != nil {
			f.DB.Close()
		}
	})
}

// releaseStore drops the two 256 Ki-slot channels (4 MiB) of a CLOSED store. Whatever still
// points at the store object after a run (a goroutine of the node that can never return, a
// timer that will never fire) then pins a few kilobytes instead of megabytes.
func releaseStore(db *store.ChainDatabase) {
	if db == nil || db.Beansdb == nil || db.Beansdb.Queue == nil {
		return
	}
	q := db.Beansdb.Queue
	q.DoneChan = nil
	if q.SyncFileDB != nil {
		q.SyncFileDB.DoneChan, q.SyncFileDB.WriteChan = nil, nil
	}
}

// ---------- reading node state from the world ----------

// nodeView is a snapshot of the node state the oracles look at.
type nodeView struct {
	Cur, Sta  *types.Block
	Has       map[common.Hash]bool // for the hashes asked
	Cached    map[common.Hash]bool // content of the out-of-order block cache
	ConfCache int
	Peers     int
	Connected int
	Pool      []*types.Transaction
}

// view reads the node's state in a task of its own (tag 0), so that a lock which a node
// task never releases cannot hang the world: ok=false means the read blocked for good
// (further calls return at once). It is called at quiescent points only.
func (nn *NetNode) view(hashes ...common.Hash) (*nodeView, bool) {
	if nn.StateLocked || nn.BC == nil {
		return nil, false
	}
	v := &nodeView{Has: map[common.Hash]bool{}, Cached: map[common.Hash]bool{}}
	t := nn.Net.C.W.Do(0, "world.view", func() {
		v.Cur, v.Sta = nn.BC.CurrentBlock(), nn.BC.StableBlock()
		for _, h := range hashes {
			v.Has[h] = nn.BC.HasBlock(h)
		}
		nn.PM.VerifBlockCache().Iterate(func(b *types.Block) bool { v.Cached[b.Hash()] = true; return false })
		v.ConfCache = nn.PM.VerifConfirmCacheSize()
		v.Peers = len(nn.PM.VerifPeerIDs())
		if nn.Srv != nil {
			v.Connected = nn.Srv.VerifConnected()
		}
		slots, _, _ := nn.Pool.VerifDump()
		for _, tx := range slots {
			if tx != nil {
				v.Pool = append(v.Pool, tx)
			}
		}
	})
	if !t.Finished {
		// a node task holds one of the locks across a wait that only time ends (a network write with a
		// deadline, a timer): that is a stall, not a deadlock. Give simulated time; only a read that is still
		// blocked two simulated minutes later counts as locked for good.
		for i := 0; i < 120 && !t.Finished; i++ {
			nn.Net.C.W.Sleep(time.Second)
		}
		if !t.Finished {
			nn.StateLocked = true
			return nil, false
		}
		nn.Net.C.Probe("state_read_stalled_by_a_timed_wait")
	}
	return v, true
}

// ---------- message level: scripted peer ----------

var errPeerClosed = errors.New("simpeer: connection closed")

// peerOut is one message the node wrote to a scripted peer.
type peerOut struct {
	Peer    *simPeer
	Code    p2p.MsgCode
	Payload []byte
	At      time.Time
}

// peerSink collects everything the node writes to scripted peers; the world drains it
// after Settle (no other task runs then).
type peerSink struct {
	mu  sync.Mutex
	out []peerOut
}

func (s *peerSink) add(o peerOut) {
	s.mu.Lock()
	s.out = append(s.out, o)
	s.mu.Unlock()
}

func (s *peerSink) drain() []peerOut {
	s.mu.Lock()
	o := s.out
	s.out = nil
	s.mu.Unlock()
	return o
}

// simPeer implements p2p.IPeer. ReadMsg blocks on a queue the world feeds; WriteMsg hands
// the encoded payload to the world's sink. Close behaves like p2p.Peer.Close followed by
// Server.run's delete event (subscribe.DeletePeer), sent from a separate node task.
type simPeer struct {
	Idx     int
	Name    string
	ID      p2p.NodeID
	sink    *peerSink
	nodeTag int

	mu           sync.Mutex
	inbox        []*p2p.Msg
	notify       chan struct{}
	closeCh      chan struct{}
	closed       bool
	status       int32
	Consumed     int
	ClosedByNode bool
}

func newSimPeer(idx int, name string, id []byte, sink *peerSink, nodeTag int) *simPeer {
	p := &simPeer{Idx: idx, Name: name, sink: sink, nodeTag: nodeTag, notify: make(chan struct{}, 1), closeCh: make(chan struct{})}
	copy(p.ID[:], id)
	return p
}

func (p *simPeer) ReadMsg() (*p2p.Msg, error) {
	for {
		p.mu.Lock()
		if p.closed {
			p.mu.Unlock()
			simrt.Yield(0)
			return nil, io.EOF
		}
		if len(p.inbox) > 0 {
			m := p.inbox[0]
			p.inbox = p.inbox[1:]
			p.Consumed++
			p.mu.Unlock()
			simrt.Yield(0) // a reader woken natively parks here until it is given the token
			m.ReceivedAt = time.Now()
			return m, nil
		}
		p.mu.Unlock()
		select {
		case <-p.notify:
		case <-p.closeCh:
		}
	}
}

func (p *simPeer) WriteMsg(code p2p.MsgCode, msg []byte) error {
	p.mu.Lock()
	closed := p.closed
	p.mu.Unlock()
	if closed {
		return errPeerClosed
	}
	cp := make([]byte, len(msg))
	copy(cp, msg)
	p.sink.add(peerOut{Peer: p, Code: code, Payload: cp, At: time.Now()})
	simrt.Log("net.out", int64(p.Idx), int64(code), "")
	return nil
}

func (p *simPeer) SetWriteDeadline(time.Duration) {}
func (p *simPeer) RNodeID() *p2p.NodeID           { return &p.ID }
func (p *simPeer) RAddress() string               { return fmt.Sprintf("10.0.0.%d:7001", 10+p.Idx) }
func (p *simPeer) LAddress() string               { return "10.0.0.1:7001" }
func (p *simPeer) Run() error                     { <-p.closeCh; simrt.Yield(0); return nil }
func (p *simPeer) SetStatus(status int32)         { p.status = status }
func (p *simPeer) NeedReConnect() bool            { return p.status == p2p.StatusNormal }

func (p *simPeer) DoHandshake(prv *ecdsa.PrivateKey, nodeID *p2p.NodeID) error { return nil }

// Close is called by node code (ProtocolManager / peerSet).
func (p *simPeer) Close() {
	if p.shut() {
		p.ClosedByNode = true
		simrt.Log("net.close", int64(p.Idx), 0, "")
		simrt.Go(0, func() { subscribe.Send(subscribe.DeletePeer, p2p.IPeer(p)) })
	}
}

func (p *simPeer) shut() bool {
	p.mu.Lock()
	defer p.mu.Unlock()
	if p.closed {
		return false
	}
	p.closed = true
	close(p.closeCh)
	return true
}

func (p *simPeer) IsClosed() bool {
	p.mu.Lock()
	defer p.mu.Unlock()
	return p.closed
}

// push queues a message for the node (world side). It never blocks.
func (p *simPeer) push(code p2p.MsgCode, payload []byte) {
	p.mu.Lock()
	p.inbox = append(p.inbox, &p2p.Msg{Code: code, Content: payload})
	p.mu.Unlock()
	select {
	case p.notify <- struct{}{}:
	default:
	}
}

func (p *simPeer) pending() int {
	p.mu.Lock()
	defer p.mu.Unlock()
	return len(p.inbox)
}

// announce tells the protocol manager about the new connection the way Server.run does.
func (nn *NetNode) announce(p *simPeer) {
	nn.Net.C.W.Spawn(nn.Tag, "srv.addpeer."+p.Name, func() { subscribe.Send(subscribe.AddNewPeer, p2p.IPeer(p)) })
}

// remoteClose: the remote side drops the connection (readLoop would see EOF and close).
func (nn *NetNode) remoteClose(p *simPeer) {
	nn.Net.C.W.Spawn(nn.Tag, "srv.delpeer."+p.Name, func() { p.Close() })
}

// ---------- wire payload helpers ----------

func mustRlp(v interface{}) []byte {
	b, err := rlpEncode(v)
	if err != nil {
		panic(fmt.Sprintf("rlp encode %T: %v", v, err))
	}
	return b
}

func encBlocks(bs ...*types.Block) []byte {
	l := types.Blocks(bs)
	return mustRlp(&l)
}

func encHandshake(chainID uint16, genesis common.Hash, st network.LatestStatus) []byte {
	return mustRlp(&network.ProtocolHandshake{ChainID: chainID, GenesisHash: genesis, NodeVersion: params.VersionUint(), LatestStatus: st})
}

// withConfirms returns a wire copy of b carrying exactly the given confirmations.
func withConfirms(b *types.Block, sigs []types.SignData) *types.Block {
	cp := wireCopyBlock(b)
	cp.Confirms = append([]types.SignData(nil), sigs...)
	return cp
}

func sortedNodeIDs(ids []p2p.NodeID) []string {
	out := make([]string, len(ids))
	for i, id := range ids {
		out[i] = fmt.Sprintf("%x", id[:4])
	}
	sort.Strings(out)
	return out
}
