package harness

import (
	"github.com/LemoFoundationLtd/lemochain-core/chain/params"
	"github.com/LemoFoundationLtd/lemochain-core/chain/txpool"
	"github.com/LemoFoundationLtd/lemochain-core/store"
	"github.com/LemoFoundationLtd/lemochain-core/common/log"
)

func setupLogging() {
	log.Setup(log.LevelCrit, false, false)
}

// resetGlobals restores process-global knobs at the start of every run.
func resetGlobals() {
	txpool.VerifSetDefaultPoolCap(128)
	params.TermDuration = 1000000
	params.InterimDuration = 1000
	params.RewardCheckHeight = 100000
	store.VerifSetMaxCandidateCount(20)
}
