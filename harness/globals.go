package harness

import (
	"github.com/LemoFoundationLtd/lemochain-core/chain/params"
	"github.com/LemoFoundationLtd/lemochain-core/chain/txpool"
	"github.com/LemoFoundationLtd/lemochain-core/common"
	"github.com/LemoFoundationLtd/lemochain-core/store"
)


// resetGlobals restores process-global knobs at the start of every run.
func resetGlobals() {
	resetLogCapture()
	txpool.VerifSetDefaultPoolCap(128)
	params.TermDuration = 1000000
	params.InterimDuration = 1000
	params.RewardCheckHeight = 100000
	params.MinCandidateDeposit = common.Lemo2Mo("5000000")
	store.VerifSetMaxCandidateCount(20)
}
