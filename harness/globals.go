package harness

import (
	"github.com/LemoFoundationLtd/lemochain-core/chain/txpool"
	"github.com/LemoFoundationLtd/lemochain-core/common/log"
)

func setupLogging() {
	log.Setup(log.LevelCrit, false, false)
}

// resetGlobals restores process-global knobs at the start of every run.
func resetGlobals() {
	txpool.VerifSetDefaultPoolCap(128)
}
