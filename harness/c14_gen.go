package harness

import (
	"fmt"
	"math/big"

	"github.com/LemoFoundationLtd/lemochain-core/chain/account"
	"github.com/LemoFoundationLtd/lemochain-core/chain/params"
	"github.com/LemoFoundationLtd/lemochain-core/chain/types"
	"github.com/LemoFoundationLtd/lemochain-core/common"
	"github.com/LemoFoundationLtd/lemochain-core/common/crypto"
	"github.com/LemoFoundationLtd/lemochain-core/common/merkle"
	"github.com/LemoFoundationLtd/lemochain-core/network"
)

// ---------------------------------------------------------------------------------
// C14 value generators. Every choice is drawn from the tape (label "gen"); value 0 of a
// draw is always the most boring shape so that shrinking converges on small objects.
// ---------------------------------------------------------------------------------

type c14Gen struct {
	c *Ctx
	// utf8Only restricts generated Go strings to valid UTF-8 (RLP strings are byte strings;
	// JSON carried strings are not).
	utf8Only bool
}

func (g *c14Gen) n(k int) int { return g.c.Draw("gen", k) }

func (g *c14Gen) rawBytes(n int) []byte {
	b := make([]byte, n)
	for i := range b {
		b[i] = byte(g.n(256))
	}
	return b
}

// bytes: nil, empty, one byte below/above 0x80, the 55/56 length boundary, random, large.
func (g *c14Gen) bytes(max int) []byte {
	switch g.n(10) {
	case 0:
		return nil
	case 1:
		return []byte{}
	case 2:
		return []byte{byte(g.n(0x80))}
	case 3:
		return []byte{byte(0x80 + g.n(0x80))}
	case 4:
		return g.rawBytes(55)
	case 5:
		return g.rawBytes(56)
	case 6:
		if max >= 300 {
			return g.rawBytes(256 + g.n(64))
		}
	case 7:
		if max >= 70000 && g.n(8) == 0 {
			b := make([]byte, 65536+g.n(16))
			for i := 0; i < len(b); i += 97 {
				b[i] = byte(i)
			}
			return b
		}
	}
	if max > 40 {
		max = 40
	}
	return g.rawBytes(1 + g.n(max))
}

var c14Words = []string{"", "a", "lemo", "isCandidate", "true", "127.0.0.1", "7001", "name", "symbol", "freeze", "héllo wörld", "节点", "x-y.z_0", "\u0000", "\x7f"}

func (g *c14Gen) str(max int) string {
	switch k := g.n(8); {
	case k < 4:
		return c14Words[g.n(len(c14Words))]
	case k == 4:
		s := ""
		for i, n := 0, 1+g.n(4); i < n; i++ {
			s += c14Words[g.n(len(c14Words))]
		}
		return s
	case k == 5:
		n := 56 + g.n(10)
		b := make([]byte, n)
		for i := range b {
			b[i] = byte('a' + g.n(26))
		}
		return string(b)
	case k == 6 && !g.utf8Only:
		return string(g.bytes(max)) // arbitrary bytes, possibly not UTF-8
	}
	if max > 24 {
		max = 24
	}
	b := make([]byte, 1+g.n(max))
	for i := range b {
		b[i] = byte(0x20 + g.n(0x5f))
	}
	return string(b)
}

func (g *c14Gen) big(allowNil bool) *big.Int {
	switch g.n(12) {
	case 0:
		return new(big.Int)
	case 1:
		return big.NewInt(1)
	case 2:
		return big.NewInt(127)
	case 3:
		return big.NewInt(128)
	case 4:
		return big.NewInt(255)
	case 5:
		return big.NewInt(256)
	case 6:
		return new(big.Int).SetUint64(^uint64(0))
	case 7:
		return new(big.Int).Lsh(big.NewInt(1), 64)
	case 8:
		x := new(big.Int).Lsh(big.NewInt(1), 256)
		return x.Sub(x, big.NewInt(1))
	case 9:
		if allowNil {
			return nil
		}
	case 10:
		return common.Lemo2Mo(fmt.Sprint(1 + g.n(1000000)))
	}
	return new(big.Int).SetBytes(g.rawBytes(1 + g.n(33)))
}

func (g *c14Gen) u64() uint64 {
	switch g.n(10) {
	case 0:
		return 0
	case 1:
		return 1
	case 2:
		return 127
	case 3:
		return 128
	case 4:
		return 255
	case 5:
		return 256
	case 6:
		return 1<<32 - 1
	case 7:
		return 1 << 32
	case 8:
		return ^uint64(0)
	}
	return new(big.Int).SetBytes(g.rawBytes(1 + g.n(8))).Uint64()
}

func (g *c14Gen) u32() uint32 { return uint32(g.u64()) }
func (g *c14Gen) u16() uint16 { return uint16(g.u64()) }

func (g *c14Gen) hash() common.Hash {
	switch g.n(6) {
	case 0:
		return common.Hash{}
	case 1:
		return merkle.EmptyTrieHash
	case 2:
		var h common.Hash
		h[31] = byte(1 + g.n(255))
		return h
	case 3:
		var h common.Hash
		copy(h[1+g.n(20):], g.rawBytes(11))
		return h
	}
	return common.BytesToHash(g.rawBytes(32))
}

func (g *c14Gen) addr() common.Address {
	switch g.n(7) {
	case 0:
		return common.Address{}
	case 1:
		var a common.Address
		a[19] = byte(1 + g.n(255))
		return a
	case 2:
		var a common.Address
		copy(a[1+g.n(12):], g.rawBytes(7))
		return a
	case 3:
		a := common.BytesToAddress(g.rawBytes(20))
		a[0] = 0x01
		return a
	case 4:
		return detKey(fmt.Sprintf("c14user%d", g.n(4))).Addr
	case 5:
		// bytes XOR to zero: checksum byte 0
		a := common.BytesToAddress(g.rawBytes(20))
		x := byte(0)
		for _, b := range a[:19] {
			x ^= b
		}
		a[19] = x
		return a
	}
	return common.BytesToAddress(g.rawBytes(20))
}

func (g *c14Gen) addrPtr() *common.Address {
	if g.n(3) == 0 {
		return nil
	}
	a := g.addr()
	return &a
}

func (g *c14Gen) profile() types.Profile {
	switch g.n(5) {
	case 0:
		return nil
	case 1:
		return types.Profile{}
	}
	p := types.Profile{}
	for i, n := 0, 1+g.n(7); i < n; i++ {
		p[g.str(20)] = g.str(130)
	}
	return p
}

// ---------- headers, deputy nodes ----------

func (g *c14Gen) root() common.Hash {
	switch g.n(3) {
	case 0:
		return merkle.EmptyTrieHash // elided on the wire
	case 1:
		return common.Hash{}
	}
	return g.hash()
}

func (g *c14Gen) header(signer *keyInfo) *types.Header {
	h := &types.Header{
		ParentHash: g.hash(), MinerAddress: g.addr(), VersionRoot: g.hash(), TxRoot: g.root(), LogRoot: g.root(),
		Height: g.u32(), GasLimit: g.u64(), GasUsed: g.u64(), Time: g.u32(),
	}
	switch g.n(3) {
	case 1:
		r := g.hash()
		h.DeputyRoot = r[:]
	case 2:
		h.DeputyRoot = g.bytes(40)
	}
	if g.n(2) == 1 {
		h.Extra = g.str(256)
	}
	switch g.n(4) {
	case 0, 1:
		if signer != nil {
			hash := h.Hash()
			sig, err := crypto.Sign(hash[:], signer.Key)
			if err != nil {
				panic(err)
			}
			h.SignData = sig
		}
	case 2:
		h.SignData = g.bytes(70)
	}
	return h
}

func (g *c14Gen) deputyNode(rank uint32) *types.DeputyNode {
	d := &types.DeputyNode{MinerAddress: g.addr(), Rank: rank, Votes: g.big(true)}
	switch g.n(3) {
	case 0:
		d.NodeID = detKey(fmt.Sprintf("c14node%d", g.n(5))).NodeID
	case 1:
		d.NodeID = g.bytes(64)
	default:
		d.NodeID = g.rawBytes(64)
	}
	if g.n(4) == 0 {
		d.Rank = g.u32()
	}
	return d
}

// ---------- transactions ----------

var c14TxTypes = []uint16{params.OrdinaryTx, params.CreateContractTx, params.VoteTx, params.RegisterTx, params.CreateAssetTx, params.IssueAssetTx,
	params.ReplenishAssetTx, params.ModifyAssetTx, params.TransferAssetTx, params.ModifySignersTx, params.BoxTx}

// txFields draws raw transaction fields (unsigned).
func (g *c14Gen) txFields(forJSON bool) types.VerifRawTx {
	old := g.utf8Only
	if forJSON {
		g.utf8Only = g.utf8Only || g.n(16) != 15 // JSON-carried strings: mostly UTF-8, sometimes raw bytes
	}
	defer func() { g.utf8Only = old }()
	f := types.VerifRawTx{
		Type: c14TxTypes[g.n(len(c14TxTypes)-1)], Version: types.TxVersion, ChainID: g.u16(), From: g.addr(),
		GasPayer: g.addrPtr(), Recipient: g.addrPtr(), GasPrice: g.big(false), GasLimit: g.u64(), GasUsed: g.u64(),
		Amount: g.big(false), Data: g.bytes(70000), Expiration: g.u64(),
	}
	if g.n(3) == 2 {
		// toName must match ^[\w\-.]+$ in a valid transaction; any UTF-8 text here, raw bytes only in Message
		u := g.utf8Only
		g.utf8Only = true
		f.RecipientName = g.str(100)
		g.utf8Only = u
	}
	if g.n(3) == 2 {
		f.Message = g.str(1024)
	}
	if g.n(12) == 11 {
		f.Type = params.BoxTx // box type whose data is not a box payload
	}
	if !forJSON && g.n(8) == 0 {
		f.Version = uint8(g.n(128))
	}
	if g.n(8) == 0 {
		f.Type = g.u16()
	}
	f.Sigs = [][]byte{}
	f.GasPayerSigs = [][]byte{}
	return f
}

// tx draws a transaction and signs it with 0..3 sender keys and 0..2 gas payer keys using
// the real signers. Returns the expected sender keys for the signer oracle.
func (g *c14Gen) tx(forJSON bool) *types.Transaction {
	f := g.txFields(forJSON)
	tx := types.VerifNewRawTx(f)
	reimb := f.GasPayer != nil && g.n(2) == 1
	nsig := g.n(4)
	for i := 0; i < nsig; i++ {
		k := detKey(fmt.Sprintf("c14user%d", g.n(4)))
		var s types.Signer = types.MakeSigner()
		if reimb {
			s = types.MakeReimbursementTxSigner()
		}
		h := s.Hash(tx)
		sig, err := crypto.Sign(h[:], k.Key)
		if err != nil {
			panic(err)
		}
		f.Sigs = append(f.Sigs, sig)
		tx = types.VerifNewRawTx(f)
	}
	if !forJSON && g.n(10) == 0 {
		f.Sigs = append(f.Sigs, g.bytes(70)) // junk signature of any length
		tx = types.VerifNewRawTx(f)
	}
	if reimb {
		for i, n := 0, g.n(3); i < n; i++ {
			k := detKey(fmt.Sprintf("c14user%d", g.n(4)))
			h := types.MakeGasPayerSigner().Hash(tx)
			sig, err := crypto.Sign(h[:], k.Key)
			if err != nil {
				panic(err)
			}
			f.GasPayerSigs = append(f.GasPayerSigs, sig)
			tx = types.VerifNewRawTx(f)
		}
	}
	return tx
}

// boxTx wraps 0..3 generated transactions (JSON inside Data).
func (g *c14Gen) boxTx() (*types.Transaction, types.Transactions) {
	subs := types.Transactions{} // an empty box is an empty list, as RunBoxTxs builds it (nil would marshal as JSON null)
	for i, n := 0, g.n(4); i < n; i++ {
		subs = append(subs, g.tx(true))
	}
	data, err := types.MarshalBoxData(subs)
	if err != nil {
		panic(fmt.Sprintf("MarshalBoxData: %v", err))
	}
	f := g.txFields(false)
	f.Type = params.BoxTx
	f.Version = types.TxVersion
	f.Recipient = nil
	f.Data = data
	k := detKey("c14user0")
	tx := types.VerifNewRawTx(f)
	h := types.MakeSigner().Hash(tx)
	sig, _ := crypto.Sign(h[:], k.Key)
	f.Sigs = [][]byte{sig}
	return types.VerifNewRawTx(f), subs
}

// ---------- change logs: every type with every new/extra shape ----------

func (g *c14Gen) asset() *types.Asset {
	a := &types.Asset{Category: uint32(1 + g.n(3)), IsDivisible: g.n(2) == 1, AssetCode: g.hash(), Decimal: uint32(g.n(19)),
		TotalSupply: g.big(true), IsReplenishable: g.n(2) == 1, Issuer: g.addr(), Profile: g.profile()}
	if g.n(6) == 0 {
		a.Category, a.Decimal = g.u32(), g.u32()
	}
	return a
}

func (g *c14Gen) event() *types.Event {
	e := &types.Event{Address: g.addr(), Data: g.bytes(300)}
	switch g.n(3) {
	case 1:
		e.Topics = []common.Hash{}
	case 2:
		for i, n := 0, 1+g.n(4); i < n; i++ {
			e.Topics = append(e.Topics, g.hash())
		}
	}
	// derived, non-consensus fields: must not influence encoding or hash
	e.TxHash, e.TxIndex, e.Index, e.Removed = g.hash(), uint(g.n(5)), uint(g.n(5)), g.n(2) == 1
	return e
}

func (g *c14Gen) signers() types.Signers {
	switch g.n(4) {
	case 0:
		return nil
	case 1:
		return types.Signers{}
	}
	var s types.Signers
	for i, n := 0, 1+g.n(4); i < n; i++ {
		s = append(s, types.SignAccount{Address: g.addr(), Weight: uint8(g.u64())})
	}
	return s
}

func (g *c14Gen) bigVal() big.Int { return *g.big(false) }

const c14FirstLog, c14LastLog = account.BalanceLog, account.SignerLog

// changeLog draws a change log of type t (0 = draw the type too). OldVal gets the shape the
// real constructors give it; it is "used for undo, no need to save or send" and must not
// influence encoding or hash.
func (g *c14Gen) changeLog(t types.ChangeLogType) *types.ChangeLog {
	if t == 0 {
		t = c14FirstLog + types.ChangeLogType(g.n(int(c14LastLog-c14FirstLog)+1))
	}
	l := &types.ChangeLog{LogType: t, Address: g.addr(), Version: g.u32()}
	withOld := g.n(2) == 1
	switch t {
	case account.BalanceLog, account.VotesLog:
		l.NewVal = g.bigVal()
		if withOld {
			l.OldVal = g.bigVal()
		}
	case account.StorageLog:
		l.NewVal, l.Extra = g.bytes(300), g.hash()
		if withOld {
			l.OldVal = g.bytes(40)
		}
	case account.StorageRootLog, account.AssetCodeRootLog, account.AssetIdRootLog, account.EquityRootLog:
		l.NewVal = g.hash()
		if withOld {
			l.OldVal = g.hash()
		}
	case account.AssetCodeLog:
		l.Extra = g.hash()
		switch g.n(4) {
		case 0:
			l.NewVal = (*types.Asset)(nil) // asset.Clone() of a nil asset
		default:
			l.NewVal = g.asset()
		}
		if withOld {
			l.OldVal = g.asset()
		}
	case account.AssetCodeStateLog:
		l.NewVal = g.str(130)
		l.Extra = &account.ProfileChangeLogExtra{UUID: g.hash(), Key: g.str(20)}
		if withOld {
			l.OldVal = g.str(20)
		}
	case account.AssetCodeTotalSupplyLog:
		l.NewVal, l.Extra = g.bigVal(), g.hash()
		if withOld {
			l.OldVal = g.bigVal()
		}
	case account.AssetIdLog:
		l.NewVal, l.Extra = g.str(300), g.hash()
		if withOld {
			l.OldVal = g.str(20)
		}
	case account.EquityLog:
		l.Extra = g.hash()
		if g.n(4) != 0 {
			l.NewVal = &types.AssetEquity{AssetCode: g.hash(), AssetId: g.hash(), Equity: g.big(true)}
		}
		if withOld {
			l.OldVal = &types.AssetEquity{AssetCode: g.hash(), AssetId: g.hash(), Equity: g.big(false)}
		}
	case account.CandidateLog:
		p := g.profile()
		l.NewVal = &p
		if withOld {
			o := g.profile()
			l.OldVal = &o
		}
	case account.CandidateStateLog:
		l.NewVal, l.Extra = g.str(130), g.str(20)
		if withOld {
			l.OldVal = g.str(20)
		}
	case account.CodeLog:
		l.NewVal = types.Code(g.bytes(70000))
	case account.AddEventLog:
		l.NewVal = g.event()
	case account.SuicideLog:
		if withOld {
			l.OldVal = &types.AccountData{Balance: g.big(false), CodeHash: g.hash(), StorageRoot: g.hash()}
		}
	case account.VoteForLog:
		l.NewVal = g.addr()
		if withOld {
			l.OldVal = g.addr()
		}
	case account.SignerLog:
		l.NewVal = g.signers()
		if withOld {
			l.OldVal = g.signers()
		}
	}
	return l
}

// ---------- account record ----------

func (g *c14Gen) accountData() *types.AccountData {
	a := &types.AccountData{Address: g.addr(), Balance: g.big(true), CodeHash: g.hash(), StorageRoot: g.hash(), AssetCodeRoot: g.hash(),
		AssetIdRoot: g.hash(), EquityRoot: g.hash(), VoteFor: g.addr(), Signers: g.signers()}
	a.Candidate.Votes = g.big(true)
	a.Candidate.Profile = g.profile()
	switch g.n(3) {
	case 1:
		a.NewestRecords = map[types.ChangeLogType]types.VersionRecord{}
	case 2:
		a.NewestRecords = map[types.ChangeLogType]types.VersionRecord{}
		for i, n := 0, 1+g.n(8); i < n; i++ {
			a.NewestRecords[types.ChangeLogType(1+g.n(25))] = types.VersionRecord{Version: g.u32(), Height: g.u32()}
		}
	}
	return a
}

// ---------- blocks ----------

func (g *c14Gen) signData() types.SignData {
	if g.n(3) == 0 {
		var h common.Hash
		sig, _ := crypto.Sign(h[:], detKey(fmt.Sprintf("c14node%d", g.n(5))).Key)
		return types.BytesToSignData(sig)
	}
	return types.BytesToSignData(g.rawBytes(65))
}

func (g *c14Gen) block() *types.Block {
	b := &types.Block{Header: g.header(detKey(fmt.Sprintf("c14node%d", g.n(5))))}
	for i, n := 0, g.n(4); i < n; i++ {
		if g.n(4) == 0 {
			t, _ := g.boxTx()
			b.Txs = append(b.Txs, t)
		} else {
			b.Txs = append(b.Txs, g.tx(false))
		}
	}
	for i, n := 0, g.n(5); i < n; i++ {
		b.ChangeLogs = append(b.ChangeLogs, g.changeLog(0))
	}
	for i, n := 0, g.n(4); i < n; i++ {
		b.Confirms = append(b.Confirms, g.signData())
	}
	for i, n := 0, g.n(4); i < n; i++ {
		b.DeputyNodes = append(b.DeputyNodes, g.deputyNode(uint32(i)))
	}
	if g.n(3) == 0 {
		// a block whose header roots are the real roots of its body
		b.Header.TxRoot = b.Txs.MerkleRootSha()
		b.Header.LogRoot = b.ChangeLogs.MerkleRootSha()
	}
	return b
}

// ---------- network messages ----------

func (g *c14Gen) netMsg() (name string, v interface{}) {
	switch g.n(11) {
	case 0:
		return "ProtocolHandshake", &network.ProtocolHandshake{ChainID: g.u16(), GenesisHash: g.hash(), NodeVersion: g.u32(),
			LatestStatus: network.LatestStatus{CurHeight: g.u32(), CurHash: g.hash(), StaHeight: g.u32(), StaHash: g.hash()}}
	case 1:
		return "BlockConfirmData", &network.BlockConfirmData{Hash: g.hash(), Height: g.u32(), SignInfo: g.signData()}
	case 2:
		m := &network.BlockConfirms{Height: g.u32(), Hash: g.hash()}
		for i, n := 0, g.n(4); i < n; i++ {
			m.Pack = append(m.Pack, g.signData())
		}
		return "BlockConfirms", m
	case 3:
		return "GetConfirmInfo", &network.GetConfirmInfo{Height: g.u32(), Hash: g.hash()}
	case 4:
		return "LatestStatus", &network.LatestStatus{CurHeight: g.u32(), CurHash: g.hash(), StaHeight: g.u32(), StaHash: g.hash()}
	case 5:
		return "GetLatestStatus", &network.GetLatestStatus{Revert: g.u32()}
	case 6:
		return "BlockHashData", &network.BlockHashData{Height: g.u32(), Hash: g.hash()}
	case 7:
		return "GetBlocksData", &network.GetBlocksData{From: g.u32(), To: g.u32()}
	case 8:
		return "GetSingleBlockData", &network.GetSingleBlockData{Hash: g.hash(), Height: g.u32()}
	case 9:
		m := &network.DiscoverResData{Sequence: uint(g.u32())}
		for i, n := 0, g.n(4); i < n; i++ {
			m.Nodes = append(m.Nodes, g.str(80))
		}
		return "DiscoverResData", m
	}
	return "DiscoverReqData", &network.DiscoverReqData{Sequence: uint(g.u32())}
}
