package harness

import (
	"fmt"
	"sort"
	"strings"

	"github.com/LemoFoundationLtd/lemochain-core/chain/types"
	"github.com/LemoFoundationLtd/lemochain-core/common"
)

// C08 workload: a short chain fabricated by the honest miner (factory) with TxGen
// transactions, turned into a list of node inputs ("ops"): block insertions (main chain and
// occasional siblings, with or without carried confirmations), confirmation packets that
// promote 1-4 blocks at once, partial packets, and reads. Ops are grouped into batches; one
// batch is executed back to back by one node task, so the store's background writer may lag
// behind the foreground by several ops.

const (
	opStart = iota
	opInsert
	opConfirm
	opRead
)

var c08OpNames = []string{"start", "insert", "confirm", "read"}

type c08Op struct {
	Kind   int
	Blk    *types.Block // opInsert: as fabricated (copied through the codec per delivery)
	Carry  []types.SignData
	Height uint32 // opConfirm
	Hash   common.Hash
	Sigs   []types.SignData
	Main   bool
	Note   string
}

func (o *c08Op) String() string {
	switch o.Kind {
	case opStart:
		return "start"
	case opInsert:
		return fmt.Sprintf("insert(h=%d %s main=%v carried_confirms=%d txs=%d)", o.Blk.Height(), o.Blk.Hash().Hex()[:10], o.Main, len(o.Carry), len(o.Blk.Txs))
	case opConfirm:
		return fmt.Sprintf("confirm(h=%d %s sigs=%d %s)", o.Height, o.Hash.Hex()[:10], len(o.Sigs), o.Note)
	}
	return "read"
}

// c08Res is what one op returned plus the node's stable/head right after it returned.
type c08Res struct {
	Done    bool
	Verdict string
	Hash    common.Hash
	StableH uint32
	Stable  common.Hash
	HeadH   uint32
	Head    common.Hash
	Read    string
}

func (r c08Res) String() string {
	return fmt.Sprintf("verdict=%q hash=%s stable=%d/%s head=%d/%s", r.Verdict, r.Hash.Hex()[:10], r.StableH, r.Stable.Hex()[:10], r.HeadH, r.Head.Hex()[:10])
}

type c08Workload struct {
	Net      *Net
	F        *Factory
	G        *TxGen
	P        ChainParams
	Main     []*types.Block // main chain, Main[0] = genesis
	Sibs     int
	Ops      []*c08Op
	Batches  [][2]int // [lo,hi) over Ops; Ops[0] (start) is not in a batch
	Universe []common.Address
	Keys     *DumpKeys
	Linear   bool // no sibling blocks: head is determined by the inputs alone
	MaxPromo int  // most blocks promoted by one op (as planned)
	Terms    bool
}

func need2of3(n int) int { return (2*n + 2) / 3 } // ceil(2n/3)

// c08BuildWorkload fabricates the chain and derives the op list. All choices come from the
// streams cfg/gen/tx (seeded per workload).
func c08BuildWorkload(c *Ctx, maxBlocks, maxTxs int, kinds []int, forceTerms bool) *c08Workload {
	terms := forceTerms || c.Draw("cfg", 4) == 0
	p := drawParams(c, terms)
	if terms {
		// keep terms short enough for the few blocks of a workload
		p.TermDuration = uint32(3 + c.Draw("cfg", 4))
		p.InterimDuration = uint32(1 + c.Draw("cfg", 2))
	}
	net := NewNet(c, p)
	f := net.NewFactory(40)
	g := NewTxGen(net, c, "tx")
	w := &c08Workload{Net: net, F: f, G: g, P: p, Terms: terms, Linear: true}
	w.Main = append(w.Main, f.Blocks[net.GenBlock.Hash()])
	type sib struct {
		at  int // index in Main of the block it is a sibling of
		blk *types.Block
	}
	var sibs []sib
	var last *types.Block
	chainRun(c, net, g, f, ChainRunOpts{Kinds: kinds, MaxBlocks: maxBlocks, MaxTxs: maxTxs, Terms: terms, NoDumps: true, NoStableLag: true,
		OnBlock: func(r *BlockRec) bool {
			w.Main = append(w.Main, r.Block)
			last = r.Block
			if len(net.Deputies) > 1 && len(r.Cands) > 0 && c.Draw("gen", 5) == 0 {
				var sub types.Transactions
				for i, tx := range r.Cands {
					if i%2 == 0 {
						sub = append(sub, wireCopyTx(tx))
					}
				}
				a, _, err := f.Mine(r.Deputy, r.Parent, r.Block.Time(), sub, "alt")
				if err == nil && a.Hash() != r.Block.Hash() {
					sibs = append(sibs, sib{len(w.Main) - 1, a})
					w.Linear = false
					w.Sibs++
				}
			}
			return true
		}})
	w.Universe = net.Universe(g, append(append([]*types.Block{}, w.Main...), last)...)
	w.Keys = g.DumpKeys()

	n := len(net.Deputies)
	need := need2of3(n)
	minerRank := func(b *types.Block) int {
		if d := net.DeputyByMiner(b.MinerAddress()); d != nil {
			return d.Rank
		}
		return -1
	}
	// signatures of `cnt` deputies other than the miner, starting at a tape-chosen rank
	others := func(b *types.Block, cnt int) []types.SignData {
		var sigs []types.SignData
		mr := minerRank(b)
		start := c.Draw("gen", n)
		for i := 0; i < n && len(sigs) < cnt; i++ {
			k := (start + i) % n
			if k == mr {
				continue
			}
			sigs = append(sigs, net.Confirm(k, b.Hash()))
		}
		return sigs
	}
	w.Ops = append(w.Ops, &c08Op{Kind: opStart})
	pending := 0 // main blocks inserted and not yet promoted (as planned)
	promote := func(upto int, note string) {
		b := w.Main[upto]
		w.Ops = append(w.Ops, &c08Op{Kind: opConfirm, Height: b.Height(), Hash: b.Hash(), Sigs: others(b, need-1+c.Draw("gen", 2)), Note: note})
	}
	for i := 1; i < len(w.Main); i++ {
		b := w.Main[i]
		var mySib *types.Block
		for _, s := range sibs {
			if s.at == i {
				mySib = s.blk
			}
		}
		sibFirst := mySib != nil && c.Draw("gen", 2) == 0
		if sibFirst {
			w.Ops = append(w.Ops, &c08Op{Kind: opInsert, Blk: mySib})
		}
		op := &c08Op{Kind: opInsert, Blk: b, Main: true}
		if n > 1 && c.Draw("gen", 7) == 0 {
			op.Carry = others(b, need-1) // block arrives with enough confirmations: stable on insert
		}
		w.Ops = append(w.Ops, op)
		if mySib != nil && !sibFirst {
			w.Ops = append(w.Ops, &c08Op{Kind: opInsert, Blk: mySib})
		}
		if n == 1 || op.Carry != nil {
			if pending+1 > w.MaxPromo {
				w.MaxPromo = pending + 1
			}
			pending = 0
		} else {
			pending++
			switch k := c.Draw("gen", 6); {
			case pending >= 4 || k >= 4: // promote everything pending at once
				if pending > w.MaxPromo {
					w.MaxPromo = pending
				}
				promote(i, fmt.Sprintf("promotes %d", pending))
				pending = 0
			case k == 3 && pending >= 2: // promote only up to an inner block
				j := i - 1 - c.Draw("gen", pending-1)
				cnt := pending - (i - j)
				if cnt > w.MaxPromo {
					w.MaxPromo = cnt
				}
				promote(j, fmt.Sprintf("promotes %d (inner)", cnt))
				pending = i - j
			case k == 2 && need-1 > 1: // a packet that is not enough yet
				w.Ops = append(w.Ops, &c08Op{Kind: opConfirm, Height: b.Height(), Hash: b.Hash(), Sigs: others(b, 1+c.Draw("gen", need-2)), Note: "partial"})
			}
		}
		if c.Draw("gen", 4) == 0 {
			w.Ops = append(w.Ops, &c08Op{Kind: opRead})
		}
		if n > 1 && i >= 2 && c.Draw("gen", 12) == 0 {
			// late confirmations for an older block (possibly stable already: rewrites its record)
			ob := w.Main[1+c.Draw("gen", i-1)]
			w.Ops = append(w.Ops, &c08Op{Kind: opConfirm, Height: ob.Height(), Hash: ob.Hash(), Sigs: others(ob, 1+c.Draw("gen", n-1)), Note: "late"})
		}
	}
	if pending > 0 && n > 1 && c.Draw("gen", 4) != 0 {
		if pending > w.MaxPromo {
			w.MaxPromo = pending
		}
		promote(len(w.Main)-1, fmt.Sprintf("promotes %d (final)", pending))
	}
	w.Ops = append(w.Ops, &c08Op{Kind: opRead})
	// batches
	for lo := 1; lo < len(w.Ops); {
		sz := 1
		switch c.Draw("gen", 4) {
		case 2:
			sz = 2
		case 3:
			sz = 3
		}
		hi := lo + sz
		if hi > len(w.Ops) {
			hi = len(w.Ops)
		}
		w.Batches = append(w.Batches, [2]int{lo, hi})
		lo = hi
	}
	return w
}

// c08Apply executes one op on a node. It must run in a task of that node.
func (w *c08Workload) apply(nd *Node, op *c08Op) (r c08Res) {
	switch op.Kind {
	case opInsert:
		b := wireCopyBlock(op.Blk)
		if op.Carry != nil {
			b.Confirms = append([]types.SignData(nil), op.Carry...)
		}
		out, err := nd.Eng.InsertBlock(b)
		r.Verdict = "ok"
		if err != nil {
			r.Verdict = err.Error()
		}
		if out != nil {
			r.Hash = out.Hash()
		}
	case opConfirm:
		err := nd.Eng.InsertConfirms(op.Height, op.Hash, append([]types.SignData(nil), op.Sigs...))
		r.Verdict = "ok"
		if err != nil {
			r.Verdict = err.Error()
		}
	case opRead:
		r.Read = w.read(nd)
		r.Verdict = "ok"
	}
	st := nd.BC.StableBlock()
	hd := nd.BC.CurrentBlock()
	r.StableH, r.Stable, r.HeadH, r.Head = st.Height(), st.Hash(), hd.Height(), hd.Hash()
	r.Done = true
	return r
}

// read is a read-only client: stable block by height and hash, the canonical (persisted)
// account of every user, the candidate list of the stable block.
func (w *c08Workload) read(nd *Node) string {
	var b strings.Builder
	b.WriteString("blocks:")
	st := nd.BC.StableBlock()
	if x, err := nd.DB.GetBlockByHeight(st.Height()); err != nil {
		fmt.Fprintf(&b, "byHeight:%v;", err)
	} else {
		fmt.Fprintf(&b, "byHeight:%s;", x.Hash().Hex()[:10])
	}
	// by hash: the head on linear workloads; with sibling forks the head is not compared between node and twin (which
	// sibling a node follows depends on its own history and memory, e.g. the deputies it has seen mining twice),
	// so the read must not carry it either: the stable block then
	target := nd.BC.CurrentBlock()
	if !w.Linear {
		target = st
	}
	if x, err := nd.DB.GetBlockByHash(target.Hash()); err != nil {
		fmt.Fprintf(&b, "byHash:%v;", err)
	} else {
		fmt.Fprintf(&b, "byHash:%d;", x.Height())
	}
	b.WriteString("|accounts:")
	for _, u := range w.Net.Users {
		acc := nd.BC.AccountManager().GetCanonicalAccount(u.Addr)
		fmt.Fprintf(&b, "%s=%s/%s;", u.Addr.Hex()[:8], acc.GetBalance(), acc.GetVotes())
	}
	b.WriteString("|top-list:")
	for _, cd := range nd.DB.GetCandidatesTop(st.Hash()) {
		fmt.Fprintf(&b, "%s=%s;", cd.Address.Hex()[:8], cd.Total)
	}
	all, _ := nd.DB.GetAllCandidates()
	strs := make([]string, 0, len(all))
	for _, a := range all {
		strs = append(strs, a.Hex()[:8])
	}
	sort.Strings(strs)
	fmt.Fprintf(&b, "|candidate-list:%s", strings.Join(strs, ","))
	return b.String()
}
