package harness

import (
	"fmt"
	"math/big"
	"time"

	"github.com/LemoFoundationLtd/lemochain-core/chain/types"
	"github.com/LemoFoundationLtd/lemochain-core/common"
	"github.com/LemoFoundationLtd/lemochain-core/common/crypto"
)

// C03 Finality. One node under test receives a tape-generated fork tree and a multiset
// of confirmation packets (valid, duplicate, re-encoded, by the miner, by outsiders, for
// unknown blocks, with a wrong height) in arbitrary order, inside block bodies and as
// packets, with clean restarts in between. Invariants are evaluated after every event.

type c03World struct {
	c       *Ctx
	net     *Net
	f       *Factory
	nut     *Node
	fab     []*types.Block          // fabricated blocks in creation order
	parent  map[common.Hash]common.Hash
	height  map[common.Hash]uint32
	deliv   map[common.Hash]bool    // delivered (and not forgotten by a restart)
	stable  *types.Block
	byH     map[uint32]common.Hash  // stable chain as first observed
	n       int
	events  []string
}

func (w *c03World) isAncestorOrSelf(anc, h common.Hash) bool {
	for {
		if h == anc {
			return true
		}
		p, ok := w.parent[h]
		if !ok {
			return false
		}
		h = p
	}
}

func ceil23(n int) int { return (2*n + 2) / 3 }

func (w *c03World) check(ev string) bool {
	c := w.c
	w.events = append(w.events, ev)
	if len(w.events) > 30 {
		w.events = w.events[1:]
	}
	var st, cur *types.Block
	var held *types.Block
	byH := map[uint32]common.Hash{}
	w.nut.Do("observe", func() {
		st = w.nut.BC.StableBlock()
		cur = w.nut.BC.CurrentBlock()
		for h := uint32(0); h <= st.Height(); h++ {
			b, err := w.nut.DB.GetBlockByHeight(h)
			if err != nil || b == nil {
				byH[h] = common.Hash{}
			} else {
				byH[h] = b.Hash()
			}
		}
		held, _ = w.nut.DB.GetBlockByHash(st.Hash())
	})
	if st == nil {
		c.Fail("C03/harness/observe", "could not read the stable block after %s", ev)
		return false
	}
	old := w.stable
	if st.Height() < old.Height() {
		c.Fail("C03/stable/regressed", "stable height went from %d to %d after %s; events: %v", old.Height(), st.Height(), ev, w.events)
		return false
	}
	if st.Hash() != old.Hash() {
		if st.Height() == old.Height() {
			c.Fail("C03/stable/replaced", "stable block at height %d replaced (%s -> %s) after %s; events: %v", st.Height(), old.Hash().Hex()[:10], st.Hash().Hex()[:10], ev, w.events)
			return false
		}
		if !w.isAncestorOrSelf(old.Hash(), st.Hash()) {
			c.Fail("C03/stable/forked", "new stable block %d is not a descendant of the previous stable block %d after %s; events: %v", st.Height(), old.Height(), ev, w.events)
			return false
		}
		// threshold: distinct deputies of the term, including the miner
		signers := map[string]bool{}
		outsiders, dups := 0, 0
		if id, err := st.SignerNodeID(); err == nil {
			if w.net.DeputyByNodeID(id) != nil {
				signers[string(id)] = true
			}
		}
		confirms := st.Confirms
		if held != nil {
			confirms = held.Confirms
		}
		for _, sig := range confirms {
			id, err := sig.RecoverNodeID(st.Hash())
			if err != nil {
				outsiders++
				continue
			}
			if w.net.DeputyByNodeID(id) == nil {
				outsiders++
				continue
			}
			if signers[string(id)] {
				dups++
			}
			signers[string(id)] = true
		}
		need := ceil23(w.n)
		if len(signers) < need {
			sub := "short-count"
			if dups > 0 {
				sub = "duplicate-signer-counted"
			} else if outsiders > 0 {
				sub = "non-deputy-counted"
			}
			c.Fail("C03/threshold/"+sub, "block %d became stable with %d distinct deputy signers (incl. miner) of %d deputies, need %d; the node holds %d confirmations (%d repeat a signer, %d not by deputies); last event %s; events: %v",
				st.Height(), len(signers), w.n, need, len(confirms), dups, outsiders, ev, w.events)
			return false
		}
		if st.Height() > old.Height()+1 {
			c.Probe("stable_jumped_several")
		}
		c.Probe("stable_advanced")
	}
	// stable blocks are never replaced; ancestors readable by height
	for h, hash := range byH {
		if (hash == common.Hash{}) {
			c.Fail("C03/stable/ancestor-unreadable", "block at height %d (<= stable %d) is not readable by height after %s", h, st.Height(), ev)
			return false
		}
		if prev, ok := w.byH[h]; ok && prev != hash {
			c.Fail("C03/stable/replaced", "block at stable height %d changed from %s to %s after %s; events: %v", h, prev.Hex()[:10], hash.Hex()[:10], ev, w.events)
			return false
		}
		w.byH[h] = hash
	}
	if byH[st.Height()] != st.Hash() {
		c.Fail("C03/stable/height-index", "GetBlockByHeight(stable height %d) does not return the stable block after %s", st.Height(), ev)
		return false
	}
	// head is the stable block or one of its descendants
	if !w.isAncestorOrSelf(st.Hash(), cur.Hash()) {
		c.Fail("C03/head/off-stable", "current head [%d]%s is not the stable block [%d]%s nor a descendant after %s; events: %v", cur.Height(), cur.Hash().Hex()[:10], st.Height(), st.Hash().Hex()[:10], ev, w.events)
		return false
	}
	w.stable = st
	c.State(hashString(fmt.Sprintf("%d/%d/%d", st.Height(), cur.Height(), len(w.fab))))
	return true
}

func c03Scenario(c *Ctx) {
	p := defaultParams(c)
	p.NDeputies = []int{3, 4, 5, 2, 1, 5, 4}[c.Draw("cfg", 7)]
	p.DeputyCount = p.NDeputies + c.Draw("cfg", 2)
	p.SlotMs = []uint64{3000, 1000, 2000}[c.Draw("cfg", 3)]
	net := NewNet(c, p)
	f := net.NewFactory(40)
	self := detKey("observer1")
	deputyNUT := c.Draw("cfg", 3) == 0
	if deputyNUT {
		self = net.Deputies[c.Draw("cfg", p.NDeputies)].Node
	}
	nut := net.AddNode(1, "nut", self)
	if !nut.StartNode() {
		c.Fail("C03/harness/start", "node did not start")
		return
	}
	gen := f.Blocks[net.GenBlock.Hash()]
	w := &c03World{c: c, net: net, f: f, nut: nut, parent: map[common.Hash]common.Hash{}, height: map[common.Hash]uint32{gen.Hash(): 0},
		deliv: map[common.Hash]bool{gen.Hash(): true}, stable: gen, byH: map[uint32]common.Hash{}, n: p.NDeputies}
	outsider := detKey("outsider-signer")
	steps := 8 + c.Draw("gen", 20)
	txn := 0
	for s := 0; s < steps && !c.Failed(); s++ {
		switch k := c.Draw("op", 10); {
		case k < 3 || len(w.fab) == 0: // fabricate a block
			if len(w.fab) >= 14 {
				continue
			}
			var par *types.Block
			if len(w.fab) == 0 || c.Draw("op", 10) < 1 {
				par = gen
			} else if c.Draw("op", 10) < 7 {
				par = w.fab[len(w.fab)-1] // extend the newest
			} else {
				par = w.fab[c.Draw("op", len(w.fab))]
			}
			c.W.Sleep(time.Duration(300+c.Draw("op", int(2*p.SlotMs))) * time.Millisecond)
			now := time.Now().Unix()
			if now < int64(par.Time()) {
				continue
			}
			d := net.nextDeputy(par, now)
			var txs types.Transactions
			for i := c.Draw("op", 3); i > 0; i-- {
				txn++
				txs = append(txs, net.SignedTransfer(net.Founder, net.Users[txn%len(net.Users)].Addr, big.NewInt(int64(1000+txn)), uint64(now+600), fmt.Sprintf("c03-%d", txn)))
			}
			blk, _, err := f.Mine(d, par, uint32(now), txs, fmt.Sprintf("x%d", len(w.fab)))
			if err != nil || blk == nil {
				c.Probe("fabricate_failed")
				continue
			}
			if _, dup := w.height[blk.Hash()]; dup {
				continue
			}
			w.fab = append(w.fab, blk)
			w.parent[blk.Hash()] = par.Hash()
			w.height[blk.Hash()] = blk.Height()
			if len(f.Kids[par.Hash()]) > 1 {
				c.Probe("sibling_fork")
			}
		case k < 6: // deliver a block (any, even with unknown parent), maybe carrying confirmations
			b := w.fab[c.Draw("op", len(w.fab))]
			cp := wireCopyBlock(b)
			cp.Confirms = nil
			if c.Draw("op", 3) == 0 {
				cp.Confirms = w.genSigs(b, outsider)
			}
			_, err := nut.InsertBlock(cp)
			if err == nil {
				w.deliv[b.Hash()] = true
			}
			if !w.deliv[w.parent[b.Hash()]] {
				c.Fault("block_before_parent")
			}
			if !w.check(fmt.Sprintf("block[%d]%s(err=%v,confirms=%d)", b.Height(), b.Hash().Hex()[2:8], err != nil, len(cp.Confirms))) {
				return
			}
		case k < 9: // deliver a confirmation packet
			b := w.fab[c.Draw("op", len(w.fab))]
			sigs := w.genSigs(b, outsider)
			h := b.Height()
			if c.Draw("op", 12) == 0 {
				h += uint32(1 + c.Draw("op", 2))
				c.Fault("confirm_wrong_height")
			}
			if !w.deliv[b.Hash()] {
				c.Fault("confirm_for_unknown_block")
			}
			err := nut.InsertConfirms(h, b.Hash(), sigs)
			if !w.check(fmt.Sprintf("confirms[%d]%s(n=%d,err=%v)", b.Height(), b.Hash().Hex()[2:8], len(sigs), err != nil)) {
				return
			}
		default: // clean restart
			nut.StopNode()
			if !nut.StartNode() {
				c.Fail("C03/restart/failed", "node did not come back after a clean restart")
				return
			}
			c.Fault("clean_restart")
			// unstable blocks are forgotten by design: they may be delivered again
			for h := range w.deliv {
				if w.height[h] > nut.BC.StableBlock().Height() {
					delete(w.deliv, h)
				}
			}
			if !w.check("restart") {
				return
			}
		}
	}
	c.Nontrivial = len(w.fab) >= 3 && w.stable.Height() >= 1
	c.Sample = map[string]interface{}{"deputies": p.NDeputies, "nut_is_deputy": deputyNUT, "blocks": len(w.fab), "stable": w.stable.Height(), "events": w.events}
}

// genSigs builds a confirmation multiset for block b.
func (w *c03World) genSigs(b *types.Block, outsider *keyInfo) []types.SignData {
	c := w.c
	n := 1 + c.Draw("op", w.n+2)
	var sigs []types.SignData
	for i := 0; i < n; i++ {
		switch k := c.Draw("op", 16); {
		case k < 9:
			sigs = append(sigs, w.net.Confirm(c.Draw("op", w.n), b.Hash()))
		case k < 11 && len(sigs) > 0:
			sigs = append(sigs, sigs[c.Draw("op", len(sigs))])
			c.Fault("confirm_duplicate")
		case k < 13:
			var base []byte
			if len(sigs) > 0 && c.Draw("op", 2) == 0 {
				s := sigs[c.Draw("op", len(sigs))]
				base = s[:]
			} else {
				base = b.Header.SignData // the miner's own signature
			}
			sigs = append(sigs, types.BytesToSignData(ReencodeSig(base)))
			c.Fault("confirm_reencoded")
		case k < 14:
			s, _ := crypto.Sign(b.Hash().Bytes(), outsider.Key)
			sigs = append(sigs, types.BytesToSignData(s))
			c.Fault("confirm_by_outsider")
		case k < 15 && len(w.fab) > 1:
			other := w.fab[c.Draw("op", len(w.fab))]
			sigs = append(sigs, w.net.Confirm(c.Draw("op", w.n), other.Hash()))
			c.Fault("confirm_for_other_block")
		default:
			var junk [65]byte
			c.T.Bytes("op", junk[:])
			sigs = append(sigs, types.SignData(junk))
			c.Fault("confirm_junk")
		}
	}
	return sigs
}

func init() {
	Register(&PropDef{
		ID: "C03", Variants: []string{"tree"}, Scenario: c03Scenario,
		Rule: "8-27 tape-chosen events on one node (observer or deputy) with 1-5 deputies: fabricate a block on any earlier block (fork trees up to 14 blocks, siblings at equal height), deliver any fabricated block (parents may be unknown; bodies may carry confirmations), deliver a confirmation multiset (valid / duplicate / re-encoded / miner's own / outsider / for another block / junk; sometimes wrong height or unknown block), clean restart; after EVERY event: stable height monotone, new stable descends from the old one, stable blocks never replaced and readable by height, head on the stable branch, and when stable moves the distinct deputy signers (miner included, by node id) reach ceil(2n/3); non-trivial = >=3 blocks fabricated and stable advanced at least once; distinct = event-log digests",
		Real: []string{"chain/consensus (DPoVP.InsertBlock/InsertConfirms, StableManager, ForkManager, Confirmer, Validator)", "store.ChainDatabase (SetStableBlock pruning)", "chain/deputynode.Manager", "chain/txpool.TxGuard"},
		Stub: []string{"peers = harness delivering factory-made blocks and hand-signed confirmations"},
		Assumptions: []string{"cross-node agreement is not asserted (the statement is per node)", "term changes are not exercised here (deputy set fixed per run)"},
	})
}
