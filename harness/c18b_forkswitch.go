package harness

import (
	"fmt"
	"math/big"
	"sort"
	"time"

	"github.com/LemoFoundationLtd/lemochain-core/chain/types"
	"github.com/LemoFoundationLtd/lemochain-core/common"
)

// C18 clause (b): after a fork switch of any depth the pool contains the abandoned fork's
// transactions that are not on the new fork, and none that are. Driven by the real engine:
// a tape-generated block tree whose forks carry overlapping subsets of a small set of
// pending transactions is delivered in tape order to an observer node whose pool holds all
// of them; whenever the head moves to a block that is not a child of the old head the
// oracle compares the pool with the two branches.

func c18bScenario(c *Ctx) {
	p := defaultParams(c)
	p.NDeputies = 3 + c.Draw("cfg", 3) // >=3 deputies: nothing becomes stable without confirmations
	p.DeputyCount = p.NDeputies
	p.SlotMs = 1000
	net := NewNet(c, p)
	f := net.NewFactory(40)
	nut := net.AddNode(1, "nut", detKey("observer1"))
	if !nut.StartNode() {
		c.Fail("C18/harness/start", "node did not start")
		return
	}
	gen := f.Blocks[net.GenBlock.Hash()]
	now0 := time.Now().Unix()
	ntx := 4 + c.Draw("gen", 5)
	var txs []*types.Transaction
	for i := 0; i < ntx; i++ {
		txs = append(txs, net.SignedTransfer(net.Founder, net.Users[i%len(net.Users)].Addr, big.NewInt(int64(10+i)), uint64(now0+1500), fmt.Sprintf("c18b-%d", i)))
	}
	idx := map[common.Hash]int{}
	for i, tx := range txs {
		idx[tx.Hash()] = i
	}
	// the node has heard of every transaction
	var mine types.Transactions
	for _, tx := range txs {
		mine = append(mine, wireCopyTx(tx))
	}
	nut.Do("pool", func() { nut.Pool.AddTxs(mine) })
	parentOf := map[common.Hash]common.Hash{}
	blockTxs := map[common.Hash][]int{}
	var fab []*types.Block
	branchTxs := func(h common.Hash) map[int]bool {
		out := map[int]bool{}
		for h != gen.Hash() {
			for _, i := range blockTxs[h] {
				out[i] = true
			}
			h = parentOf[h]
		}
		return out
	}
	head := gen
	switches, maxDepth := 0, 0
	var events []string
	steps := 10 + c.Draw("gen", 20)
	for s := 0; s < steps && !c.Failed(); s++ {
		if c.Draw("op", 5) < 3 || len(fab) == 0 {
			if len(fab) >= 14 {
				continue
			}
			par := gen
			if len(fab) > 0 {
				switch r := c.Draw("op", 10); {
				case r < 4:
					// the highest block that is NOT on the head's branch: a competitor about to overtake
					best := gen
					for _, fb := range fab {
						if !branchContains(parentOf, head.Hash(), fb.Hash(), gen.Hash()) && fb.Height() >= best.Height() {
							best = fb
						}
					}
					par = best
				case r < 8:
					if _, ok := parentOf[head.Hash()]; ok || head.Hash() == gen.Hash() {
						par = head
					}
				default:
					par = fab[c.Draw("op", len(fab))]
				}
			}
			c.W.Sleep(time.Duration(200+c.Draw("op", 1500)) * time.Millisecond)
			now := time.Now().Unix()
			if now < int64(par.Time()) {
				continue
			}
			d := net.nextDeputy(par, now)
			// a subset of the transactions that are not yet on this branch
			on := branchTxs(par.Hash())
			var pick types.Transactions
			var picked []int
			for i, tx := range txs {
				if !on[i] && c.Draw("op", 3) == 0 {
					pick = append(pick, wireCopyTx(tx))
					picked = append(picked, i)
				}
			}
			blk, inv, err := f.Mine(d, par, uint32(now), pick, fmt.Sprintf("k%d", len(fab)))
			if err != nil || blk == nil || len(inv) > 0 {
				continue
			}
			if _, dup := parentOf[blk.Hash()]; dup {
				continue
			}
			fab = append(fab, blk)
			parentOf[blk.Hash()] = par.Hash()
			blockTxs[blk.Hash()] = picked
			continue
		}
		b := fab[c.Draw("op", len(fab))]
		_, err := nut.InsertBlock(wireCopyBlock(b))
		var cur *types.Block
		var pool map[int]bool
		nut.Do("observe", func() {
			cur = nut.BC.CurrentBlock()
			slots, _, _ := nut.Pool.VerifDump()
			pool = map[int]bool{}
			for _, tx := range slots {
				if tx != nil {
					if i, ok := idx[tx.Hash()]; ok {
						pool[i] = true
					}
				}
			}
		})
		events = append(events, fmt.Sprintf("insert [%d]%s txs=%v err=%v -> head [%d]%s", b.Height(), b.Extra(), blockTxs[b.Hash()], err != nil, cur.Height(), cur.Extra()))
		if len(events) > 20 {
			events = events[1:]
		}
		if cur.Hash() != head.Hash() {
			if cur.ParentHash() != head.Hash() {
				// fork switch
				switches++
				oldT, newT := branchTxs(head.Hash()), branchTxs(cur.Hash())
				depth := 0
				for h := head.Hash(); h != gen.Hash(); h = parentOf[h] {
					if branchContains(parentOf, cur.Hash(), h, gen.Hash()) {
						break
					}
					depth++
				}
				if depth > maxDepth {
					maxDepth = depth
				}
				var missing, wrongly []int
				for i := range oldT {
					if !newT[i] && !pool[i] {
						missing = append(missing, i)
					}
				}
				for i := range newT {
					if pool[i] {
						wrongly = append(wrongly, i)
					}
				}
				sort.Ints(missing)
				sort.Ints(wrongly)
				if len(wrongly) > 0 {
					c.Fail("C18/fork-switch/pool-holds-tx-of-new-fork", "after switching from [%d]%s to [%d]%s (depth %d) the pool still holds transactions %v, which are on the new fork; events: %v", head.Height(), head.Extra(), cur.Height(), cur.Extra(), depth, wrongly, events)
				}
				if len(missing) > 0 {
					c.Fail("C18/fork-switch/abandoned-tx-not-returned", "after switching from [%d]%s to [%d]%s (depth %d) transactions %v of the abandoned fork (not on the new fork, not expired) are missing from the pool; events: %v", head.Height(), head.Extra(), cur.Height(), cur.Extra(), depth, missing, events)
				}
				c.Probe("fork_switch")
				if depth >= 2 {
					c.Probe("fork_switch_depth>=2")
				}
			}
			head = cur
		} else if err == nil {
			// a side-branch block: not covered by the statement, counted only
			on := branchTxs(cur.Hash())
			for i := range pool {
				if on[i] {
					c.Probe("pool_holds_tx_of_current_branch_after_side_block")
					break
				}
			}
		}
	}
	c.Nontrivial = switches >= 1
	c.Sample = map[string]interface{}{"deputies": p.NDeputies, "blocks": len(fab), "switches": switches, "max_switch_depth": maxDepth, "events": events}
}

func branchContains(parentOf map[common.Hash]common.Hash, tip, h, gen common.Hash) bool {
	for x := tip; ; x = parentOf[x] {
		if x == h {
			return true
		}
		if x == gen {
			return false
		}
	}
}
