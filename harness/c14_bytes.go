package harness

import (
	"bytes"
	"fmt"
	"math/big"
	"reflect"

	"github.com/LemoFoundationLtd/lemochain-core/chain/transaction"
	"github.com/LemoFoundationLtd/lemochain-core/chain/types"
	"github.com/LemoFoundationLtd/lemochain-core/common"
	"github.com/LemoFoundationLtd/lemochain-core/common/rlp"
	"github.com/LemoFoundationLtd/lemochain-core/network"
	"github.com/LemoFoundationLtd/lemochain-core/network/p2p"
)

// ---------------------------------------------------------------------------------
// C14 variant "bytes": byte strings offered to the decoders.
//
// (a) low-level codec canonicality (violation): for a set of Go types built from the
//     primitives the statement names, any byte string that rlp.DecodeBytes accepts must
//     re-encode to exactly itself. Inputs are valid encodings mutated at the RLP-item level
//     (non-minimal length prefixes, leading-zero integers, single byte as 1-byte string,
//     wrong kind of empty value, extra / missing items, trailing bytes, truncation, bit
//     flips) and random bytes.
// (b) every object decoder on mutated encodings of generated objects: value or error,
//     never a panic (violation, site = decoder). Accepting a non-canonical encoding at the
//     object level is outside the statement's wording ("the low-level codec accepts exactly
//     one byte string per primitive value") and only counted as a probe.
// ---------------------------------------------------------------------------------

// ---- a minimal RLP item tree (harness-owned; used to build mutants, never to judge) ----

type rlpNode struct {
	list  bool
	data  []byte
	kids  []*rlpNode
	style int // 0 canonical, 1 long form (1 length byte), 2 long form with a leading zero length byte, 3 single byte wrapped as 0x81 xx
}

func parseRLP(b []byte) (*rlpNode, int, error) {
	if len(b) == 0 {
		return nil, 0, fmt.Errorf("empty")
	}
	t := b[0]
	readLen := func(n int) (int, int, error) {
		if len(b) < 1+n {
			return 0, 0, fmt.Errorf("short")
		}
		l := 0
		for _, x := range b[1 : 1+n] {
			if l > 1<<40 {
				return 0, 0, fmt.Errorf("huge")
			}
			l = l<<8 | int(x)
		}
		return l, 1 + n, nil
	}
	var plen, hlen int
	var err error
	list := false
	switch {
	case t < 0x80:
		return &rlpNode{data: []byte{t}}, 1, nil
	case t < 0xb8:
		plen, hlen = int(t-0x80), 1
	case t < 0xc0:
		plen, hlen, err = readLen(int(t - 0xb7))
	case t < 0xf8:
		plen, hlen, list = int(t-0xc0), 1, true
	default:
		plen, hlen, err = readLen(int(t - 0xf7))
		list = true
	}
	if err != nil || plen < 0 || hlen > len(b) || plen > len(b)-hlen {
		return nil, 0, fmt.Errorf("short")
	}
	payload := b[hlen : hlen+plen]
	n := &rlpNode{list: list}
	if !list {
		n.data = append([]byte(nil), payload...)
		return n, hlen + plen, nil
	}
	for off := 0; off < len(payload); {
		k, used, err := parseRLP(payload[off:])
		if err != nil {
			return nil, 0, err
		}
		n.kids = append(n.kids, k)
		off += used
	}
	return n, hlen + plen, nil
}

func (n *rlpNode) all(out *[]*rlpNode) {
	*out = append(*out, n)
	for _, k := range n.kids {
		k.all(out)
	}
}

func rlpHead(base byte, l int, style int) []byte {
	minimal := func(x int) []byte {
		var be []byte
		for ; x > 0; x >>= 8 {
			be = append([]byte{byte(x)}, be...)
		}
		return be
	}
	switch style {
	case 1:
		be := minimal(l)
		if len(be) == 0 {
			be = []byte{0}
		}
		return append([]byte{base + 55 + byte(len(be))}, be...)
	case 2:
		be := append([]byte{0}, minimal(l)...)
		return append([]byte{base + 55 + byte(len(be))}, be...)
	}
	if l < 56 {
		return []byte{base + byte(l)}
	}
	be := minimal(l)
	return append([]byte{base + 55 + byte(len(be))}, be...)
}

func (n *rlpNode) bytes() []byte {
	if !n.list {
		if len(n.data) == 1 && n.data[0] < 0x80 && n.style != 3 && n.style != 1 && n.style != 2 {
			return []byte{n.data[0]}
		}
		st := n.style
		if st == 3 {
			st = 0
		}
		return append(rlpHead(0x80, len(n.data), st), n.data...)
	}
	var p []byte
	for _, k := range n.kids {
		p = append(p, k.bytes()...)
	}
	return append(rlpHead(0xc0, len(p), n.style), p...)
}

var c14Mutations = []string{"none", "long-form-prefix", "length-with-leading-zero", "single-byte-as-string", "integer-leading-zero",
	"zero-as-0x00", "empty-kind-swap", "kind-swap", "extra-item", "drop-item", "trailing-bytes", "truncate", "bit-flip", "oversize-length", "random-bytes", "empty-input"}

// mutate returns a mutant of the valid encoding enc and the kind of mutation applied ("none"
// if the chosen mutation was not applicable).
func (k *c14) mutate(enc []byte) ([]byte, string) {
	g := k.g
	kind := c14Mutations[g.n(len(c14Mutations))]
	root, _, err := parseRLP(enc)
	if err != nil {
		return enc, "none"
	}
	var nodes []*rlpNode
	root.all(&nodes)
	pick := func(ok func(*rlpNode) bool) *rlpNode {
		var c []*rlpNode
		for _, n := range nodes {
			if ok(n) {
				c = append(c, n)
			}
		}
		if len(c) == 0 {
			return nil
		}
		return c[g.n(len(c))]
	}
	out := enc
	switch kind {
	case "none":
	case "long-form-prefix", "length-with-leading-zero":
		n := pick(func(n *rlpNode) bool { return n.list || len(n.data) != 1 || n.data[0] >= 0x80 })
		if n == nil {
			return enc, "none"
		}
		n.style = 1
		if kind == "length-with-leading-zero" {
			n.style = 2
		}
		out = root.bytes()
	case "single-byte-as-string":
		n := pick(func(n *rlpNode) bool { return !n.list && len(n.data) == 1 && n.data[0] < 0x80 })
		if n == nil {
			return enc, "none"
		}
		n.style = 3
		out = root.bytes()
	case "integer-leading-zero":
		n := pick(func(n *rlpNode) bool { return !n.list && len(n.data) >= 1 && len(n.data) <= 33 })
		if n == nil {
			return enc, "none"
		}
		n.data = append([]byte{0}, n.data...)
		out = root.bytes()
	case "zero-as-0x00":
		n := pick(func(n *rlpNode) bool { return !n.list && len(n.data) == 0 })
		if n == nil {
			return enc, "none"
		}
		n.data = []byte{0}
		out = root.bytes()
	case "empty-kind-swap":
		n := pick(func(n *rlpNode) bool { return (n.list && len(n.kids) == 0) || (!n.list && len(n.data) == 0) })
		if n == nil {
			return enc, "none"
		}
		n.list = !n.list
		out = root.bytes()
	case "kind-swap":
		n := nodes[g.n(len(nodes))]
		if n.list {
			var p []byte
			for _, kid := range n.kids {
				p = append(p, kid.bytes()...)
			}
			n.list, n.kids, n.data = false, nil, p
		} else if sub, used, err := parseRLP(n.data); err == nil && used == len(n.data) {
			n.list, n.kids, n.data = true, []*rlpNode{sub}, nil
		} else {
			n.list, n.kids, n.data = true, nil, nil
		}
		out = root.bytes()
	case "extra-item":
		n := pick(func(n *rlpNode) bool { return n.list })
		if n == nil {
			return enc, "none"
		}
		extra := &rlpNode{data: g.bytes(8)}
		if g.n(3) == 0 {
			extra = &rlpNode{list: true}
		}
		pos := g.n(len(n.kids) + 1)
		n.kids = append(n.kids[:pos:pos], append([]*rlpNode{extra}, n.kids[pos:]...)...)
		out = root.bytes()
	case "drop-item":
		n := pick(func(n *rlpNode) bool { return n.list && len(n.kids) > 0 })
		if n == nil {
			return enc, "none"
		}
		pos := g.n(len(n.kids))
		n.kids = append(n.kids[:pos:pos], n.kids[pos+1:]...)
		out = root.bytes()
	case "trailing-bytes":
		out = append(append([]byte(nil), enc...), g.rawBytes(1+g.n(3))...)
	case "truncate":
		if len(enc) == 0 {
			return enc, "none"
		}
		out = append([]byte(nil), enc[:g.n(len(enc))]...)
	case "bit-flip":
		if len(enc) == 0 {
			return enc, "none"
		}
		out = append([]byte(nil), enc...)
		for i, n := 0, 1+g.n(2); i < n; i++ {
			out[g.n(len(out))] ^= 1 << uint(g.n(8))
		}
	case "oversize-length":
		out = append([]byte(nil), enc...)
		if len(out) > 0 && out[0] >= 0x80 {
			switch {
			case out[0] < 0xb7, out[0] >= 0xc0 && out[0] < 0xf7:
				out[0]++
			case len(out) > 1:
				out[1] += byte(1 + g.n(3))
			}
		}
	case "random-bytes":
		out = g.rawBytes(g.n(40))
	case "empty-input":
		out = []byte{}
	}
	if bytes.Equal(out, enc) {
		return enc, "none"
	}
	return out, kind
}

// ---- (a) low-level canonicality ----

type llOptional struct {
	A uint32
	P *[20]byte `rlp:"nil"`
	B []byte
}

type llOptionalStruct struct {
	A uint32
	P *llPair `rlp:"nil"`
}

type llPair struct {
	K string
	V string
}

type llMixed struct {
	U8  uint8
	U16 uint16
	U32 uint32
	U64 uint64
	F   bool
	N   *big.Int
	S   string
	B   []byte
	H   common.Hash
	A   common.Address
	L   []uint32
	P   []llPair
	Q   [2]uint16
}

type llNested struct {
	X llPair
	Y *llPair
	Z [][]byte
	W []*big.Int
}

type llType struct {
	name  string // the two optional-pointer types share one name: one codec rule, one finding
	fresh func() interface{}
	gen   func(g *c14Gen) interface{}
}

var llTypes = []llType{
	{"uint8", func() interface{} { return new(uint8) }, func(g *c14Gen) interface{} { return uint8(g.u64()) }},
	{"uint16", func() interface{} { return new(uint16) }, func(g *c14Gen) interface{} { return g.u16() }},
	{"uint32", func() interface{} { return new(uint32) }, func(g *c14Gen) interface{} { return g.u32() }},
	{"uint64", func() interface{} { return new(uint64) }, func(g *c14Gen) interface{} { return g.u64() }},
	{"bool", func() interface{} { return new(bool) }, func(g *c14Gen) interface{} { return g.n(2) == 1 }},
	{"big.Int", func() interface{} { return new(big.Int) }, func(g *c14Gen) interface{} { return g.big(false) }},
	{"bytes", func() interface{} { return new([]byte) }, func(g *c14Gen) interface{} { return g.bytes(300) }},
	{"string", func() interface{} { return new(string) }, func(g *c14Gen) interface{} { return g.str(100) }},
	{"Address", func() interface{} { return new(common.Address) }, func(g *c14Gen) interface{} { return g.addr() }},
	{"Hash", func() interface{} { return new(common.Hash) }, func(g *c14Gen) interface{} { return g.hash() }},
	{"SignData", func() interface{} { return new(types.SignData) }, func(g *c14Gen) interface{} { return g.signData() }},
	{"uint32-list", func() interface{} { return new([]uint32) }, func(g *c14Gen) interface{} {
		var l []uint32
		for i, n := 0, g.n(5); i < n; i++ {
			l = append(l, g.u32())
		}
		return l
	}},
	{"bytes-list", func() interface{} { return new([][]byte) }, func(g *c14Gen) interface{} {
		var l [][]byte
		for i, n := 0, g.n(4); i < n; i++ {
			l = append(l, g.bytes(60))
		}
		return l
	}},
	{"struct-mixed", func() interface{} { return new(llMixed) }, func(g *c14Gen) interface{} {
		m := &llMixed{U8: uint8(g.u64()), U16: g.u16(), U32: g.u32(), U64: g.u64(), F: g.n(2) == 1, N: g.big(false), S: g.str(60), B: g.bytes(60), H: g.hash(), A: g.addr()}
		for i, n := 0, g.n(3); i < n; i++ {
			m.L = append(m.L, g.u32())
			m.P = append(m.P, llPair{g.str(10), g.str(10)})
		}
		m.Q = [2]uint16{g.u16(), g.u16()}
		return m
	}},
	{"struct-nested", func() interface{} { return new(llNested) }, func(g *c14Gen) interface{} {
		m := &llNested{X: llPair{g.str(10), g.str(10)}, Y: &llPair{g.str(10), g.str(10)}}
		for i, n := 0, g.n(3); i < n; i++ {
			m.Z = append(m.Z, g.bytes(20))
			m.W = append(m.W, g.big(false))
		}
		return m
	}},
	{"optional-pointer", func() interface{} { return new(llOptional) }, func(g *c14Gen) interface{} {
		m := &llOptional{A: g.u32(), B: g.bytes(20)}
		if g.n(2) == 1 {
			a := [20]byte(g.addr())
			m.P = &a
		}
		return m
	}},
	{"optional-pointer", func() interface{} { return new(llOptionalStruct) }, func(g *c14Gen) interface{} {
		m := &llOptionalStruct{A: g.u32()}
		if g.n(2) == 1 {
			m.P = &llPair{g.str(10), g.str(10)}
		}
		return m
	}},
	{"interface", func() interface{} { return new(interface{}) }, func(g *c14Gen) interface{} {
		return []interface{}{g.bytes(20), []interface{}{g.bytes(5)}, g.u32()}
	}},
}

func (k *c14) checkLowLevel() {
	c := k.c
	t := llTypes[k.g.n(len(llTypes))]
	v := t.gen(k.g)
	enc, err := rlp.EncodeToBytes(v)
	if err != nil {
		c.Fail("C14/encode-error/rlp-"+t.name, "generated %s does not encode: %v", t.name, err)
		return
	}
	m, kind := k.mutate(enc)
	k.count("rlp-" + t.name)
	if kind != "none" {
		c.Fault("mut:" + kind)
	}
	fresh := t.fresh()
	k.note("ll."+t.name, m)
	var derr error
	if k.try("rlp.DecodeBytes/"+t.name, m, func() { derr = rlp.DecodeBytes(m, fresh) }) {
		return
	}
	if derr != nil {
		if kind == "none" {
			c.Fail("C14/decode-own-encoding/rlp-"+t.name, "rlp rejects its own encoding of a %s: %v\n%x", t.name, derr, clip200(m))
		} else {
			c.Probe("rlp_rejected:" + kind)
		}
		return
	}
	var re []byte
	if k.try("rlp.EncodeToBytes/"+t.name, m, func() { re, err = rlp.EncodeToBytes(fresh) }) {
		return
	}
	if err != nil {
		c.Fail("C14/canonical/rlp-"+t.name+"/reencode-error", "value decoded from %x does not encode: %v", clip200(m), err)
		return
	}
	if !bytes.Equal(re, m) {
		c.Fail("C14/canonical/rlp-"+t.name, "rlp accepts a second byte string for the same %s value (mutation %q):\n accepted   %x\n canonical  %x\n original   %x",
			t.name, kind, clip200(m), clip200(re), clip200(enc))
		return
	}
	if kind != "none" {
		c.Probe("rlp_accepted_canonical_mutant:" + kind)
	}
}

// ---- (b) object decoders on hostile bytes ----

type objType struct {
	name   string
	fresh  func() interface{}
	gen    func(k *c14) interface{}
	follow func(v interface{}) // what a node does next with a decoded object (hash, signer recovery)
}

var objTypes = []objType{
	{"Header", func() interface{} { return new(types.Header) }, func(k *c14) interface{} { return k.g.header(detKey("c14node0")) },
		func(v interface{}) { h := v.(*types.Header); h.Hash(); h.SignerNodeID() }},
	{"Transaction", func() interface{} { return new(types.Transaction) }, func(k *c14) interface{} { return k.g.tx(false) },
		func(v interface{}) { t := v.(*types.Transaction); t.Hash(); signersOf(t); t.GasPayer() }},
	{"BoxTx", func() interface{} { return new(types.Transaction) }, func(k *c14) interface{} { t, _ := k.g.boxTx(); return t },
		func(v interface{}) { t := v.(*types.Transaction); t.Hash(); types.GetBox(t.Data()) }},
	{"ChangeLog", func() interface{} { return new(types.ChangeLog) }, func(k *c14) interface{} { return k.g.changeLog(0) },
		func(v interface{}) { v.(*types.ChangeLog).Hash() }},
	{"AccountData", func() interface{} { return new(types.AccountData) }, func(k *c14) interface{} { return k.g.accountData() }, nil},
	{"DeputyNode", func() interface{} { return new(types.DeputyNode) }, func(k *c14) interface{} { return k.g.deputyNode(1) },
		func(v interface{}) { v.(*types.DeputyNode).Hash() }},
	{"Block", func() interface{} { return new(types.Block) }, func(k *c14) interface{} { return k.g.block() },
		func(v interface{}) {
			b := v.(*types.Block)
			b.Hash()
			b.Txs.MerkleRootSha()
			b.ChangeLogs.MerkleRootSha()
			b.DeputyNodes.MerkleRootSha()
		}},
	{"Profile", func() interface{} { p := make(types.Profile); return &p }, func(k *c14) interface{} { p := k.g.profile(); return &p }, nil},
	{"Asset", func() interface{} { return &types.Asset{TotalSupply: new(big.Int), Profile: make(types.Profile)} }, func(k *c14) interface{} { return k.g.asset() }, nil},
	{"ProtocolHandshake", func() interface{} { return new(network.ProtocolHandshake) }, func(k *c14) interface{} {
		return &network.ProtocolHandshake{ChainID: k.g.u16(), GenesisHash: k.g.hash(), NodeVersion: k.g.u32()}
	}, nil},
	{"BlockConfirmData", func() interface{} { return new(network.BlockConfirmData) }, func(k *c14) interface{} {
		return &network.BlockConfirmData{Hash: k.g.hash(), Height: k.g.u32(), SignInfo: k.g.signData()}
	}, nil},
	{"BlockConfirms", func() interface{} { return new(network.BlockConfirms) }, func(k *c14) interface{} {
		return &network.BlockConfirms{Hash: k.g.hash(), Height: k.g.u32(), Pack: []types.SignData{k.g.signData()}}
	}, nil},
}

func (k *c14) checkObjectBytes() {
	c := k.c
	t := objTypes[k.g.n(len(objTypes))]
	v := t.gen(k)
	enc, err := rlp.EncodeToBytes(v)
	if err != nil {
		c.Fail("C14/encode-error/"+t.name, "generated %s does not encode: %v", t.name, err)
		return
	}
	m, kind := k.mutate(enc)
	k.count("bytes-" + t.name)
	if kind != "none" {
		c.Fault("mut:" + kind)
	}
	fresh := t.fresh()
	k.note("obj."+t.name, m)
	var derr error
	viaMsg := k.g.n(3) == 0 // the network path: p2p.Msg.Decode (stream decoder)
	site := "rlp.DecodeBytes/" + t.name
	if viaMsg {
		site = "p2p.Msg.Decode/" + t.name
	}
	if k.try(site, m, func() {
		if viaMsg {
			derr = (&p2p.Msg{Content: m}).Decode(fresh)
		} else {
			derr = rlp.DecodeBytes(m, fresh)
		}
	}) {
		return
	}
	if derr != nil {
		c.Probe("object_rejected:" + kind)
		return
	}
	if t.follow != nil {
		if k.try("after-decode/"+t.name, m, func() { t.follow(fresh) }) {
			return
		}
	}
	var re []byte
	if k.try("rlp.EncodeToBytes/"+t.name, m, func() { re, err = rlp.EncodeToBytes(fresh) }) {
		return
	}
	if kind == "none" {
		return
	}
	if err != nil || !bytes.Equal(re, m) {
		if viaMsg && kind == "trailing-bytes" {
			c.Probe("msg_decode_accepts_trailing_bytes")
		} else {
			c.Probe("object_noncanonical_accepted:" + t.name + ":" + kind)
		}
	} else {
		c.Probe("object_accepted_canonical_mutant:" + kind)
	}
}

// ---- JSON decoders (box payloads and typed transaction data) on hostile bytes ----

func (k *c14) mutateText(b []byte) (res []byte) {
	defer func() { k.note("json", res) }()
	g := k.g
	out := append([]byte(nil), b...)
	if len(out) == 0 {
		return g.rawBytes(g.n(10))
	}
	switch g.n(7) {
	case 0:
		out = out[:g.n(len(out))]
	case 1:
		out[g.n(len(out))] ^= 1 << uint(g.n(8))
	case 2:
		i := g.n(len(out))
		j := i + g.n(len(out)-i)
		out = append(out[:i:i], out[j:]...)
	case 3:
		i := g.n(len(out))
		j := i + g.n(len(out)-i)
		out = append(out[:j:j], append(append([]byte(nil), out[i:j]...), out[j:]...)...)
	case 4:
		out[g.n(len(out))] = `"{}[],:0x-9f\`[g.n(13)]
	case 5:
		out = bytes.Replace(out, []byte(`"0x`), []byte(`"0X`), 1+g.n(2))
	case 6:
		out = bytes.Replace(out, []byte(`":"`), []byte(`":`), 1)
	}
	return out
}

func (k *c14) checkJSONBytes() {
	c := k.c
	g := k.g
	k.count("json-bytes")
	switch g.n(5) {
	case 0:
		box, _ := g.boxTx()
		m := k.mutateText(box.Data())
		c.Fault("mut:json")
		k.try("types.GetBox", m, func() {
			if b, err := types.GetBox(m); err == nil {
				for _, t := range b.SubTxList {
					t.Hash()
					signersOf(t)
				}
				c.Probe("json_mutant_accepted:box")
			}
		})
	case 1:
		js, err := g.tx(true).MarshalJSON()
		if err != nil {
			return
		}
		m := k.mutateText(js)
		c.Fault("mut:json")
		k.try("Transaction.UnmarshalJSON", m, func() {
			var t types.Transaction
			if t.UnmarshalJSON(m) == nil {
				t.Hash()
				signersOf(&t)
				c.Probe("json_mutant_accepted:tx")
			}
		})
	case 2:
		js, _ := g.asset().MarshalJSON()
		m := k.mutateText(js)
		c.Fault("mut:json")
		k.try("types.GetAsset", m, func() { types.GetAsset(m) })
	case 3:
		js, _ := (&types.IssueAsset{AssetCode: g.hash(), MetaData: g.str(30), Amount: g.big(false)}).MarshalJSON()
		m := k.mutateText(js)
		c.Fault("mut:json")
		k.try("types.GetIssueAsset", m, func() { types.GetIssueAsset(m) })
		js, _ = (&types.TransferAsset{AssetId: g.hash(), Amount: g.big(false), Input: g.bytes(20)}).MarshalJSON()
		m = k.mutateText(js)
		k.try("types.GetTransferAsset", m, func() { types.GetTransferAsset(m) })
	default:
		js, _ := (&types.ModifyAssetInfo{AssetCode: g.hash(), UpdateProfile: types.Profile{"name": g.str(10)}}).MarshalJSON()
		m := k.mutateText(js)
		c.Fault("mut:json")
		k.try("types.GetModifyAssetInfo", m, func() { types.GetModifyAssetInfo(m) })
		js, _ = (&types.ReplenishAsset{AssetCode: g.hash(), AssetId: g.hash(), Amount: g.big(false)}).MarshalJSON()
		m = k.mutateText(js)
		k.try("types.GetReplenishAsset", m, func() { types.GetReplenishAsset(m) })
	}
}

func c14BytesScenario(c *Ctx) {
	k := newC14(c)
	n := 20 + k.g.n(40)
	for i := 0; i < n; i++ {
		switch k.g.n(5) {
		case 0, 1:
			k.checkLowLevel()
		case 2, 3:
			k.checkObjectBytes()
		default:
			k.checkJSONBytes()
		}
	}
	fired := 0
	for _, v := range c.Faults {
		fired += int(v)
	}
	c.Nontrivial = fired >= 5
	c.Sample = map[string]interface{}{"variant": "bytes", "decodes": k.checks, "by_type": k.kinds, "mutations": c.Faults}
}

var _ = reflect.TypeOf
var _ = transaction.SignerWeightThreshold
