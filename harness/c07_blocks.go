package harness

import (
	"fmt"
	"math/big"
	"sort"
	"strings"
	"time"

	"github.com/LemoFoundationLtd/lemochain-core/chain"
	"github.com/LemoFoundationLtd/lemochain-core/chain/account"
	"github.com/LemoFoundationLtd/lemochain-core/chain/consensus"
	"github.com/LemoFoundationLtd/lemochain-core/chain/deputynode"
	"github.com/LemoFoundationLtd/lemochain-core/chain/params"
	"github.com/LemoFoundationLtd/lemochain-core/chain/txpool"
	"github.com/LemoFoundationLtd/lemochain-core/chain/types"
	"github.com/LemoFoundationLtd/lemochain-core/common"
	"github.com/LemoFoundationLtd/lemochain-core/store"
)

// newFactoryAt is Net.NewFactory with a caller-chosen store directory, so that two independent
// miners (two stores) can exist in one run (C07 discard variant).
func newFactoryAt(n *Net, tag int, home string) *Factory {
	f := &Factory{Net: n, Tag: tag, Blocks: map[common.Hash]*types.Block{}, Kids: map[common.Hash][]common.Hash{}}
	n.C.W.Do(tag, "factory.start", func() {
		f.DB = store.NewChainDataBase(home)
		gen := chain.SetupGenesisBlock(f.DB, n.genesis)
		f.Blocks[gen.Hash()] = gen
		if n.GenBlock == nil {
			n.GenBlock = gen
		}
		f.DM = deputynode.NewManager(n.P.DeputyCount, f.DB)
		f.AM = account.NewManager(gen.Hash(), f.DB)
		guard := txpool.NewTxGuard(gen.Time())
		f.DP = consensus.NewDPoVP(consensus.Config{ChainID: n.P.ChainID, MineTimeout: n.P.SlotMs, RewardManager: n.Founder.Addr}, f.DB, f.DM, f.AM, &factoryLoader{f.DB}, txpool.NewTxPool(), guard)
		f.Asm = consensus.NewBlockAssembler(f.AM, f.DM, f.DP.TxProcessor(), f.DP)
	})
	for d, dep := range n.Deputies {
		dep := dep
		n.C.W.Do(tag+1+d, "factory.key", func() { deputynode.SetSelfNodeKey(dep.Node.Key) })
	}
	return f
}

func closeFactory(f *Factory) {
	f.Net.C.W.Do(f.Tag, "factory.stop", func() {
		if f.DB != nil {
			f.DB.Close()
		}
	})
}

// inTurnDeputy picks the deputy entitled to mine on parent at time now (reference slot rule).
func inTurnDeputy(net *Net, parent *types.Block, now int64) int {
	prank := -1
	if dpt := net.DeputyByMiner(parent.MinerAddress()); dpt != nil && parent.Height() > 0 {
		prank = dpt.Rank
	}
	return InTurnRank(prank, int64(parent.Time())*1000, now*1000, int64(net.P.SlotMs), net.P.NDeputies)
}

// keysOfLogs collects, per address, the trie keys named by a list of change logs.
func keysOfLogs(logs types.ChangeLogSlice) (addrs []common.Address, keys map[common.Address]keySets) {
	keys = map[common.Address]keySets{}
	for _, l := range logs {
		addrs = append(addrs, l.Address)
		ks := keys[l.Address]
		var h common.Hash
		switch e := l.Extra.(type) {
		case common.Hash:
			h = e
		case *account.ProfileChangeLogExtra:
			if e != nil {
				h = e.UUID
			}
		default:
			continue
		}
		switch l.LogType {
		case account.StorageLog:
			ks.Storage = append(ks.Storage, h)
		case account.AssetCodeLog, account.AssetCodeStateLog, account.AssetCodeTotalSupplyLog:
			ks.AssetCode = append(ks.AssetCode, h)
		case account.AssetIdLog:
			ks.AssetId = append(ks.AssetId, h)
		case account.EquityLog:
			ks.Equity = append(ks.Equity, h)
		}
		keys[l.Address] = ks
	}
	addrs = mergeAddrs(addrs)
	for a, ks := range keys {
		keys[a] = ks.merge(keySets{})
	}
	return
}

// c07CheckRedo is the block-level redo oracle. For every block (which must be stored in db together
// with the state its executor saved): the state a fresh manager reads at the block (= what executing
// it produced) must equal the state obtained by RebuildAll(wire copy of the block) on a fresh manager
// at the parent, for every account named in the block's change logs. Any list of blocks can be
// plugged in (e.g. blocks with the lead's richer txgen transactions).
func c07CheckRedo(c *Ctx, tag int, db *store.ChainDatabase, blocks []*types.Block) (checked int) {
	for _, blk := range blocks {
		blk := blk
		c.W.Do(tag, "c07.redo", func() {
			wire := wireCopyBlock(blk)
			addrs, keys := keysOfLogs(wire.ChangeLogs)
			keysFor := func(a common.Address) keySets { return keys[a] }
			var pan interface{}
			var err error
			re := account.NewManager(blk.ParentHash(), db)
			func() {
				defer func() { pan = recover() }()
				if err = re.RebuildAll(wire); err == nil {
					err = re.Finalise()
				}
			}()
			desc := fmt.Sprintf("block height %d (%d txs, %d change logs)", blk.Height(), len(blk.Txs), len(blk.ChangeLogs))
			if pan != nil {
				c.Fail("C07/redo/panic/"+sanitizeErr(pan), "RebuildAll(%s) panicked: %v\njournal:%s", desc, pan, logsString(wire.ChangeLogs))
				return
			}
			if err != nil {
				c.Fail("C07/redo/error/"+sanitizeErr(err), "RebuildAll(%s) failed: %v\njournal:%s", desc, err, logsString(wire.ChangeLogs))
				return
			}
			c.Fault("redo")
			vr := re.GetVersionRoot()
			// save the rebuilt state as a sibling block so that both sides are read back from the store
			hdr := blk.Header.Copy()
			hdr.Extra += "/rebuilt"
			hdr.VersionRoot = vr
			sib := types.NewBlock(hdr, blk.Txs, re.GetChangeLogs())
			if err = db.SetBlock(sib.Hash(), sib); err == nil {
				err = re.Save(sib.Hash())
			}
			if err != nil {
				c.Fail("C07/redo/save-error", "the state rebuilt from the change logs of %s cannot be saved: %v\njournal:%s", desc, err, logsString(wire.ChangeLogs))
				return
			}
			got := dumpState(account.NewManager(sib.Hash(), db), addrs, keysFor)
			want := dumpState(account.NewManager(blk.Hash(), db), addrs, keysFor)
			c.State(hashDump(want))
			gating, _ := splitGating(diffAccounts(want, got))
			if len(gating) > 0 {
				c.Fail("C07/redo/"+sigAttr(gating), "state rebuilt from the change logs of %s differs from the executed (saved) state:%s\njournal:%s",
					desc, diffStrings(gating, 12), logsString(wire.ChangeLogs))
			}
			if vr != blk.Header.VersionRoot {
				c.Fail("C07/redo/version-root", "version root after RebuildAll+Finalise of %s is %x, header says %x", desc, vr, blk.Header.VersionRoot)
			}
			checked++
		})
	}
	return
}

type txPlan struct {
	Kind  string // ok, badsig, overdraw, lowgas, nogasmoney, votejunk
	Tx    *types.Transaction
	Valid bool
}

func (p txPlan) String() string {
	to := "nil"
	if p.Tx.To() != nil {
		to = fmt.Sprintf("%x", p.Tx.To()[:3])
	}
	return fmt.Sprintf("%s{%x->%s amount=%s gasLimit=%d}", p.Kind, p.Tx.From().Bytes()[:3], to, p.Tx.Amount(), p.Tx.GasLimit())
}

// txBudget makes "valid by construction" independent of the order in which the miner sees the
// transactions: the sum of everything a sender may spend never exceeds its balance at the parent.
type txBudget struct {
	left map[common.Address]*big.Int
}

var gwei = big.NewInt(1000000000)

func (b *txBudget) take(from common.Address, amount *big.Int, gasLimit uint64) bool {
	need := new(big.Int).Add(amount, new(big.Int).Mul(new(big.Int).SetUint64(gasLimit), gwei))
	l := b.left[from]
	if l == nil || l.Cmp(need) < 0 {
		return false
	}
	l.Sub(l, need)
	return true
}

func mkTx(net *Net, from *keyInfo, signer *keyInfo, to common.Address, amount *big.Int, gasLimit uint64, typ uint16, exp uint64, msg string) *types.Transaction {
	tx := types.NewTransaction(from.Addr, to, amount, gasLimit, gwei, nil, typ, net.P.ChainID, exp, "", msg)
	return signTx(tx, signer)
}

// genTxPlans draws n transactions: valid transfers and (if withInvalid) transactions the miner must discard.
func genTxPlans(c *Ctx, net *Net, budget *txBudget, n int, withInvalid bool, exp uint64, tagMsg string) []txPlan {
	var out []txPlan
	senders := append([]*keyInfo{net.Founder}, net.Users...)
	for i := 0; i < n; i++ {
		msg := fmt.Sprintf("%s-%d", tagMsg, i)
		from := senders[c.Draw("tx", len(senders))]
		to := net.Users[c.Draw("tx", len(net.Users))].Addr
		kind := 0
		if withInvalid {
			kind = c.Draw("tx", 8)
		}
		switch kind {
		case 3: // signed by somebody else: rejected before any write
			other := net.Users[(c.Draw("tx", len(net.Users)-1)+1)%len(net.Users)]
			if other.Addr == from.Addr {
				other = detKey("stranger")
			}
			out = append(out, txPlan{"badsig", mkTx(net, from, other, to, big.NewInt(1), 100000, params.OrdinaryTx, exp, msg), false})
		case 4: // amount far beyond the whole supply: fails inside evm.Call after gas was bought
			amt := new(big.Int).Mul(big.NewInt(int64(1+c.Draw("tx", 9))), new(big.Int).Exp(big.NewInt(10), big.NewInt(30), nil))
			out = append(out, txPlan{"overdraw", mkTx(net, net.Founder, net.Founder, to, amt, 100000, params.OrdinaryTx, exp, msg), false})
		case 5: // gas limit below the intrinsic gas: fails after gas was bought
			out = append(out, txPlan{"lowgas", mkTx(net, net.Founder, net.Founder, to, big.NewInt(5), uint64(1+c.Draw("tx", 20000)), params.OrdinaryTx, exp, msg), false})
		case 6: // sender without any money
			broke := detKey(fmt.Sprintf("broke%d", c.Draw("tx", 3)))
			out = append(out, txPlan{"nogasmoney", mkTx(net, broke, broke, to, big.NewInt(0), 100000, params.OrdinaryTx, exp, msg), false})
		case 7: // vote for an account that is no candidate: fails in the handler after gas was bought; large gas limits
			gl := []uint64{100000, 1000000, 30000000, 52000000, 104000000}[c.Draw("tx", 5)]
			out = append(out, txPlan{"votejunk", mkTx(net, net.Founder, net.Founder, detKey("nobody").Addr, big.NewInt(0), gl, params.VoteTx, exp, msg), false})
		default:
			amt := new(big.Int).Mul(big.NewInt(int64(1+c.Draw("tx", 50))), big.NewInt(1e16))
			gl := []uint64{21000 + 68*64, 50000, 100000, 2000000, 40000000}[c.Draw("tx", 5)]
			if !budget.take(from.Addr, amt, gl) {
				from = net.Founder
				if !budget.take(from.Addr, amt, gl) {
					continue
				}
			}
			out = append(out, txPlan{"ok", mkTx(net, from, from, to, amt, gl, params.OrdinaryTx, exp, msg), true})
		}
	}
	return out
}

func plansTxs(ps []txPlan, onlyValid bool) types.Transactions {
	var out types.Transactions
	for _, p := range ps {
		if onlyValid && !p.Valid {
			continue
		}
		// a private copy per miner: the miner writes GasUsed into the transaction object
		out = append(out, c07CopyTx(p.Tx))
	}
	return out
}

func c07CopyTx(tx *types.Transaction) *types.Transaction {
	b, err := rlpEncode(tx)
	if err != nil {
		panic(err)
	}
	out := new(types.Transaction)
	if err := rlpDecode(b, out); err != nil {
		panic(err)
	}
	return out
}

func plansString(ps []txPlan) string {
	var b strings.Builder
	for i, p := range ps {
		fmt.Fprintf(&b, "\n  %2d %s", i, p)
	}
	return b.String()
}

func startBudget(net *Net) *txBudget {
	b := &txBudget{left: map[common.Address]*big.Int{}}
	b.left[net.Founder.Addr] = common.Lemo2Mo("1000000") // far below the genesis supply the founder holds
	return b
}

// c07Redo: blocks produced by the real miner code; RebuildAll(block) on the parent vs executed state.
func c07Redo(c *Ctx) {
	net := NewNet(c, defaultParams(c))
	f := newFactoryAt(net, 40, "/sim/c07r/chaindata")
	defer func() { closeFactory(f); c.W.Sleep(2 * time.Second) }()
	parent := f.Blocks[net.GenBlock.Hash()]
	budget := startBudget(net)
	nBlocks := 1 + c.Draw("gen", 3)
	var blocks []*types.Block
	txTotal := 0
	for i := 0; i < nBlocks; i++ {
		c.W.Sleep(time.Duration(net.P.SlotMs) * time.Millisecond)
		now := time.Now().Unix()
		d := inTurnDeputy(net, parent, now)
		plans := genTxPlans(c, net, budget, c.Draw("gen", 6), c.Draw("gen", 2) == 1, uint64(now+600), fmt.Sprintf("b%d", i))
		blk, _, err := f.Mine(d, parent, uint32(now), plansTxs(plans, false), "")
		if err != nil || blk == nil {
			c.Probe("mine_failed")
			break
		}
		// transfers credited in this block may be spent in later ones
		for _, p := range plans {
			if p.Valid {
				l := budget.left[*p.Tx.To()]
				if l == nil {
					l = new(big.Int)
					budget.left[*p.Tx.To()] = l
				}
				l.Add(l, p.Tx.Amount())
			}
		}
		txTotal += len(blk.Txs)
		blocks = append(blocks, blk)
		parent = blk
	}
	n := c07CheckRedo(c, 40, f.DB, blocks)
	c.Nontrivial = n >= 1 && txTotal >= 1
	c.Sample = map[string]interface{}{"variant": "redo", "blocks": len(blocks), "txs": txTotal}
}

// c07Discard: "a transaction the miner discards leaves no trace at all". Miner 1 is handed valid and
// invalid transactions, miner 2 (own store, same genesis, same parent, same timestamp) only the valid
// ones; the two blocks must have the same hash and the saved states must be equal.
func c07Discard(c *Ctx) {
	net := NewNet(c, defaultParams(c))
	f1 := newFactoryAt(net, 40, "/sim/c07d1/chaindata")
	f2 := newFactoryAt(net, 50, "/sim/c07d2/chaindata")
	defer func() { closeFactory(f1); closeFactory(f2); c.W.Sleep(2 * time.Second) }()
	p1 := f1.Blocks[net.GenBlock.Hash()]
	p2 := f2.Blocks[net.GenBlock.Hash()]
	if p1.Hash() != p2.Hash() {
		panic("two stores built different genesis blocks")
	}
	budget := startBudget(net)
	// optional funding block (identical on both miners) so that users can be senders
	if c.Draw("gen", 2) == 1 {
		c.W.Sleep(time.Duration(net.P.SlotMs) * time.Millisecond)
		now := time.Now().Unix()
		d := inTurnDeputy(net, p1, now)
		var plans []txPlan
		for i, u := range net.Users {
			amt := common.Lemo2Mo("100")
			if budget.take(net.Founder.Addr, amt, 100000) {
				plans = append(plans, txPlan{"ok", mkTx(net, net.Founder, net.Founder, u.Addr, amt, 100000, params.OrdinaryTx, uint64(now+600), fmt.Sprintf("fund%d", i)), true})
				budget.left[u.Addr] = new(big.Int).Set(amt)
			}
		}
		b1, _, e1 := f1.Mine(d, p1, uint32(now), plansTxs(plans, false), "")
		b2, _, e2 := f2.Mine(d, p2, uint32(now), plansTxs(plans, false), "")
		if e1 != nil || e2 != nil || b1 == nil || b2 == nil || b1.Hash() != b2.Hash() {
			panic(fmt.Sprintf("funding block differs between two identical miners: %v %v", e1, e2))
		}
		p1, p2 = b1, b2
	}
	c.W.Sleep(time.Duration(net.P.SlotMs) * time.Millisecond)
	now := time.Now().Unix()
	d := inTurnDeputy(net, p1, now)
	plans := genTxPlans(c, net, budget, 2+c.Draw("gen", 9), true, uint64(now+600), "x")
	nValid := 0
	for _, p := range plans {
		if p.Valid {
			nValid++
		}
	}
	b1, inv1, e1 := f1.Mine(d, p1, uint32(now), plansTxs(plans, false), "")
	b2, inv2, e2 := f2.Mine(d, p2, uint32(now), plansTxs(plans, true), "")
	if e1 != nil || e2 != nil || b1 == nil || b2 == nil {
		c.Fail("C07/discard/mine-error", "mining failed: mixed list: %v, valid-only list: %v\ntransactions:%s", e1, e2, plansString(plans))
		return
	}
	for range inv1 {
		c.Fault("miner_discard")
	}
	if len(plans)-nValid > len(inv1) {
		c.Probe("invalid_tx_skipped_not_reported")
	}
	c.Nontrivial = len(plans) > nValid && len(b1.Txs) >= 1
	c.Sample = map[string]interface{}{"variant": "discard", "offered": len(plans), "valid": nValid, "packaged_mixed": len(b1.Txs), "packaged_valid_only": len(b2.Txs), "discarded": len(inv1)}
	hashes := func(txs types.Transactions) string {
		var s []string
		for _, t := range txs {
			s = append(s, fmt.Sprintf("%x", t.Hash().Bytes()[:3]))
		}
		return strings.Join(s, ",")
	}
	if len(inv2) > 0 || len(b2.Txs) != nValid {
		// the harness' notion of "valid" must be right, otherwise the comparison is meaningless
		c.Fail("C07/discard/valid-tx-rejected-alone", "harness error or defect: the miner given only valid transactions packaged %d of %d (discarded %d)\ntransactions:%s",
			len(b2.Txs), nValid, len(inv2), plansString(plans))
		return
	}
	if hashes(b1.Txs) != hashes(b2.Txs) {
		c.Fail("C07/discard/valid-tx-dropped", "the discarded transactions changed WHICH transactions were packaged: with them [%s] (%d), without them [%s] (%d)\ntransactions:%s",
			hashes(b1.Txs), len(b1.Txs), hashes(b2.Txs), len(b2.Txs), plansString(plans))
		return
	}
	if b1.Hash() != b2.Hash() {
		h1, h2 := b1.Header, b2.Header
		var diff []string
		if h1.VersionRoot != h2.VersionRoot {
			diff = append(diff, "versionRoot")
		}
		if h1.LogRoot != h2.LogRoot {
			diff = append(diff, "logRoot")
		}
		if h1.TxRoot != h2.TxRoot {
			diff = append(diff, "txRoot")
		}
		if h1.GasUsed != h2.GasUsed {
			diff = append(diff, "gasUsed")
		}
		sort.Strings(diff)
		c.Fail("C07/discard/block-differs", "same packaged transactions but different blocks (%s differ)\nwith discards journal:%s\nwithout:%s\ntransactions:%s",
			strings.Join(diff, ","), logsString(b1.ChangeLogs), logsString(b2.ChangeLogs), plansString(plans))
		return
	}
	// saved state of every account named by either journal or by any offered transaction
	addrs, keys := keysOfLogs(append(append(types.ChangeLogSlice{}, b1.ChangeLogs...), b2.ChangeLogs...))
	for _, p := range plans {
		addrs = append(addrs, p.Tx.From())
		if p.Tx.To() != nil {
			addrs = append(addrs, *p.Tx.To())
		}
	}
	addrs = mergeAddrs(addrs)
	keysFor := func(a common.Address) keySets { return keys[a] }
	var s1, s2 *stateDump
	c.W.Do(40, "c07.dump1", func() { s1 = dumpState(account.NewManager(b1.Hash(), f1.DB), addrs, keysFor) })
	c.W.Do(50, "c07.dump2", func() { s2 = dumpState(account.NewManager(b2.Hash(), f2.DB), addrs, keysFor) })
	if s1 == nil || s2 == nil {
		return
	}
	c.State(hashDump(s1))
	gating, _ := splitGating(diffAccounts(s2, s1))
	if len(gating) > 0 {
		c.Fail("C07/discard/"+sigAttr(gating), "equal blocks, but the state saved by the miner that discarded transactions differs from the state saved without them:%s\ntransactions:%s",
			diffStrings(gating, 12), plansString(plans))
	}
}
