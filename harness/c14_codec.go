package harness

import (
	"bytes"
	"fmt"
	"hash/fnv"
	"math/big"
	"reflect"
	"regexp"
	"runtime/debug"
	"strings"
	"unicode/utf8"

	"github.com/LemoFoundationLtd/lemochain-core/chain/params"
	"github.com/LemoFoundationLtd/lemochain-core/chain/types"
	"github.com/LemoFoundationLtd/lemochain-core/common"
	"github.com/LemoFoundationLtd/lemochain-core/common/rlp"
	"github.com/LemoFoundationLtd/lemochain-core/network"
	"github.com/LemoFoundationLtd/lemochain-core/network/p2p"

	"verif/simrt"
)

// C14: encodings round-trip and are canonical. A codec is a pure function: the simulator
// contributes nothing but the tape (seeded input generation, replay, minimisation) and, in
// the "traffic" variant, objects produced by the real miner code.

type c14 struct {
	c      *Ctx
	g      *c14Gen
	checks int
	kinds  map[string]int
}

func newC14(c *Ctx) *c14 {
	return &c14{c: c, g: &c14Gen{c: c}, kinds: map[string]int{}}
}

var (
	reIdx = regexp.MustCompile(`\[[^\]]*\]`)
)

// sigPath turns a difference description ("Txs[1].Message: ...") into a stable signature part.
func sigPath(d string) string {
	if i := strings.Index(d, ":"); i >= 0 {
		d = d[:i]
	}
	d = reIdx.ReplaceAllString(d, "[]")
	if i := strings.Index(d, "("); i >= 0 { // "ChangeLogs[](BalanceLog).NewVal"
		d = strings.ReplaceAll(d, "(", "-")
		d = strings.ReplaceAll(d, ")", "")
	}
	return d
}

// try runs f; a panic is a violation whose site is the decoder / function named by the caller.
func (k *c14) try(site string, input []byte, f func()) (panicked bool) {
	defer func() {
		if r := recover(); r != nil {
			panicked = true
			k.c.Fail("C14/panic/"+site, "%s panicked: %v\ninput (%d bytes): %x\n%s", site, r, len(input), clip200(input), trimStack(string(debug.Stack())))
		}
	}()
	f()
	return false
}

func clip200(b []byte) []byte {
	if len(b) > 200 {
		return b[:200]
	}
	return b
}

func (k *c14) count(kind string) {
	k.checks++
	k.kinds[kind]++
}

// note puts an offered input into the run's event log, so that the run digest (distinct-case
// counting, determinism self-test) covers the generated data, not only scheduling.
func (k *c14) note(kind string, b []byte) {
	h := fnv.New64a()
	h.Write(b)
	simrt.Log("c14."+kind, int64(h.Sum64()), int64(len(b)), "")
}

// roundTrip is the generic skeleton: encode v, decode into fresh (a pointer), compare with eq,
// and for hashed/signed objects require encode(decode(b)) == b. It returns the decoded bytes.
func (k *c14) roundTrip(name string, v, fresh interface{}, eq func() string, hashed bool) (enc []byte, ok bool) {
	c := k.c
	k.count(name)
	var err error
	if k.try("rlp.Encode/"+name, nil, func() { enc, err = rlp.EncodeToBytes(v) }) {
		return nil, false
	}
	if err != nil {
		c.Fail("C14/encode-error/"+name, "%s does not encode: %v\nvalue: %s", name, err, describe(v))
		return nil, false
	}
	k.note(name, enc)
	if k.try("rlp.Decode/"+name, enc, func() { err = rlp.DecodeBytes(enc, fresh) }) {
		return enc, false
	}
	if err != nil {
		c.Fail("C14/decode-own-encoding/"+name, "%s does not decode from its own encoding: %v\nbytes: %x\nvalue: %s", name, err, clip200(enc), describe(v))
		return enc, false
	}
	if d := eq(); d != "" {
		c.Fail("C14/value/"+name+"/"+sigPath(d), "%s decoded from its own encoding differs: %s\nbytes: %x\nvalue: %s", name, d, clip200(enc), describe(v))
		return enc, false
	}
	var enc2 []byte
	if k.try("rlp.Encode/"+name, enc, func() { enc2, err = rlp.EncodeToBytes(fresh) }) {
		return enc, false
	}
	if err != nil {
		c.Fail("C14/reencode/"+name+"/error", "decoded %s does not encode again: %v", name, err)
		return enc, false
	}
	if !bytes.Equal(enc, enc2) {
		if hashed {
			c.Fail("C14/reencode/"+name+"/bytes", "encode(decode(b)) != b for %s\n b  = %x\n b' = %x\nvalue: %s", name, clip200(enc), clip200(enc2), describe(v))
			return enc, false
		}
		c.Probe("reencode_differs_unhashed:" + name)
	}
	return enc, true
}

func describe(v interface{}) string {
	s := ""
	func() {
		defer func() {
			if r := recover(); r != nil {
				s = fmt.Sprintf("<%T>", v)
			}
		}()
		if st, ok := v.(fmt.Stringer); ok {
			s = st.String()
		} else {
			s = fmt.Sprintf("%+v", v)
		}
	}()
	if len(s) > 1500 {
		s = s[:1500] + "..."
	}
	return strings.ToValidUTF8(s, "\uFFFD")
}

// ---------- per-type checks ----------

func (k *c14) checkHeader(h *types.Header) {
	var d types.Header
	if _, ok := k.roundTrip("Header", h, &d, func() string { return eqHeader(h, &d) }, true); !ok {
		return
	}
	if h.Hash() != d.Hash() {
		k.c.Fail("C14/hash/Header", "header hash changes over a round trip: %x != %x\n%s", h.Hash(), d.Hash(), h.String())
	}
	if h.TxRoot == common.Sha3Nil || h.LogRoot == common.Sha3Nil {
		k.c.Probe("header_empty_root_elided")
	}
	// recovered signer (fresh copies: SignerNodeID memoises)
	h2 := h.Copy()
	id1, e1 := safeSigner(h2)
	id2, e2 := safeSigner(&d)
	if (e1 == nil) != (e2 == nil) || !bytes.Equal(id1, id2) {
		k.c.Fail("C14/signer/Header", "recovered block signer changes over a round trip: %x (%v) != %x (%v)", clip14(id1), e1, clip14(id2), e2)
	}
	if e1 == nil {
		k.c.Probe("header_signer_recovered")
	}
}

func safeSigner(h *types.Header) (id []byte, err error) {
	defer func() {
		if r := recover(); r != nil {
			err = fmt.Errorf("panic: %v", r)
		}
	}()
	return h.SignerNodeID()
}

type signerView struct {
	addrs []common.Address
	err   bool
}

func signersOf(tx *types.Transaction) (out [3]signerView) {
	for i, s := range []types.Signer{types.MakeSigner(), types.MakeReimbursementTxSigner(), types.MakeGasPayerSigner()} {
		func() {
			defer func() {
				if r := recover(); r != nil {
					out[i].err = true
				}
			}()
			a, err := s.GetSigners(tx)
			out[i] = signerView{a, err != nil}
		}()
	}
	return
}

func eqSignerViews(a, b [3]signerView) string {
	names := []string{"sender", "sender(reimbursement)", "gas-payer"}
	for i := range a {
		if a[i].err != b[i].err || len(a[i].addrs) != len(b[i].addrs) {
			return fmt.Sprintf("%s signers: %v(err=%v) != %v(err=%v)", names[i], a[i].addrs, a[i].err, b[i].addrs, b[i].err)
		}
		for j := range a[i].addrs {
			if a[i].addrs[j] != b[i].addrs[j] {
				return fmt.Sprintf("%s signer %d: %x != %x", names[i], j, a[i].addrs[j], b[i].addrs[j])
			}
		}
	}
	return ""
}

// sameTx: value, hash and recovered signers of a transaction and its decoded copy.
func (k *c14) sameTx(class, name string, tx, d *types.Transaction) bool {
	c := k.c
	if df := eqTx(tx, d); df != "" {
		if class == "json" && strings.HasPrefix(df, "Message:") && !utf8.ValidString(tx.Message()) {
			// classified by the failing state: the JSON form cannot carry a message that is not UTF-8.
			// Precondition "consensus object": only if the node's own admission check lets such a
			// message into a block at all (an otherwise clean transfer carrying it).
			if !messageAdmissible(tx.Message()) {
				c.Probe("json_non_utf8_message_inadmissible")
				return true
			}
			c.Fail("C14/json/message-not-utf8", "a transaction whose message is not valid UTF-8 does not survive its JSON form (%s): %s\nhash %x -> %x\ntx: %s",
				name, df, tx.Hash(), d.Hash(), describe(tx))
			return false
		}
		c.Fail("C14/"+class+"/"+name+"/"+sigPath(df), "%s differs after %s round trip: %s\ntx: %s", name, class, df, describe(tx))
		return false
	}
	if tx.Hash() != d.Hash() {
		c.Fail("C14/"+class+"-hash/"+name, "%s hash changes over a %s round trip: %x != %x\ntx: %s", name, class, tx.Hash(), d.Hash(), describe(tx))
		return false
	}
	sv := signersOf(tx)
	if df := eqSignerViews(sv, signersOf(d)); df != "" {
		c.Fail("C14/"+class+"-signer/"+name, "%s recovered signers change over a %s round trip: %s", name, class, df)
		return false
	}
	if !sv[0].err && len(sv[0].addrs) > 0 {
		c.Probe("tx_signers_recovered")
	}
	if !sv[2].err && len(sv[2].addrs) > 0 {
		c.Probe("tx_gas_payer_signers_recovered")
	}
	return true
}

// messageAdmissible: does VerifyTxBody accept an otherwise clean transfer carrying this message?
func messageAdmissible(msg string) (ok bool) {
	defer func() {
		if r := recover(); r != nil {
			ok = true
		}
	}()
	const ts = 946684900
	tx := types.NewTransaction(common.HexToAddress("0x0107134b9cdd7d89f83efa6175f9b3552f29094c"), common.HexToAddress("0x016ad4fc7e1608685bf5fe5573973bf2b1ef9b8a"),
		big.NewInt(1), 100000, big.NewInt(1000000000), nil, params.OrdinaryTx, 200, ts+100, "", msg)
	return tx.VerifyTxBody(200, ts, true) == nil
}

func (k *c14) checkTx(name string, tx *types.Transaction, jsonToo bool) {
	c := k.c
	var d types.Transaction
	if _, ok := k.roundTrip(name, tx, &d, func() string { return eqTx(tx, &d) }, true); !ok {
		return
	}
	if !k.sameTx("value", name, tx, &d) {
		return
	}
	f := tx.VerifRaw()
	if f.GasPayer == nil {
		c.Probe("tx_gas_payer_absent")
	} else {
		c.Probe("tx_gas_payer_present")
	}
	if f.Recipient == nil {
		c.Probe("tx_recipient_absent")
	}
	if !jsonToo {
		return
	}
	// JSON form (RPC and box payloads). The JSON decoder documents two preconditions.
	if f.Version != types.TxVersion {
		return
	}
	for _, s := range f.Sigs {
		if len(s) != types.TxSigLength {
			return
		}
	}
	k.count(name + ".json")
	var js []byte
	var err error
	if k.try("Transaction.MarshalJSON", nil, func() { js, err = tx.MarshalJSON() }) {
		return
	}
	if err != nil {
		c.Fail("C14/encode-error/"+name+".json", "transaction does not marshal to JSON: %v\n%s", err, describe(tx))
		return
	}
	var dj types.Transaction
	if k.try("Transaction.UnmarshalJSON", js, func() { err = dj.UnmarshalJSON(js) }) {
		return
	}
	if err != nil {
		c.Fail("C14/decode-own-encoding/"+name+".json", "transaction does not unmarshal from its own JSON: %v\n%q", err, clip200(js))
		return
	}
	k.sameTx("json", name, tx, &dj)
}

func (k *c14) checkBox() {
	c := k.c
	box, subs := k.g.boxTx()
	k.count("BoxPayload")
	var got *types.Box
	var err error
	data := box.Data()
	if k.try("types.GetBox", data, func() { got, err = types.GetBox(data) }) {
		return
	}
	if err != nil {
		c.Fail("C14/decode-own-encoding/BoxPayload", "box payload does not decode from MarshalBoxData's output: %v\n%q", err, clip200(data))
		return
	}
	if len(got.SubTxList) != len(subs) {
		c.Fail("C14/json/BoxPayload/count", "box carries %d sub-transactions, decoded %d", len(subs), len(got.SubTxList))
		return
	}
	for i := range subs {
		if !k.sameTx("json", "BoxSubTx", subs[i], got.SubTxList[i]) {
			return
		}
	}
	if len(subs) > 0 {
		c.Probe("box_with_subtxs")
	}
	k.checkTx("BoxTx", box, true)
}

func (k *c14) checkChangeLog(l *types.ChangeLog) {
	c := k.c
	name := "ChangeLog-" + l.LogType.String()
	var d types.ChangeLog
	if _, ok := k.roundTrip(name, l, &d, func() string { return eqChangeLog(l, &d) }, true); !ok {
		return
	}
	if l.Hash() != d.Hash() {
		c.Fail("C14/hash/"+name, "change log hash changes over a round trip: %x != %x\n%s", l.Hash(), d.Hash(), l.String())
	}
	// OldVal is local undo data: it must not reach the encoding
	if l.OldVal != nil {
		cp := l.Copy()
		cp.OldVal = nil
		if cp.Hash() != l.Hash() {
			c.Fail("C14/hash/"+name+"/old-value-leaks", "change log hash depends on OldVal")
		}
	}
	if isNilVal(l.NewVal) {
		c.Probe("changelog_nil_newval")
	}
	if bp, ok := d.NewVal.(*interface{}); ok && bp != nil {
		c.Probe("changelog_empty_profile_decodes_as_untyped")
	}
}

func (k *c14) checkAccountData(a *types.AccountData) {
	var d types.AccountData
	k.roundTrip("AccountData", a, &d, func() string { return eqAccountData(a, &d) }, false)
	if len(a.NewestRecords) > 1 {
		k.c.Probe("account_records_several")
	}
}

func (k *c14) checkDeputyNode(n *types.DeputyNode) {
	var d types.DeputyNode
	if _, ok := k.roundTrip("DeputyNode", n, &d, func() string { return eqDeputyNode(n, &d) }, true); !ok {
		return
	}
	if n.Hash() != d.Hash() {
		k.c.Fail("C14/hash/DeputyNode", "deputy node hash changes over a round trip")
	}
}

func (k *c14) checkProfile(p types.Profile) {
	d := make(types.Profile)
	k.roundTrip("Profile", &p, &d, func() string { return eqProfile("Profile", p, d) }, true)
}

func (k *c14) checkBlock(name string, b *types.Block) {
	c := k.c
	var d types.Block
	if _, ok := k.roundTrip(name, b, &d, func() string { return eqBlock(b, &d) }, true); !ok {
		return
	}
	if b.Hash() != d.Hash() {
		c.Fail("C14/hash/"+name, "block hash changes over a round trip")
	}
	if b.Txs.MerkleRootSha() != d.Txs.MerkleRootSha() {
		c.Fail("C14/hash/"+name+"/tx-root", "transaction root changes over a round trip")
	}
	if b.ChangeLogs.MerkleRootSha() != d.ChangeLogs.MerkleRootSha() {
		c.Fail("C14/hash/"+name+"/log-root", "change log root changes over a round trip")
	}
	if b.DeputyNodes.MerkleRootSha() != d.DeputyNodes.MerkleRootSha() {
		c.Fail("C14/hash/"+name+"/deputy-root", "deputy root changes over a round trip")
	}
	for i := range b.Txs {
		if !k.sameTx("value", name+".Tx", b.Txs[i], d.Txs[i]) {
			return
		}
	}
	id1, e1 := safeSigner(b.Header.Copy())
	id2, e2 := safeSigner(d.Header)
	if (e1 == nil) != (e2 == nil) || !bytes.Equal(id1, id2) {
		c.Fail("C14/signer/"+name, "recovered block signer changes over a round trip")
	}
}

// normSlices makes nil and empty slices of a message struct the same (rule: one encoding).
func normMsg(v interface{}) {
	switch m := v.(type) {
	case *network.BlockConfirms:
		if len(m.Pack) == 0 {
			m.Pack = nil
		}
	case *network.DiscoverResData:
		if len(m.Nodes) == 0 {
			m.Nodes = nil
		}
	}
}

func (k *c14) checkNetMsg() {
	c := k.c
	name, v := k.g.netMsg()
	k.count("Msg-" + name)
	enc, err := rlp.EncodeToBytes(v)
	if err != nil {
		c.Fail("C14/encode-error/Msg-"+name, "%s does not encode: %v", name, err)
		return
	}
	fresh := reflect.New(reflect.TypeOf(v).Elem()).Interface()
	msg := &p2p.Msg{Code: p2p.ProHandshakeMsg, Content: enc}
	if k.try("p2p.Msg.Decode/"+name, enc, func() { err = msg.Decode(fresh) }) {
		return
	}
	if err != nil {
		c.Fail("C14/decode-own-encoding/Msg-"+name, "%s does not decode from its own encoding: %v\n%x", name, err, clip200(enc))
		return
	}
	normMsg(v)
	normMsg(fresh)
	// message structs hold only fixed-size arrays, unsigned integers, strings and slices of those
	if !reflect.DeepEqual(v, fresh) {
		c.Fail("C14/value/Msg-"+name, "%s differs after a round trip:\n sent %s\n got  %s", name, describe(v), describe(fresh))
		return
	}
	enc2, _ := rlp.EncodeToBytes(fresh)
	if !bytes.Equal(enc, enc2) {
		c.Fail("C14/reencode/Msg-"+name+"/bytes", "encode(decode(b)) != b for %s", name)
	}
}

// checkListMsgs: the transaction and block gossip payloads (lists of objects).
func (k *c14) checkListMsgs() {
	c := k.c
	k.count("Msg-Txs")
	txs := types.Transactions{}
	for i, n := 0, 1+k.g.n(3); i < n; i++ {
		txs = append(txs, k.g.tx(false))
	}
	enc, err := rlp.EncodeToBytes(&txs)
	if err != nil {
		c.Fail("C14/encode-error/Msg-Txs", "transactions message does not encode: %v", err)
		return
	}
	var got types.Transactions
	msg := &p2p.Msg{Code: p2p.TxsMsg, Content: enc}
	if k.try("p2p.Msg.Decode/Txs", enc, func() { err = msg.Decode(&got) }) {
		return
	}
	if err != nil || len(got) != len(txs) {
		c.Fail("C14/decode-own-encoding/Msg-Txs", "transactions message does not decode from its own encoding: %v (%d of %d)", err, len(got), len(txs))
		return
	}
	for i := range txs {
		if !k.sameTx("value", "Msg-Txs", txs[i], got[i]) {
			return
		}
	}
	k.count("Msg-Blocks")
	blocks := types.Blocks{k.g.block()}
	enc, err = rlp.EncodeToBytes(&blocks)
	if err != nil {
		c.Fail("C14/encode-error/Msg-Blocks", "blocks message does not encode: %v", err)
		return
	}
	var gb types.Blocks
	msg = &p2p.Msg{Code: p2p.BlocksMsg, Content: enc}
	if k.try("p2p.Msg.Decode/Blocks", enc, func() { err = msg.Decode(&gb) }) {
		return
	}
	if err != nil || len(gb) != 1 {
		c.Fail("C14/decode-own-encoding/Msg-Blocks", "blocks message does not decode from its own encoding: %v", err)
		return
	}
	if d := eqBlock(blocks[0], gb[0]); d != "" {
		c.Fail("C14/value/Msg-Blocks/"+sigPath(d), "block differs after a blocks-message round trip: %s", d)
	}
}

// ---------- Lemo address text form ----------

const lemoAlphabet = "83456729ABCDFGHJKNPQRSTWYZ" // base26 digit values 0..25

// refDecodeLemo is an independent decoder of the text form described in the statement:
// "Lemo" + base26(20 address bytes + xor checksum byte). ok=false: not a well-formed string
// over the alphabet; sumOK: the checksum byte matches.
func refDecodeLemo(s string) (addr common.Address, wellFormed, sumOK bool) {
	if len(s) < 4 || !strings.EqualFold(s[:4], "Lemo") {
		return addr, false, false
	}
	x := new(big.Int)
	for _, ch := range strings.ToUpper(s[4:]) {
		i := strings.IndexRune(lemoAlphabet, ch)
		if i < 0 {
			return addr, false, false
		}
		x.Mul(x, big.NewInt(26))
		x.Add(x, big.NewInt(int64(i)))
	}
	b := x.Bytes()
	if len(b) > 21 {
		return addr, false, false // more than 20 bytes + checksum: not the encoding of any account
	}
	if len(b) == 0 {
		return addr, true, true // zero address, checksum 0
	}
	sum := byte(0)
	for _, v := range b[:len(b)-1] {
		sum ^= v
	}
	copy(addr[20-(len(b)-1):], b[:len(b)-1])
	return addr, true, sum == b[len(b)-1]
}

func (k *c14) checkAddress() {
	c := k.c
	a := k.g.addr()
	k.count("LemoAddress")
	var s string
	if k.try("Address.String", a[:], func() { s = a.String() }) {
		return
	}
	dec := func(in string) (out common.Address, err error) {
		k.try("common.StringToAddress", []byte(in), func() { out, err = common.StringToAddress(in) })
		return
	}
	k.note("addr", []byte(s))
	got, err := dec(s)
	if err != nil || got != a {
		c.Fail("C14/address/roundtrip", "StringToAddress(addr.String()) != addr: %x -> %q -> %x (err %v)", a[:], s, got[:], err)
		return
	}
	if ra, wf, ok := refDecodeLemo(s); !wf || !ok || ra != a {
		c.Fail("C14/address/text-form", "%q is not 'Lemo'+base26(address+xor checksum) of %x (reference decode: %x wellformed=%v checksum=%v)", s, a[:], ra[:], wf, ok)
		return
	}
	// case-insensitive decode
	var alt string
	switch k.g.n(3) {
	case 0:
		alt = strings.ToLower(s)
	case 1:
		alt = strings.ToUpper(s)
	default:
		bs := []byte(s)
		for i := range bs {
			if k.g.n(2) == 1 {
				bs[i] = strings.ToLower(string(bs[i]))[0]
			} else {
				bs[i] = strings.ToUpper(string(bs[i]))[0]
			}
		}
		alt = string(bs)
	}
	got, err = dec(alt)
	if err != nil || got != a {
		c.Fail("C14/address/case", "decoding is not case-insensitive: %q -> %x (err %v), want %x", alt, got[:], err, a[:])
		return
	}
	// text and JSON unmarshalling of the same form
	var ta common.Address
	var terr error
	k.try("Address.UnmarshalText", []byte(alt), func() { terr = ta.UnmarshalText([]byte(alt)) })
	if terr != nil || ta != a {
		c.Fail("C14/address/unmarshal-text", "UnmarshalText(%q) = %x (err %v), want %x", alt, ta[:], terr, a[:])
	}
	var ja common.Address
	js := []byte(`"` + s + `"`)
	k.try("Address.UnmarshalJSON", js, func() { terr = ja.UnmarshalJSON(js) })
	if terr != nil || ja != a {
		c.Fail("C14/address/unmarshal-json", "UnmarshalJSON(%s) = %x (err %v), want %x", js, ja[:], terr, a[:])
	}
	// corrupted strings: replace 1..2 digits by other alphabet digits. The reference decoder says
	// whether this is a checksum failure (must be rejected) or, by coincidence, the valid text
	// form of another account (must decode to exactly that account).
	bs := []byte(strings.ToUpper(s))
	for i, n := 0, 1+k.g.n(2); i < n; i++ {
		pos := 4 + k.g.n(len(bs)-4)
		bs[pos] = lemoAlphabet[(strings.IndexByte(lemoAlphabet, bs[pos])+1+k.g.n(25))%26]
	}
	bad := string(bs)
	if k.g.n(2) == 1 {
		bad = "Lemo" + strings.ToLower(bad[4:])
	}
	c.Fault("address-digit-substitution")
	ra, wf, ok := refDecodeLemo(bad)
	got, err = dec(bad)
	switch {
	case !wf:
		c.Probe("address_corruption_overlong")
		if err == nil {
			c.Probe("address_overlong_payload_accepted")
		}
	case !ok:
		c.Probe("address_checksum_failure_offered")
		if err == nil {
			c.Fail("C14/address/checksum-not-checked", "%q has a wrong checksum but decodes to %x (corrupted from %q)", bad, got[:], s)
		}
	default:
		c.Probe("address_corruption_still_valid")
		if err != nil || got != ra {
			c.Fail("C14/address/valid-rejected", "%q is the valid text form of %x but decodes to %x (err %v)", bad, ra[:], got[:], err)
		}
	}
	// characters outside the alphabet: outside the statement (not a checksum failure); probe only
	if k.g.n(4) == 3 {
		bs := []byte(s)
		bs[4+k.g.n(len(bs)-4)] = "01IOUVXLEM-_ "[k.g.n(13)]
		if _, err := dec(string(bs)); err == nil {
			c.Probe("address_non_alphabet_char_accepted")
		} else {
			c.Probe("address_non_alphabet_char_rejected")
		}
	}
}

// ---------- scenarios ----------

func c14ValuesScenario(c *Ctx) {
	k := newC14(c)
	g := k.g
	rounds := 1 + g.n(3)
	for r := 0; r < rounds; r++ {
		k.checkHeader(g.header(detKey(fmt.Sprintf("c14node%d", g.n(5)))))
		k.checkTx("Transaction", g.tx(true), true)
		k.checkTx("Transaction", g.tx(false), true)
		k.checkBox()
		// every change-log type, every run
		for t := c14FirstLog; t <= c14LastLog; t++ {
			k.checkChangeLog(g.changeLog(t))
		}
		k.checkAccountData(g.accountData())
		k.checkDeputyNode(g.deputyNode(uint32(g.n(7))))
		k.checkProfile(g.profile())
		k.checkBlock("Block", g.block())
		k.checkNetMsg()
		k.checkNetMsg()
		if g.n(3) == 0 {
			k.checkListMsgs()
		}
		for i := 0; i < 3; i++ {
			k.checkAddress()
		}
	}
	c.Nontrivial = k.checks >= 20
	c.Sample = map[string]interface{}{"variant": "values", "round_trips": k.checks, "by_type": k.kinds}
}
