package harness

import (
	"verif/simrt"
	"fmt"
	"math/big"
	"time"

	"github.com/LemoFoundationLtd/lemochain-core/chain/types"
	"github.com/LemoFoundationLtd/lemochain-core/common"
)

func init() {
	Register(&PropDef{ID: "SMOKE", Scenario: func(c *Ctx) {
		p := defaultParams(c)
		net := NewNet(c, p)
		f := net.NewFactory(40)
		v := net.AddNode(1, "v1", detKey("observer1"))
		if !v.StartNode() {
			c.Fail("SMOKE/start", "node did not start")
			return
		}
		parent := f.Blocks[net.GenBlock.Hash()]
		for i := 0; i < 4; i++ {
			c.W.Sleep(3 * time.Second)
			now := time.Now().Unix()
			prank := -1
			if dpt := net.DeputyByMiner(parent.MinerAddress()); dpt != nil && parent.Height() > 0 {
				prank = dpt.Rank
			}
			d := InTurnRank(prank, int64(parent.Time())*1000, now*1000, int64(p.SlotMs), p.NDeputies)
			txs := types.Transactions{net.SignedTransfer(net.Founder, net.Users[i%len(net.Users)].Addr, common.Lemo2Mo("1000"), uint64(now+600), fmt.Sprintf("m%d", i))}
			blk, inv, err := f.Mine(d, parent, uint32(now), txs, "")
			if err != nil {
				c.Fail("SMOKE/mine", "mine failed: %v", err)
				return
			}
			_, ierr := v.InsertBlock(wireCopyBlock(blk))
			c.Sample = fmt.Sprintf("h=%d txs=%d invalid=%d insertErr=%v cur=%d stable=%d", blk.Height(), len(blk.Txs), len(inv), ierr, v.BC.CurrentBlock().Height(), v.BC.StableBlock().Height())
			if ierr != nil {
				c.Fail("SMOKE/insert", "insert failed at height %d: %v", blk.Height(), ierr)
				return
			}
			// confirmations by the two other deputies
			var sigs []types.SignData
			for k := 0; k < p.NDeputies; k++ {
				if k != d {
					sigs = append(sigs, net.Confirm(k, blk.Hash()))
				}
			}
			if err := v.InsertConfirms(blk.Height(), blk.Hash(), sigs); err != nil {
				c.Fail("SMOKE/confirm", "confirm failed: %v", err)
			}
			parent = blk
		}
		bal := new(big.Int)
		v.Do("read", func() { bal = v.BC.AccountManager().GetCanonicalAccount(net.Users[0].Addr).GetBalance() })
		c.Sample = fmt.Sprintf("%v | cur=%d stable=%d user0=%s", c.Sample, v.BC.CurrentBlock().Height(), v.BC.StableBlock().Height(), bal)
		c.Nontrivial = true
		v.StopNode()
	}})
}

func init() {
	Register(&PropDef{ID: "SMOKE2", Scenario: func(c *Ctx) {
		p := defaultParams(c)
		net := NewNet(c, p)
		f := net.NewFactory(40)
		v := net.AddNode(1, "v1", detKey("observer1"))
		v.StartNode()
		g := NewTxGen(net, c, "tx")
		crashAt := int64(0)
		if c.Var == "" {
			crashAt = 1 + int64(c.Draw("fault", 400))
		}
		crashed := false
		c.W.S.IOHook = func(ev *simrt.IOEvent) simrt.IOAction {
			if ev.Node == 1 && !crashed && crashAt > 0 && ev.Seq >= crashAt {
				crashed = true
				c.Fault("crash_" + ev.Kind)
				return simrt.IOAction{CrashBefore: true, Torn: ev.Len / 2}
			}
			return simrt.IOAction{}
		}
		n := 0
		chainRun(c, net, g, f, ChainRunOpts{MaxBlocks: 5, MaxTxs: 4, NoDumps: true, OnBlock: func(r *BlockRec) bool {
			if crashed && v.Alive {
				v.Crash()
				if !v.StartNode() {
					c.Fail("SMOKE2/restart", "did not restart")
					return false
				}
				c.Probe("restarted")
			}
			_, err := v.InsertBlock(wireCopyBlock(r.Block))
			var sigs []types.SignData
			for k := range net.Deputies {
				if k != r.Deputy {
					sigs = append(sigs, net.Confirm(k, r.Block.Hash()))
				}
			}
			if v.Alive && !crashed {
				v.InsertConfirms(r.Block.Height(), r.Block.Hash(), sigs)
			}
			n++
			c.Sample = fmt.Sprintf("blocks=%d lastInsertErr=%v crashed=%v stable=%d", n, err, crashed, v.BC.StableBlock().Height())
			return true
		}})
		c.Nontrivial = true
	}})
}
