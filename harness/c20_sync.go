package harness

// C20 - "Sync converges: any delivery order of blocks, confirms, txs gives the same node".
//
// Variant "sync" (netsim, message level): 1-3 scripted peers hold a factory-made valid
// chain segment (3..12 blocks with confirmations). They push BlocksMsg / ConfirmMsg /
// ConfirmsMsg / TxsMsg in a tape-chosen permutation with duplicates, gaps (<=4 blocks are
// never pushed and must be fetched), confirmations before their blocks, several senders,
// and answer the node's GetBlocks / GetConfirms / GetLstStatus requests with delay or
// loss+retransmission. A reference node (no protocol manager) receives the same segment in
// order through InsertBlock / InsertConfirms. Oracles (all from the statement):
//   * within 5 simulated minutes after the last fault the node's current and stable block
//     equal the reference's;
//   * at every quiescent point each block the node has received is on its chain, at or
//     below its stable height, or still held in the out-of-order cache;
//   * at the end the pool holds every valid transaction of the received batches exactly
//     once (valid = well-formed, unexpired, right chain id, not on chain) and nothing else.
//
// Variant "cache" (component): tape-generated Add/Remove/Clear/Iterate sequences on the real
// network.BlockCache against a sorted multimap model, compared after every operation.

import (
	"fmt"
	"math/big"
	"sort"
	"strings"
	"time"

	"github.com/LemoFoundationLtd/lemochain-core/chain/params"
	"github.com/LemoFoundationLtd/lemochain-core/chain/types"
	"github.com/LemoFoundationLtd/lemochain-core/common"
	"github.com/LemoFoundationLtd/lemochain-core/network"
	"github.com/LemoFoundationLtd/lemochain-core/network/p2p"

	"verif/simrt"
)

// ---------------------------------------------------------------------------
// variant "cache"
// ---------------------------------------------------------------------------

func c20CacheScenario(c *Ctx) {
	nHeights := 3 + c.Draw("gen", 6) // 3..8 distinct heights
	perHeight := 1 + c.Draw("gen", 3)
	base := uint32(5 + c.Draw("gen", 3))
	type ub struct {
		b *types.Block
		h uint32
		k int
	}
	var uni []ub
	for i := 0; i < nHeights; i++ {
		for k := 0; k < perHeight; k++ {
			h := base + uint32(i)
			b := &types.Block{Header: &types.Header{Height: h, Extra: fmt.Sprintf("c20-%d-%d", h, k), GasLimit: 1}}
			uni = append(uni, ub{b, h, k})
		}
	}
	name := func(b *types.Block) string { return b.Header.Extra[4:] }
	kOf := map[common.Hash]int{}
	for _, u := range uni {
		kOf[u.b.Hash()] = u.k
	}
	cache := network.NewBlockCache()
	model := map[uint32]map[common.Hash]*types.Block{}
	var hist []string
	modelCount := func() int {
		n := 0
		for _, m := range model {
			n += len(m)
		}
		return n
	}
	nOps := 3 + c.Draw("gen", 22)
	heightsSeen := map[uint32]bool{}
	for op := 0; op < nOps && !c.Failed(); op++ {
		var desc string
		var run func()
		switch k := c.Draw("op", 12); {
		case k < 7: // add
			u := uni[c.Draw("op", len(uni))]
			desc = "Add(" + name(u.b) + ")"
			run = func() { cache.Add(u.b) }
			if model[u.h] == nil {
				model[u.h] = map[common.Hash]*types.Block{}
				// classify where the new height goes relative to what is held
				lo, hi := false, false
				for h, m := range model {
					if len(m) == 0 || h == u.h {
						continue
					}
					if h < u.h {
						lo = true
					} else {
						hi = true
					}
				}
				switch {
				case lo && hi:
					c.Probe("cache_add_between")
				case lo:
					c.Probe("cache_add_after")
				case hi:
					c.Probe("cache_add_before")
				}
			} else {
				c.Probe("cache_add_same_height")
			}
			model[u.h][u.b.Hash()] = u.b
			heightsSeen[u.h] = true
		case k < 8: // remove
			u := uni[c.Draw("op", len(uni))]
			desc = "Remove(" + name(u.b) + ")"
			run = func() { cache.Remove(u.b) }
			if m := model[u.h]; m != nil {
				delete(m, u.b.Hash())
				if len(m) == 0 {
					delete(model, u.h)
				}
			}
		case k < 10: // clear
			h := base - 1 + uint32(c.Draw("op", nHeights+2))
			desc = fmt.Sprintf("Clear(%d)", h)
			run = func() { cache.Clear(h) }
			for mh := range model {
				if mh <= h {
					delete(model, mh)
				}
			}
		default: // iterate, removing a tape-chosen subset (as the 500 ms drain does)
			mask := c.Draw("op", 1<<uint(perHeight*2))
			sel := func(b *types.Block) bool {
				return mask&(1<<uint((int(b.Height())%2)*perHeight+kOf[b.Hash()])) != 0
			}
			desc = fmt.Sprintf("Iterate(remove mask %b)", mask)
			run = func() { cache.Iterate(sel) }
			for mh, m := range model {
				for hash, b := range m {
					if sel(b) {
						delete(m, hash)
					}
				}
				if len(m) == 0 {
					delete(model, mh)
				}
			}
		}
		hist = append(hist, desc)
		if t := c.W.Do(1, "cache.op", run); !t.Finished {
			if t.Panic == nil {
				c.Fail("C20/blockcache/stuck", "%s did not return\nhistory: %s", desc, strings.Join(hist, "; "))
			}
			return
		}
		// ---- compare with the model ----
		var got []*types.Block
		var size int
		var first uint32
		c.W.Do(1, "cache.read", func() {
			cache.Iterate(func(b *types.Block) bool { got = append(got, b); return false })
			size = cache.Size()
			first = cache.FirstHeight()
		})
		show := func() string {
			var g []string
			for _, b := range got {
				g = append(g, name(b))
			}
			var hs []int
			for h := range model {
				hs = append(hs, int(h))
			}
			sort.Ints(hs)
			var m []string
			for _, h := range hs {
				var ns []string
				for _, b := range model[uint32(h)] {
					ns = append(ns, name(b))
				}
				sort.Strings(ns)
				m = append(m, ns...)
			}
			return fmt.Sprintf("cache iterates [%s] (Size %d, FirstHeight %d); model holds [%s]\nhistory: %s",
				strings.Join(g, " "), size, first, strings.Join(m, " "), strings.Join(hist, "; "))
		}
		gotSet := map[common.Hash]int{}
		for i, b := range got {
			gotSet[b.Hash()]++
			if i > 0 && got[i-1].Height() > b.Height() {
				c.Fail("C20/blockcache/order", "after %s the cache is not ascending by height: %s", desc, show())
			}
		}
		for _, m := range model {
			for h, b := range m {
				if gotSet[h] == 0 {
					c.Fail("C20/blockcache/lost-block", "after %s block %s is no longer held although it was added and never removed/cleared/iterated out: %s", desc, name(b), show())
				}
			}
		}
		for _, b := range got {
			if m := model[b.Height()]; m == nil || m[b.Hash()] == nil {
				c.Fail("C20/blockcache/phantom-block", "after %s block %s is still held although it was removed or cleared: %s", desc, name(b), show())
			}
			if gotSet[b.Hash()] > 1 {
				c.Fail("C20/blockcache/duplicate-block", "after %s block %s is held twice: %s", desc, name(b), show())
			}
		}
		if size != len(got) {
			c.Fail("C20/blockcache/size", "after %s Size()=%d but Iterate visits %d blocks: %s", desc, size, len(got), show())
		}
		if mc := modelCount(); mc > 0 {
			min := ^uint32(0)
			for h := range model {
				if h < min {
					min = h
				}
			}
			if first != min {
				c.Probe("cache_first_height_not_min_held")
			}
		}
		c.State(hashStrings(hist[len(hist)-1], fmt.Sprint(len(got))))
	}
	c.Nontrivial = len(heightsSeen) >= 3
	c.Sample = map[string]interface{}{"variant": "cache", "ops": hist}
}

func hashStrings(ss ...string) uint64 {
	h := uint64(14695981039346656037)
	for _, s := range ss {
		for i := 0; i < len(s); i++ {
			h ^= uint64(s[i])
			h *= 1099511628211
		}
		h ^= 0xff
		h *= 1099511628211
	}
	return h
}

// ---------------------------------------------------------------------------
// variant "sync"
// ---------------------------------------------------------------------------

type c20Tx struct {
	Tx    *types.Transaction
	Class string // valid, expired, chainid, onchain
	Name  string
}

type c20Item struct {
	Kind   string // blocks, confirm, pack, txs
	Peer   int
	Blocks []int
	Embed  bool
	Blk    int
	Sig    int
	Txs    []int
	Delay  time.Duration
	Burst  bool
}

func (it c20Item) String() string {
	switch it.Kind {
	case "blocks":
		e := ""
		if it.Embed {
			e = "+confirms"
		}
		return fmt.Sprintf("p%d:Blocks%v%s", it.Peer, it.Blocks, e)
	case "confirm":
		return fmt.Sprintf("p%d:Confirm(b%d,s%d)", it.Peer, it.Blk, it.Sig)
	case "pack":
		return fmt.Sprintf("p%d:Confirms(b%d)", it.Peer, it.Blk)
	case "txs":
		return fmt.Sprintf("p%d:Txs%v", it.Peer, it.Txs)
	}
	return it.Kind
}

type c20Pending struct {
	at      time.Time
	seq     int
	peer    *simPeer
	code    p2p.MsgCode
	payload []byte
	blocks  []int
	txs     []int
}

type c20World struct {
	c         *Ctx
	net       *Net
	nn        *NetNode
	ref       *Node
	blks      []*types.Block // 0 = genesis
	conf      [][]types.SignData
	byHash    map[common.Hash]int
	peers     []*simPeer
	pend      []c20Pending
	seq       int
	faults    bool // requests may be delayed / lost
	lastFault time.Time

	refCur, refSta *types.Block
	delivered      map[int]bool
	txs            []c20Tx
	txDelivered    map[int]time.Time
	sawCached      map[int]bool
	allHashes      []common.Hash
	last           *nodeView
	log            []string
}

func (w *c20World) logf(format string, a ...interface{}) {
	if len(w.log) < 400 {
		w.log = append(w.log, fmt.Sprintf("+%.1fs ", time.Since(time.Unix(int64(w.net.GenesisT), 0)).Seconds())+fmt.Sprintf(format, a...))
	}
}

func (w *c20World) schedule(d time.Duration, p *simPeer, code p2p.MsgCode, payload []byte, blocks, txs []int) {
	w.seq++
	w.pend = append(w.pend, c20Pending{at: time.Now().Add(d), seq: w.seq, peer: p, code: code, payload: payload, blocks: blocks, txs: txs})
}

// deliverDue hands every due message to its peer's queue (in schedule order).
func (w *c20World) deliverDue() bool {
	now := time.Now()
	sort.SliceStable(w.pend, func(i, j int) bool {
		if !w.pend[i].at.Equal(w.pend[j].at) {
			return w.pend[i].at.Before(w.pend[j].at)
		}
		return w.pend[i].seq < w.pend[j].seq
	})
	n := 0
	for n < len(w.pend) && !w.pend[n].at.After(now) {
		e := w.pend[n]
		if !e.peer.IsClosed() {
			e.peer.push(e.code, e.payload)
			for _, b := range e.blocks {
				w.markBlockSent(b)
			}
			for _, t := range e.txs {
				if _, ok := w.txDelivered[t]; !ok {
					w.txDelivered[t] = now
				}
			}
			simrt.Log("net.in", int64(e.peer.Idx), int64(e.code), "")
		}
		n++
	}
	w.pend = w.pend[n:]
	return n > 0
}

func (w *c20World) markBlockSent(b int) { w.delivered[b] = true }

// serve answers what the node wrote to the scripted peers since the last call.
func (w *c20World) serve() {
	c := w.c
	for _, o := range w.nn.Sink.drain() {
		p := o.Peer
		var delay time.Duration
		respond := func(code p2p.MsgCode, payload []byte, blocks []int) {
			w.schedule(delay, p, code, payload, blocks, nil)
		}
		pickFault := func() {
			delay = time.Duration(c.Draw("rdelay", 40)) * time.Millisecond
			if !w.faults {
				return
			}
			switch c.Draw("fault", 8) {
			case 5:
				delay = 700 * time.Millisecond
				c.Fault("response-delayed")
			case 6:
				delay = 3 * time.Second
				c.Fault("response-delayed")
			case 7:
				// lost on the wire; the scripted peer retransmits later (no permanent loss)
				delay = time.Duration(5+c.Draw("fault", 10)) * time.Second
				c.Fault("response-lost-retransmitted")
			}
			if t := time.Now().Add(delay); t.After(w.lastFault) && delay >= 700*time.Millisecond {
				w.lastFault = t
			}
		}
		switch o.Code {
		case p2p.GetBlocksMsg, p2p.GetBlocksWithChangeLogMsg:
			var q network.GetBlocksData
			if err := rlpDecode(o.Payload, &q); err != nil {
				continue
			}
			w.logf("node->p%d GetBlocks(%d,%d)", p.Idx, q.From, q.To)
			if q.From == q.To {
				c.Probe("node_requested_single_block")
			} else {
				c.Probe("node_requested_block_range")
			}
			pickFault()
			if q.From > q.To {
				continue
			}
			// an honest peer answers like respBlocks: batches of at most 10, ascending
			var batch []*types.Block
			var idx []int
			flush := func() {
				if len(batch) > 0 {
					respond(p2p.BlocksMsg, encBlocks(batch...), idx)
					batch, idx = nil, nil
				}
			}
			for h := q.From; h <= q.To && int(h) < len(w.blks); h++ {
				batch = append(batch, w.wire(int(h), true))
				idx = append(idx, int(h))
				if len(batch) == 10 {
					flush()
				}
				if h == ^uint32(0) {
					break
				}
			}
			flush()
		case p2p.GetConfirmsMsg:
			var q network.GetConfirmInfo
			if err := rlpDecode(o.Payload, &q); err != nil {
				continue
			}
			c.Probe("node_requested_confirms")
			pickFault()
			res := &network.BlockConfirms{Height: q.Height, Hash: q.Hash}
			if i, ok := w.byHash[q.Hash]; ok {
				res.Pack = w.conf[i]
			} else if q.Hash == (common.Hash{}) && int(q.Height) < len(w.blks) {
				res.Pack = w.conf[q.Height]
			}
			respond(p2p.ConfirmsMsg, mustRlp(res), nil)
		case p2p.GetLstStatusMsg:
			c.Probe("node_polled_status")
			pickFault()
			respond(p2p.LstStatusMsg, mustRlp(w.status(true)), nil)
		case p2p.DiscoverReqMsg:
			var q network.DiscoverReqData
			if err := rlpDecode(o.Payload, &q); err != nil {
				continue
			}
			respond(p2p.DiscoverResMsg, mustRlp(&network.DiscoverResData{Sequence: q.Sequence, Nodes: []string{}}), nil)
		case p2p.TxsMsg:
			c.Probe("node_relayed_txs")
		case p2p.BlocksMsg, p2p.BlockHashMsg, p2p.ConfirmMsg, p2p.ConfirmsMsg, p2p.ProHandshakeMsg, p2p.LstStatusMsg, p2p.DiscoverResMsg:
			// broadcasts / answers of the node: nothing to do for a scripted peer
		}
	}
}

// wire returns the block as an honest peer sends it (ShallowCopy: no change logs), with or
// without the confirmations the peer has collected.
func (w *c20World) wire(i int, withConf bool) *types.Block {
	b := wireCopyBlock(w.blks[i])
	b.ChangeLogs = nil
	b.Confirms = nil
	if withConf {
		b.Confirms = append([]types.SignData(nil), w.conf[i]...)
	}
	return b
}

func (w *c20World) status(tip bool) *network.LatestStatus {
	if !tip {
		g := w.blks[0]
		return &network.LatestStatus{CurHeight: 0, CurHash: g.Hash(), StaHeight: 0, StaHash: g.Hash()}
	}
	return &network.LatestStatus{CurHeight: w.refCur.Height(), CurHash: w.refCur.Hash(), StaHeight: w.refSta.Height(), StaHash: w.refSta.Hash()}
}

// step lets simulated time pass (d may be 0), delivering due messages and serving requests.
func (w *c20World) step(d time.Duration) {
	end := time.Now().Add(d)
	for {
		for {
			delivered := w.deliverDue()
			w.c.W.Settle()
			w.serve()
			if !delivered && !w.hasDue() {
				break
			}
		}
		w.observe()
		now := time.Now()
		if !now.Before(end) {
			return
		}
		next := end
		for _, e := range w.pend {
			if e.at.Before(next) {
				next = e.at
			}
		}
		sl := next.Sub(now)
		if sl > 250*time.Millisecond {
			sl = 250 * time.Millisecond
		}
		if sl <= 0 {
			sl = time.Millisecond
		}
		w.c.W.Sleep(sl)
	}
}

func (w *c20World) hasDue() bool {
	now := time.Now()
	for _, e := range w.pend {
		if !e.at.After(now) {
			return true
		}
	}
	return false
}

// observe evaluates the "kept until the parent arrives" clause at a quiescent point.
func (w *c20World) observe() {
	c := w.c
	nn := w.nn
	if nn.BC == nil || nn.StateLocked {
		return
	}
	for _, p := range w.peers {
		if p.pending() > 0 && !p.IsClosed() {
			return // not everything has been consumed yet (cannot happen after Settle; be safe)
		}
	}
	v, ok := nn.view(w.allHashes...)
	if !ok {
		c.Fail("C20/stuck/node-state-locked", "the node's chain head / caches cannot be read any more: a node task holds one of their locks and never releases it\n%s", w.dump())
		return
	}
	w.last = v
	cached := v.Cached
	if len(cached) > 0 {
		c.Probe("blocks_held_in_cache")
	}
	if v.ConfCache > 0 {
		c.Probe("confirms_held_before_block")
	}
	sta := v.Sta.Height()
	idx := make([]int, 0, len(w.delivered))
	for i := range w.delivered {
		idx = append(idx, i)
	}
	sort.Ints(idx)
	for _, i := range idx {
		b := w.blks[i]
		has := v.Has[b.Hash()]
		if cached[b.Hash()] {
			w.sawCached[i] = true
		}
		if has && w.sawCached[i] {
			w.sawCached[i] = false
			c.Probe("cached_block_inserted_after_parent_arrived")
		}
		if has || b.Height() <= sta || cached[b.Hash()] {
			continue
		}
		c.Fail("C20/kept/received-block-dropped",
			"block %d (height %d) was received by the node, is not on its chain (parent known: %v), is above its stable height %d, and is NOT held in the out-of-order cache any more (cache holds %d blocks)\n%s",
			i, b.Height(), v.Has[b.ParentHash()], sta, len(cached), w.dump())
	}
	c.State(hashStrings(fmt.Sprint(v.Cur.Height(), sta, len(cached), v.ConfCache)))
}

// has reports whether the node had the block at the last quiescent point.
func (w *c20World) has(h common.Hash) bool { return w.last != nil && w.last.Has[h] }

func (w *c20World) dump() string {
	return "trace:\n  " + strings.Join(w.log, "\n  ")
}

func c20SimConfig(c *Ctx) simrt.Config {
	if c.Var == "sync" && c.Draw("cfg", 4) == 3 {
		return simrt.Config{Policy: simrt.PolicyRandom, MeanGap: []int{64, 512, 4096}[c.Draw("cfg", 3)]}
	}
	return simrt.Config{Policy: simrt.PolicyCoarse}
}

func c20Scenario(c *Ctx) {
	if c.Var == "cache" {
		c20CacheScenario(c)
		return
	}
	c20SyncScenario(c)
}

func c20SyncScenario(c *Ctx) {
	defer installDetRand(c)()
	p := defaultParams(c)
	p.NDeputies = 3 + c.Draw("gen", 3)
	net := NewNet(c, p)
	f := net.NewFactory(40)
	w := &c20World{c: c, net: net, byHash: map[common.Hash]int{}, delivered: map[int]bool{}, txDelivered: map[int]time.Time{}, sawCached: map[int]bool{}}

	// ---- fabricate the segment ----
	L := 3 + c.Draw("gen", 10)
	gen := f.Blocks[net.GenBlock.Hash()]
	w.blks = []*types.Block{gen}
	w.conf = [][]types.SignData{nil}
	w.byHash[gen.Hash()] = 0
	parent := gen
	threshold := (2*p.NDeputies + 2) / 3 // ceil(2n/3) signers including the miner (statement C03)
	var onChain []*types.Transaction
	for i := 1; i <= L; i++ {
		c.W.Sleep(time.Duration(p.SlotMs) * time.Millisecond)
		now := time.Now().Unix()
		prank := -1
		if dpt := net.DeputyByMiner(parent.MinerAddress()); dpt != nil && parent.Height() > 0 {
			prank = dpt.Rank
		}
		d := InTurnRank(prank, int64(parent.Time())*1000, now*1000, int64(p.SlotMs), p.NDeputies)
		var txs types.Transactions
		for k := c.Draw("gen", 3); k > 0; k-- {
			tx := net.SignedTransfer(net.Founder, net.Users[(i+k)%len(net.Users)].Addr, common.Lemo2Mo("10"), uint64(now+1500), fmt.Sprintf("seg-%d-%d", i, k))
			txs = append(txs, tx)
		}
		blk, inv, err := f.Mine(d, parent, uint32(now), txs, "")
		if err != nil || len(inv) > 0 {
			panic(fmt.Sprintf("c20: factory could not mine block %d: %v (invalid txs %d)", i, err, len(inv)))
		}
		onChain = append(onChain, blk.Txs...)
		// confirmations by other deputies: all / just enough / one short / none
		var others []int
		for k := 0; k < p.NDeputies; k++ {
			if k != d {
				others = append(others, k)
			}
		}
		want := len(others)
		switch c.Draw("gen", 5) {
		case 1:
			want = threshold - 1
		case 2:
			want = threshold - 2
		case 3:
			want = 0
		}
		if want < 0 {
			want = 0
		}
		var sigs []types.SignData
		for _, k := range others[:want] {
			sigs = append(sigs, net.Confirm(k, blk.Hash()))
		}
		w.blks = append(w.blks, blk)
		w.conf = append(w.conf, sigs)
		w.byHash[blk.Hash()] = i
		parent = blk
	}
	c.W.Sleep(time.Second)

	// ---- reference node: same segment, in order ----
	ref := net.AddNode(2, "ref", detKey("observer2"))
	w.ref = ref
	if !ref.StartNode() {
		panic("c20: reference node did not start")
	}
	for i := 1; i <= L; i++ {
		if _, err := ref.InsertBlock(w.wire(i, false)); err != nil {
			c.Probe("reference_rejected_block")
			c.Sample = fmt.Sprintf("reference node rejected valid block %d: %v", i, err)
			ref.StopNode()
			f.CloseFactory()
			return
		}
		if len(w.conf[i]) > 0 {
			ref.InsertConfirms(uint32(i), w.blks[i].Hash(), w.conf[i])
		}
	}
	w.refCur, w.refSta = ref.BC.CurrentBlock(), ref.BC.StableBlock()
	if w.refCur.Hash() != w.blks[L].Hash() {
		c.Probe("reference_not_at_tip")
		ref.StopNode()
		f.CloseFactory()
		return
	}

	for _, b := range w.blks {
		w.allHashes = append(w.allHashes, b.Hash())
	}

	// ---- node under test (observer) with the real protocol manager ----
	nn := net.AddNetNode(1, "n1", detKey("observer1"))
	w.nn = nn
	if !nn.StartNet(false, 20) {
		panic("c20: node did not start")
	}

	// ---- transactions for TxsMsg batches ----
	now := uint64(time.Now().Unix())
	nValid := 2 + c.Draw("gen", 4)
	for i := 0; i < nValid; i++ {
		from := net.Users[i%len(net.Users)]
		tx := net.SignedTransfer(from, net.Users[(i+1)%len(net.Users)].Addr, big.NewInt(int64(1000+i)), now+1500, fmt.Sprintf("v%d", i))
		w.txs = append(w.txs, c20Tx{tx, "valid", fmt.Sprintf("v%d", i)})
	}
	w.txs = append(w.txs, c20Tx{net.SignedTransfer(net.Users[0], net.Users[1].Addr, big.NewInt(7), now-30, "expired"), "expired", "x0"})
	{
		tx := types.NewTransaction(net.Users[1].Addr, net.Users[2].Addr, big.NewInt(8), 100000, big.NewInt(1000000000), nil, params.OrdinaryTx, net.P.ChainID+1, now+1500, "", "otherchain")
		w.txs = append(w.txs, c20Tx{signTx(tx, net.Users[1]), "chainid", "c0"})
	}
	for i, tx := range onChain {
		if i < 3 {
			w.txs = append(w.txs, c20Tx{tx, "onchain", fmt.Sprintf("o%d", i)})
		}
	}

	// ---- peers ----
	nPeers := 1 + c.Draw("gen", 3)
	for j := 0; j < nPeers; j++ {
		id := detKey(fmt.Sprintf("outsider%d", j)).NodeID
		if j < p.NDeputies && !c.Chance("gen", 1, 4) {
			id = net.Deputies[j].Node.NodeID
		}
		sp := newSimPeer(j, fmt.Sprintf("p%d", j), id, nn.Sink, nn.Tag)
		w.peers = append(w.peers, sp)
		tip := c.Chance("gen", 1, 5) // most peers connected while the chain was at genesis
		if tip {
			c.Probe("peer_handshake_announces_tip")
		}
		sp.push(p2p.ProHandshakeMsg, encHandshake(net.P.ChainID, gen.Hash(), *w.status(tip)))
		nn.announce(sp)
	}
	if nPeers > 1 {
		c.Fault("several-senders")
	}
	w.faults = true
	w.lastFault = time.Now()
	w.step(0)
	if w.last != nil && w.last.Peers != nPeers {
		got := w.last.Peers
		c.Fail("C20/peers/not-registered", "%d scripted peers completed the protocol handshake but the protocol manager registered %d", nPeers, got)
	}

	// ---- push plan ----
	var items []c20Item
	peerOf := func() int { return c.Draw("gen", nPeers) }
	gaps := map[int]bool{}
	for g := c.Draw("gen", 5); g > 0 && L > 2; g-- {
		gaps[1+c.Draw("gen", L-1)] = true // never the tip: an unannounced tip cannot be known to anyone
	}
	for i := 1; i <= L; i++ {
		if gaps[i] {
			continue
		}
		it := c20Item{Kind: "blocks", Peer: peerOf(), Blocks: []int{i}, Embed: c.Chance("gen", 1, 6)}
		if i < L && !gaps[i+1] && c.Chance("gen", 1, 6) { // two blocks in one message, either order
			if c.Chance("gen", 1, 2) {
				it.Blocks = []int{i + 1, i}
			} else {
				it.Blocks = []int{i, i + 1}
			}
			c.Probe("multi_block_message")
		}
		items = append(items, it)
		if c.Chance("gen", 1, 4) {
			dup := it
			dup.Peer = peerOf()
			items = append(items, dup)
		}
	}
	for i := 1; i <= L; i++ {
		for s := range w.conf[i] {
			items = append(items, c20Item{Kind: "confirm", Peer: peerOf(), Blk: i, Sig: s})
			if c.Chance("gen", 1, 8) {
				items = append(items, c20Item{Kind: "confirm", Peer: peerOf(), Blk: i, Sig: s})
			}
		}
		if len(w.conf[i]) > 0 && c.Chance("gen", 1, 4) {
			items = append(items, c20Item{Kind: "pack", Peer: peerOf(), Blk: i})
		}
	}
	nBatches := c.Draw("gen", 4)
	for b := 0; b < nBatches; b++ {
		it := c20Item{Kind: "txs", Peer: peerOf()}
		for k := 1 + c.Draw("gen", 4); k > 0; k-- {
			it.Txs = append(it.Txs, c.Draw("gen", len(w.txs)))
		}
		items = append(items, it)
	}
	// permutation (all-zero draws keep the natural order)
	moved := 0
	for i := len(items) - 1; i >= 1; i-- {
		j := i - c.Draw("perm", i+1)
		if j != i {
			moved++
		}
		items[i], items[j] = items[j], items[i]
	}
	for i := range items {
		items[i].Delay = []time.Duration{0, 0, 0, 30 * time.Millisecond, 200 * time.Millisecond, 600 * time.Millisecond, 2 * time.Second, 11 * time.Second}[c.Draw("delay", 8)]
		items[i].Burst = c.Chance("delay", 1, 4)
		if items[i].Delay >= 600*time.Millisecond {
			c.Fault("push-delayed")
		}
	}
	var plan []string
	for _, it := range items {
		plan = append(plan, it.String())
	}

	// ---- scripted phase ----
	seenBlock := map[int]bool{}
	for n, it := range items {
		if it.Delay > 0 {
			w.step(it.Delay)
		}
		sp := w.peers[it.Peer]
		if sp.IsClosed() {
			// the node dropped this (honest) peer; use any peer that is still connected
			c.Probe("honest_peer_dropped_by_node")
			for _, q := range w.peers {
				if !q.IsClosed() {
					sp = q
				}
			}
			if sp.IsClosed() {
				break
			}
		}
		switch it.Kind {
		case "blocks":
			var bs []*types.Block
			for _, i := range it.Blocks {
				bs = append(bs, w.wire(i, it.Embed))
				if seenBlock[i] {
					c.Fault("duplicate-block")
				}
				seenBlock[i] = true
				if !w.has(w.blks[i].ParentHash()) {
					c.Fault("block-before-parent")
				}
			}
			w.schedule(0, sp, p2p.BlocksMsg, encBlocks(bs...), it.Blocks, nil)
		case "confirm":
			if !w.has(w.blks[it.Blk].Hash()) {
				c.Fault("confirm-before-block")
			}
			w.schedule(0, sp, p2p.ConfirmMsg, mustRlp(&network.BlockConfirmData{Hash: w.blks[it.Blk].Hash(), Height: uint32(it.Blk), SignInfo: w.conf[it.Blk][it.Sig]}), nil, nil)
		case "pack":
			if !w.has(w.blks[it.Blk].Hash()) {
				c.Probe("confirm_pack_before_block")
			}
			w.schedule(0, sp, p2p.ConfirmsMsg, mustRlp(&network.BlockConfirms{Height: uint32(it.Blk), Hash: w.blks[it.Blk].Hash(), Pack: w.conf[it.Blk]}), nil, nil)
		case "txs":
			var txs types.Transactions
			for _, t := range it.Txs {
				txs = append(txs, w.txs[t].Tx)
			}
			w.schedule(0, sp, p2p.TxsMsg, mustRlp(&txs), nil, it.Txs)
		}
		w.logf("%s", it.String())
		if !it.Burst || n == len(items)-1 {
			w.step(0)
		} else {
			w.deliverDue()
		}
	}
	if moved > 0 {
		c.Fault("reordered")
	}
	if len(gaps) > 0 {
		c.Fault("gap-blocks-never-pushed")
	}
	// drain what is still in flight (retransmissions of "lost" answers included)
	for len(w.pend) > 0 {
		w.step(250 * time.Millisecond)
	}
	if time.Now().After(w.lastFault) {
		w.lastFault = time.Now()
	}
	for time.Now().Before(w.lastFault) {
		w.step(250 * time.Millisecond)
	}
	w.faults = false
	faultEnd := time.Now()
	w.logf("--- last fault; liveness window starts ---")

	// ---- bounded liveness: 5 simulated minutes ----
	converged := func() bool {
		return w.last != nil && w.last.Cur.Hash() == w.refCur.Hash() && w.last.Sta.Hash() == w.refSta.Hash()
	}
	alive := 0
	for _, sp := range w.peers {
		if !sp.IsClosed() {
			alive++
		}
	}
	for !converged() && time.Since(faultEnd) < 5*time.Minute && !c.Failed() {
		w.step(500 * time.Millisecond)
	}
	took := time.Since(faultEnd)
	if took > 0 && converged() {
		switch {
		case took > 60*time.Second:
			c.Probe("converged_after_more_than_60s")
		case took > 10*time.Second:
			c.Probe("converged_after_status_poll_10s")
		default:
			c.Probe("converged_within_10s")
		}
	}
	w.step(time.Second) // let asynchronous pool insertions finish
	if w.last == nil || nn.StateLocked {
		c.Probe("node_state_unreadable_at_the_end")
		return
	}
	cur, sta := w.last.Cur, w.last.Sta
	desc := fmt.Sprintf("segment of %d blocks, %d deputies, confirmations per block %v, gaps %v, %d peers (%d still connected), plan: %s",
		L, p.NDeputies, confCounts(w.conf), keysOf(gaps), nPeers, alive, strings.Join(plan, " "))
	if alive == 0 {
		// the node closed every (honest) connection: nothing can reach it any more, so the
		// convergence clause cannot be judged in this run
		c.Probe("all_honest_peers_dropped_by_node")
	} else if !c.Failed() {
		if cur.Hash() != w.refCur.Hash() {
			c.Fail("C20/converge/current", "5 simulated minutes after the last fault the node's current block is height %d (%s), the in-order reference has height %d (%s)\n%s\n%s",
				cur.Height(), cur.Hash().Prefix(), w.refCur.Height(), w.refCur.Hash().Prefix(), desc, w.dump())
		} else if sta.Hash() != w.refSta.Hash() {
			c.Fail("C20/converge/stable", "5 simulated minutes after the last fault the node's stable block is height %d, the in-order reference has height %d (current %d on both)\n%s\n%s",
				sta.Height(), w.refSta.Height(), cur.Height(), desc, w.dump())
		}
	}

	// ---- transaction batches ----
	inPool := map[common.Hash]int{}
	for _, tx := range w.last.Pool {
		inPool[tx.Hash()]++
	}
	chainHas := map[common.Hash]bool{}
	for i := 1; i <= L; i++ {
		if w.last.Has[w.blks[i].Hash()] {
			for _, tx := range w.blks[i].Txs {
				chainHas[tx.Hash()] = true
			}
		}
	}
	known := map[common.Hash]string{}
	var tIdx []int
	for t := range w.txDelivered {
		tIdx = append(tIdx, t)
	}
	sort.Ints(tIdx)
	var batches []string
	for _, it := range items {
		if it.Kind == "txs" {
			var ns []string
			for _, t := range it.Txs {
				ns = append(ns, w.txs[t].Name)
			}
			batches = append(batches, "["+strings.Join(ns, " ")+"]")
		}
	}
	for _, t := range tIdx {
		x := w.txs[t]
		h := x.Tx.Hash()
		known[h] = x.Name
		n := inPool[h]
		switch x.Class {
		case "valid":
			if n == 0 {
				c.Fail("C20/txs/valid-tx-missing", "valid transaction %s (unexpired, right chain id, not on chain) was received in a batch but is not in the pool; batches in delivery order: %s; pool holds %s", x.Name, strings.Join(batches, " "), poolNames(inPool, w.txs))
			} else if n > 1 {
				c.Fail("C20/txs/valid-tx-twice", "valid transaction %s is in the pool %d times; batches: %s", x.Name, n, strings.Join(batches, " "))
			} else {
				c.Probe("valid_tx_in_pool_once")
			}
		case "expired", "chainid":
			if n > 0 {
				c.Fail("C20/txs/invalid-tx-in-pool", "invalid transaction %s (%s) was received in a batch and is in the pool; batches: %s; pool holds %s", x.Name, x.Class, strings.Join(batches, " "), poolNames(inPool, w.txs))
			}
		case "onchain":
			if n > 0 && chainHas[h] {
				c.Fail("C20/txs/onchain-tx-in-pool", "transaction %s is part of a block on the node's chain and still in the pool; batches: %s", x.Name, strings.Join(batches, " "))
			}
		}
	}
	for h, n := range inPool {
		if _, ok := known[h]; !ok && n > 0 && !chainHas[h] {
			// a segment transaction that was never sent in a batch may legitimately sit in the
			// pool only if its block is not on the chain; anything else is foreign
			found := false
			for _, tx := range onChain {
				if tx.Hash() == h {
					found = true
				}
			}
			if !found {
				c.Fail("C20/txs/foreign-tx-in-pool", "the pool holds a transaction nobody sent")
			}
		}
	}

	c.Nontrivial = len(c.Faults) > 0 && cur.Height() > 0
	c.Sample = map[string]interface{}{"variant": "sync", "blocks": L, "deputies": p.NDeputies, "peers": nPeers, "gaps": keysOf(gaps),
		"ref_current": w.refCur.Height(), "ref_stable": w.refSta.Height(), "node_current": cur.Height(), "node_stable": sta.Height(),
		"converged_after_s": took.Seconds(), "plan": plan}

	// ---- shutdown ----
	// End the connections in a way that lets the node's handlePeer tasks return: a message with
	// an undefined code makes the handler fail and the node close the connection itself. (When
	// the REMOTE side closes first, handleMsg stays blocked in MsgCache.Pop for ever and pins the
	// whole node in memory - harmless for one run, not for the thousands of runs of a worker.)
	for _, sp := range w.peers {
		if !sp.IsClosed() {
			sp.push(p2p.MsgCode(0x1f), nil)
		}
	}
	c.W.Settle()
	for _, sp := range w.peers {
		if !sp.IsClosed() {
			nn.remoteClose(sp)
		}
	}
	c.W.Settle()
	if !nn.StopNet() {
		c.Probe("protocol_manager_stop_did_not_finish")
	}
	ref.StopNode()
	f.CloseFactory()
	c.W.Sleep(2 * time.Second)
	nn.Release()
}

func confCounts(conf [][]types.SignData) []int {
	out := make([]int, 0, len(conf))
	for i, s := range conf {
		if i > 0 {
			out = append(out, len(s))
		}
	}
	return out
}

func keysOf(m map[int]bool) []int {
	out := make([]int, 0, len(m))
	for k := range m {
		out = append(out, k)
	}
	sort.Ints(out)
	return out
}

func poolNames(inPool map[common.Hash]int, txs []c20Tx) string {
	var ns []string
	for _, x := range txs {
		if n := inPool[x.Tx.Hash()]; n > 0 {
			ns = append(ns, fmt.Sprintf("%s×%d", x.Name, n))
		}
	}
	sort.Strings(ns)
	return "[" + strings.Join(ns, " ") + "]"
}

func init() {
	Register(&PropDef{
		ID:        "C20",
		Variants:  []string{"sync", "sync", "cache", "sync", "sync"}, // 5 entries: does not alias with 4/8/16 workers
		SimConfig: c20SimConfig,
		Scenario:  c20Scenario,
		Rule: "sync: a factory-made valid segment of 3-12 blocks (3-5 deputies, 0-2 transfers per block, per block all / just enough / one short / no confirmations) " +
			"is held by 1-3 scripted peers of the real ProtocolManager; pushes (BlocksMsg with 1-2 blocks, ConfirmMsg per signature, unsolicited ConfirmsMsg packs, TxsMsg batches of " +
			"valid / expired / wrong-chain / on-chain transactions) are permuted, duplicated, delayed (0-11 s), <=4 non-tip blocks are never pushed; the node's GetBlocks/GetConfirms/GetLstStatus " +
			"requests are answered with delay or loss+retransmission; 1 run in 4 under random preemption. cache: 3-24 Add/Remove/Clear/Iterate operations on the real BlockCache over 3-8 heights x 1-3 blocks. " +
			"A run is non-trivial when at least one fault kind fired and the node's chain advanced (sync) or >=3 distinct heights were added (cache); distinct = distinct event-log digests",
		Real: []string{"network.ProtocolManager (all loops, handlers, peerSet, BlockCache, ConfirmCache)", "p2p.DiscoverManager on an empty simulated directory",
			"chain.BlockChain + consensus.DPoVP + txpool + store (nodesim stack) for the node under test and for the in-order reference", "common/subscribe event bus (per node)"},
		Stub: []string{"remote peers: simPeer implements p2p.IPeer (no framing/encryption at this level), scripted honest behaviour written from network/protocol.go",
			"p2p.Server: peers are announced with subscribe.AddNewPeer / DeletePeer as Server.run does", "miner, RPC"},
		Assumptions: []string{
			"the node under test is an observer (its key is not a deputy's), because a deputy's own optional confirmation depends on arrival order by protocol design",
			"every confirmation is sent at least once as a ConfirmMsg; unsolicited ConfirmsMsg packs are additional duplicates (an honest peer sends a pack only as an answer to GetConfirms)",
			"a block that is never pushed (gap) is never the tip; the tip is always pushed at least once",
			"no permanent loss: an answer that is lost is retransmitted 5-15 s later; after the last such fault requests are answered within 40 ms",
			"BlockCache.FirstHeight returning the height of an emptied group is counted as a probe, not as a violation (the statement does not speak about it)",
		},
	})
}
