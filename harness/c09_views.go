package harness

import (
	"fmt"
	"hash/fnv"
	"math/big"
	"os"
	"sort"
	"strings"
	"time"

	"github.com/LemoFoundationLtd/lemochain-core/chain/types"
	"github.com/LemoFoundationLtd/lemochain-core/common"
	"github.com/LemoFoundationLtd/lemochain-core/common/merkle"
	"github.com/LemoFoundationLtd/lemochain-core/store"

	"verif/simrt"
)

// C09 (storesim): the real store.ChainDatabase on the simulated disk is driven directly with
// random block trees, per-block account write sets, reads through any view, stabilisation of
// any unconfirmed block and clean / crash restarts. After EVERY operation the full observable
// state is compared with a reference model written from the property statement:
//
//   view(B,a)   = value written by the nearest ancestor-or-self of B (above the stable block)
//                 that wrote a, else the persisted (stable) value;
//   stabilise S = the blocks on the path old-stable..S become the stable chain and their writes
//                 are folded, oldest first, into the persisted values; every other block that is
//                 not a descendant of S disappears; descendants keep their views.
//
// The model knows nothing about tries, dyes or caches.

const (
	c09Home = "/sim/c09/chaindata"
	c09Tag  = 1
)

const (
	c09Alive     = iota // unconfirmed, in the tree above the stable block
	c09Chain            // on the stable chain (persisted)
	c09Dropped          // pruned by a stabilisation
	c09Forgotten        // unconfirmed block lost by a restart (memory only)
)

type c09Blk struct {
	id     int
	blk    *types.Block
	hash   common.Hash
	parent *c09Blk
	height uint32
	writes map[int]int64 // address index -> value id
	worder []int         // order of the writes (for re-feeding after a restart)
	kids   []*c09Blk
	state  int
}

func (b *c09Blk) String() string {
	if b == nil {
		return "nil"
	}
	return fmt.Sprintf("b%d@%d", b.id, b.height)
}

type c09World struct {
	c      *Ctx
	db     *store.ChainDatabase
	addrs  []common.Address
	blocks []*c09Blk
	stable *c09Blk
	chain  []*c09Blk     // stable chain by height
	disk   map[int]int64 // persisted value id per address index (view of the stable block)

	nextVal  int64
	valOwner map[int64]*c09Blk
	hist     []string

	cachedRead map[[2]int]bool // (block id, address) pairs on which a read fell through to disk and was cached
	forked     bool
	stabilised int
	nwrites    int
	extra      int // makes headers of re-created universes distinct
	closed     []*store.ChainDatabase
	dbClosed   bool // Close() has been called on w.db
}

func (w *c09World) logf(format string, args ...interface{}) {
	s := fmt.Sprintf(format, args...)
	w.hist = append(w.hist, s)
	simrt.Log("c09", int64(len(w.hist)), 0, s)
}

func (w *c09World) histTail() string {
	h := w.hist
	if len(h) > 60 {
		h = h[len(h)-60:]
	}
	return strings.Join(h, "\n  ")
}

func (w *c09World) fail(sig, format string, args ...interface{}) {
	msg := fmt.Sprintf(format, args...)
	w.c.Fail(sig, "%s\noperations:\n  %s", msg, w.histTail())
}

// do runs f as a task of the store's node and settles (background writer included).
func (w *c09World) do(name string, f func()) bool {
	t := w.c.W.Do(c09Tag, name, f)
	if t.Panic != nil {
		// same signature as the driver derives from the recorded panic; reported at once so that the run stops here
		w.c.Fail("C09/panic/"+panicSite(t.PanicStack), "panic in task %s (node %d): %v\n%s", t.Name, t.Node, t.Panic, trimStack(t.PanicStack))
	}
	return t.Finished
}

// ---------- model ----------

// view is the reference semantics of reading address a through block b.
func (w *c09World) view(b *c09Blk, a int) (int64, bool) {
	for x := b; x != nil && x.state == c09Alive; x = x.parent {
		if v, ok := x.writes[a]; ok {
			return v, true
		}
	}
	v, ok := w.disk[a]
	return v, ok
}

func (w *c09World) alive() []*c09Blk {
	var out []*c09Blk
	for _, b := range w.blocks {
		if b.state == c09Alive {
			out = append(out, b)
		}
	}
	return out
}

func (w *c09World) isAncestorOrSelf(anc, b *c09Blk) bool {
	for x := b; x != nil; x = x.parent {
		if x == anc {
			return true
		}
	}
	return false
}

// modelStabilise applies SetStableBlock(s) to the model and returns the blocks that must disappear.
func (w *c09World) modelStabilise(s *c09Blk) (dropped []*c09Blk, path []*c09Blk) {
	for x := s; x != nil && x.state == c09Alive; x = x.parent {
		path = append(path, x)
	}
	// fold the path's writes into the persisted values, oldest first
	for i := len(path) - 1; i >= 0; i-- {
		p := path[i]
		as := make([]int, 0, len(p.writes))
		for a := range p.writes {
			as = append(as, a)
		}
		sort.Ints(as)
		for _, a := range as {
			w.disk[a] = p.writes[a]
		}
	}
	for _, b := range w.alive() {
		if b == s || w.isAncestorOrSelf(s, b) {
			continue // s itself and its descendants
		}
		onPath := false
		for _, p := range path {
			if p == b {
				onPath = true
			}
		}
		if !onPath {
			dropped = append(dropped, b)
		}
	}
	for _, d := range dropped {
		d.state = c09Dropped
	}
	for i := len(path) - 1; i >= 0; i-- {
		path[i].state = c09Chain
		w.chain = append(w.chain, path[i])
	}
	w.stable = s
	return dropped, path
}

// modelForget: a restart loses every unconfirmed block (they live in memory only).
func (w *c09World) modelForget() (lost []*c09Blk) {
	for _, b := range w.alive() {
		b.state = c09Forgotten
		lost = append(lost, b)
	}
	w.cachedRead = map[[2]int]bool{}
	return lost
}

// ---------- construction ----------

func c09Addrs(c *Ctx) []common.Address {
	n := 4 + c.Draw("addr", 7)
	dense := !c.Chance("addr", 1, 4)
	seen := map[common.Address]bool{}
	var out []common.Address
	skew := func() int { // 1 with probability 3/4, else 2
		if c.Draw("addr", 4) == 3 {
			return 2
		}
		return 1
	}
	for len(out) < n {
		var a common.Address
		for i := range a {
			a[i] = 0xaa
		}
		// keys are "0x"+40 hex digits. dense: the last three digits d1 d2 d3 vary, d1 and d2 in {1,2} with a
		// preference for 1, d3 in 1..6 - so most keys sit in one group that differs in the last digit only
		// (one compressed edge carrying several siblings) and the few keys of the other groups split that
		// edge at two different depths when they appear; wide: 144 possible keys, the first digit varies as
		// well (splits next to the root) and three of the last four digits.
		if dense {
			a[18] = byte(0xa0 | skew())
			a[19] = byte(skew()<<4 | (1 + c.Draw("addr", 6)))
		} else {
			a[0] = byte((1+c.Draw("addr", 2))<<4) | 0x0a
			a[18] = byte((1+c.Draw("addr", 2))<<4 | (1 + c.Draw("addr", 3)))
			a[19] = byte((1+c.Draw("addr", 3))<<4 | (1 + c.Draw("addr", 4)))
		}
		for seen[a] {
			a[19]++
			if a[19] == 0 {
				a[18]++
			}
		}
		seen[a] = true
		out = append(out, a)
	}
	return out
}

// c09FocusAddrs: 6-10 keys; all but two share the first 39 hex digits (last digit 1..9 in tape order), the other
// two differ two and three digits before the end, so that they split the edge above the big group.
func c09FocusAddrs(c *Ctx) []common.Address {
	n := 6 + c.Draw("addr", 5)
	base := func() common.Address {
		var a common.Address
		for i := range a {
			a[i] = 0xaa
		}
		a[18], a[19] = 0xa1, 0x10
		return a
	}
	digits := []byte{1, 2, 3, 4, 5, 6, 7, 8, 9}
	var out []common.Address
	for i := 0; i < n-2; i++ {
		j := c.Draw("addr", len(digits))
		a := base()
		a[19] |= digits[j]
		digits = append(digits[:j], digits[j+1:]...)
		out = append(out, a)
	}
	o1, o2 := base(), base()
	o1[19] = byte(0x20 | (1 + c.Draw("addr", 3))) // differs in digit 39
	o2[18] = 0xa2                                 // differs in digit 38
	o2[19] |= byte(1 + c.Draw("addr", 3))
	out = append(out, o1, o2)
	// tape-chosen order of the indices
	for i := len(out) - 1; i >= 1; i-- {
		j := i - c.Draw("addr", i+1)
		out[i], out[j] = out[j], out[i]
	}
	return out
}

func (w *c09World) newBlock(parent *c09Blk) *c09Blk {
	b := &c09Blk{id: len(w.blocks), parent: parent, writes: map[int]int64{}, state: c09Alive}
	h := &types.Header{
		MinerAddress: common.HexToAddress("0x0107134b9cdd7d89f83efa6175f9b3552f29094c"),
		TxRoot:       merkle.EmptyTrieHash,
		LogRoot:      merkle.EmptyTrieHash,
		GasLimit:     105000000,
		Time:         uint32(946684800 + b.id),
		Extra:        fmt.Sprintf("c09-%d-%d", w.extra, b.id),
	}
	if parent != nil {
		h.ParentHash = parent.hash
		h.Height = parent.height + 1
		parent.kids = append(parent.kids, b)
		if len(parent.kids) >= 2 {
			w.forked = true
		}
	}
	b.height = h.Height
	b.blk = &types.Block{Header: h}
	b.hash = b.blk.Hash()
	w.blocks = append(w.blocks, b)
	return b
}

func (w *c09World) account(a int, v int64) *types.AccountData {
	return &types.AccountData{
		Address:       w.addrs[a],
		Balance:       big.NewInt(v),
		NewestRecords: map[types.ChangeLogType]types.VersionRecord{types.ChangeLogType(1): {Version: uint32(v), Height: 0}},
		Candidate:     types.Candidate{Votes: new(big.Int), Profile: make(types.Profile)},
	}
}

// put performs one write of block b through the real API (inside a store task).
func (w *c09World) putRaw(b *c09Blk, a int, v int64) error {
	adb, err := w.db.GetActDatabase(b.hash)
	if err != nil {
		return err
	}
	acc := w.account(a, v)
	adb.Put(acc, b.height)
	// the caller keeps mutating its own object (account.Manager does): must not reach the store
	acc.Balance.SetInt64(-1)
	return nil
}

// ---------- observation ----------

type c09Obs struct {
	val int64
	ok  bool
	err error
}

func c09Decode(acc *types.AccountData, err error, want common.Address) c09Obs {
	if err == store.ErrAccountNotExist {
		return c09Obs{}
	}
	if err != nil {
		return c09Obs{err: err}
	}
	if acc == nil {
		return c09Obs{err: fmt.Errorf("nil account without error")}
	}
	if acc.Address != want {
		return c09Obs{err: fmt.Errorf("account of another address returned: %s instead of %s", acc.Address.Hex(), want.Hex())}
	}
	if acc.Balance == nil || !acc.Balance.IsInt64() {
		return c09Obs{err: fmt.Errorf("unreadable balance %v", acc.Balance)}
	}
	return c09Obs{val: acc.Balance.Int64(), ok: true}
}

// peek reads address a through the view of b WITHOUT the read-through caching side effect of
// AccountTrieDB.Get: exported pure lookup in the view's trie, else the persisted value. It is only
// used for the exhaustive comparison after every operation so that cache population stays a
// tape-controlled part of the workload; the real Get is checked by the read operations and sweeps.
func (w *c09World) peek(adb *store.AccountTrieDB, a int, persisted *c09Obs) c09Obs {
	if d := adb.GetTrie().Find(w.addrs[a].Hex()); d != nil {
		acc, ok := d.(*types.AccountData)
		if !ok {
			return c09Obs{err: fmt.Errorf("foreign node data %T", d)}
		}
		return c09Decode(acc, nil, w.addrs[a])
	}
	return *persisted // = GetAccount(a), read once per comparison
}

// realGet is the production read path (populates the view's cache).
func (w *c09World) realGet(adb *store.AccountTrieDB, a int) (o c09Obs, cachedFromDisk bool) {
	missing := adb.GetTrie().Find(w.addrs[a].Hex()) == nil
	acc, err := adb.Get(w.addrs[a])
	o = c09Decode(acc, err, w.addrs[a])
	if acc != nil && acc.Balance != nil {
		acc.Balance.SetInt64(-2) // callers own what Get returns
	}
	return o, missing && o.ok
}

// getAll reads the given addresses through b's view with the production path and checks them.
func (w *c09World) getAll(b *c09Blk, as []int, how string) {
	adb, err := w.db.GetActDatabase(b.hash)
	if err != nil || adb == nil {
		w.fail("C09/view/read-error", "GetActDatabase(%s) = %v", b, err)
		return
	}
	for _, a := range as {
		o, cached := w.realGet(adb, a)
		if cached {
			w.c.Probe("read_fell_through_to_disk_and_cached")
			w.cachedRead[[2]int{b.id, a}] = true
			if b != w.stable && len(b.kids) > 0 {
				w.c.Probe("cached_read_through_block_with_children")
			}
		}
		w.checkView(b, a, o, how)
	}
}

// classify explains a wrong read in terms of the model.
func (w *c09World) classify(b *c09Blk, a int, o c09Obs) string {
	if o.err != nil {
		return "C09/view/read-error"
	}
	if !o.ok {
		return "C09/view/lost-write"
	}
	owner := w.valOwner[o.val]
	switch {
	case owner == nil:
		return "C09/view/unknown-value"
	case owner.state == c09Alive && !w.isAncestorOrSelf(owner, b):
		return "C09/isolation/foreign-fork-write"
	case owner.state == c09Dropped || owner.state == c09Forgotten:
		return "C09/isolation/dead-block-write"
	case owner.state == c09Alive:
		return "C09/view/shadowed-ancestor-write"
	}
	if dv, ok := w.disk[a]; ok && dv == o.val {
		return "C09/view/lost-write" // fell through to the persisted value although an ancestor wrote
	}
	return "C09/view/stale-persisted-value"
}

func (w *c09World) describe(v int64, ok bool) string {
	if !ok {
		return "absent"
	}
	if o := w.valOwner[v]; o != nil {
		return fmt.Sprintf("%d(written by %s)", v, o)
	}
	return fmt.Sprintf("%d", v)
}

func (w *c09World) checkView(b *c09Blk, a int, o c09Obs, how string) {
	mv, mok := w.view(b, a)
	if o.err == nil && o.ok == mok && (!mok || o.val == mv) {
		return
	}
	sig := w.classify(b, a, o)
	got := w.describe(o.val, o.ok)
	if o.err != nil {
		got = "error " + o.err.Error()
	}
	w.fail(sig, "%s of address #%d (%s) through the view of %s returned %s, the model says %s", how, a, w.addrs[a].Hex(), b, got, w.describe(mv, mok))
}

// checkPersisted compares GetAccount with the model's persisted values.
func (w *c09World) checkPersisted(when string) []c09Obs {
	out := make([]c09Obs, len(w.addrs))
	for a := range w.addrs {
		acc, err := w.db.GetAccount(w.addrs[a])
		o := c09Decode(acc, err, w.addrs[a])
		out[a] = o
		mv, mok := w.disk[a]
		if o.err == nil && o.ok == mok && (!mok || o.val == mv) {
			continue
		}
		got := w.describe(o.val, o.ok)
		if o.err != nil {
			got = "error " + o.err.Error()
		}
		sig := "C09/persisted/not-stable-view"
		if strings.HasPrefix(when, "reopen") {
			sig = "C09/persisted/after-" + strings.Fields(when)[0]
		}
		w.fail(sig, "%s: GetAccount(#%d %s) = %s, the stable block %s's view is %s", when, a, w.addrs[a].Hex(), got, w.stable, w.describe(mv, mok))
	}
	return out
}

// fullCheck compares everything observable with the model (runs inside a store task).
// deep: also the blocks that are not in the tree any more and the whole stable chain (disk lookups); it is
// set after every operation that touches the disk or prunes (SetStableBlock, restarts, final check).
func (w *c09World) fullCheck(when string, deep bool) {
	// stable pointer
	lb, err := w.db.LoadLatestBlock()
	if err != nil || lb == nil || lb.Hash() != w.stable.hash {
		w.fail("C09/stable/pointer", "%s: LoadLatestBlock = %v (err %v), the model's stable block is %s", when, shortBlk(lb), err, w.stable)
		return
	}
	// unconfirmed set
	inTree := map[common.Hash]int{}
	w.db.IterateUnConfirms(func(b *types.Block) { inTree[b.Hash()]++ })
	for _, b := range w.blocks {
		n := inTree[b.hash]
		delete(inTree, b.hash)
		switch {
		case b.state == c09Alive && n != 1:
			w.fail("C09/prune/descendant-lost", "%s: %s must be in the unconfirmed tree, IterateUnConfirms visits it %d times", when, b, n)
		case b.state != c09Alive && n != 0:
			w.fail("C09/prune/not-removed", "%s: %s (state %d) must not be in the unconfirmed tree, IterateUnConfirms visits it %d times", when, b, b.state, n)
		}
		if !deep && b.state != c09Alive {
			continue
		}
		ex, err := w.db.IsExistByHash(b.hash)
		want := b.state == c09Alive || b.state == c09Chain
		if err != nil || ex != want {
			sig := "C09/prune/exists-after-drop"
			if want {
				sig = "C09/prune/vanished"
			}
			w.fail(sig, "%s: IsExistByHash(%s) = %v (err %v), model state %d", when, b, ex, err, b.state)
		}
	}
	if len(inTree) != 0 {
		w.fail("C09/prune/unknown-block", "%s: IterateUnConfirms visits %d blocks the harness never inserted", when, len(inTree))
	}
	// ancestry through GetUnConfirmByHeight
	for _, b := range w.blocks {
		switch b.state {
		case c09Alive:
			for x := b; x != nil && x.state == c09Alive; x = x.parent {
				got, err := w.db.GetUnConfirmByHeight(x.height, b.hash)
				if err != nil || got == nil || got.Hash() != x.hash {
					w.fail("C09/tree/ancestor", "%s: GetUnConfirmByHeight(%d, leaf %s) = %v (err %v), model ancestor %s", when, x.height, b, shortBlk(got), err, x)
				}
			}
			if got, err := w.db.GetUnConfirmByHeight(w.stable.height, b.hash); err != store.ErrBlockNotExist {
				w.fail("C09/tree/stable-height", "%s: GetUnConfirmByHeight(stable height %d, leaf %s) = %v (err %v), expected ErrBlockNotExist", when, w.stable.height, b, shortBlk(got), err)
			}
		case c09Dropped, c09Forgotten:
			if !deep {
				continue
			}
			if got, err := w.db.GetUnConfirmByHeight(b.height, b.hash); err != store.ErrBlockNotExist {
				w.fail("C09/prune/still-reachable", "%s: GetUnConfirmByHeight(%d, %s) = %v (err %v) for a block that disappeared", when, b.height, b, shortBlk(got), err)
			}
		}
	}
	// stable chain
	for h, cb := range w.chain {
		if !deep && h != len(w.chain)-1 {
			continue
		}
		got, err := w.db.GetBlockByHeight(uint32(h))
		if err != nil || got == nil || got.Hash() != cb.hash {
			w.fail("C09/stable/chain", "%s: GetBlockByHeight(%d) = %v (err %v), model %s", when, h, shortBlk(got), err, cb)
		}
	}
	// persisted account data = the stable block's view
	persisted := w.checkPersisted(when)
	// every view, every address
	views := append([]*c09Blk{w.stable}, w.alive()...)
	for _, b := range views {
		adb, err := w.db.GetActDatabase(b.hash)
		if err != nil || adb == nil {
			w.fail("C09/view/read-error", "%s: GetActDatabase(%s) = %v", when, b, err)
			continue
		}
		for a := range w.addrs {
			w.checkView(b, a, w.peek(adb, a, &persisted[a]), when+": side-effect-free read")
		}
	}
	// abstract state
	hs := fnv.New64a()
	fmt.Fprintf(hs, "s%d|", w.stable.height)
	for _, b := range w.alive() {
		fmt.Fprintf(hs, "%d:%d:%d|", b.height-w.stable.height, len(b.kids), len(b.writes))
	}
	w.c.State(hs.Sum64())
}

func shortBlk(b *types.Block) string {
	if b == nil {
		return "nil"
	}
	h := b.Hash()
	return fmt.Sprintf("[h=%d %x %q]", b.Height(), h[:3], b.Extra())
}

// ---------- operations ----------

func (w *c09World) checked(name, when string, f func()) bool {
	ok := w.do(name, func() {
		if f != nil {
			f()
		}
		if !w.c.Failed() {
			w.fullCheck(when, f == nil || strings.Contains(when, "re-feed") || strings.Contains(when, "final"))
		}
	})
	if !ok && !w.c.Failed() {
		w.fail("C09/stuck/"+name, "operation %q did not return (store task blocked)", when)
	}
	return ok
}

func (w *c09World) opAddBlock(parent *c09Blk) *c09Blk {
	b := w.newBlock(parent)
	w.logf("SetBlock %s parent %s", b, parent)
	w.checked("setblock", "after SetBlock "+b.String(), func() {
		if err := w.db.SetBlock(b.hash, b.blk); err != nil {
			w.fail("C09/setblock/refused", "SetBlock(%s on %s) = %v", b, parent, err)
		}
	})
	return b
}

func (w *c09World) opWrite(b *c09Blk, as []int) {
	vals := make([]int64, len(as))
	for i, a := range as {
		w.nextVal++
		vals[i] = w.nextVal
		w.valOwner[vals[i]] = b
		if w.cachedRead[[2]int{b.id, a}] {
			w.c.Probe("write_after_cached_read_same_view")
		}
		for _, s := range w.alive() {
			if s != b && s.height == b.height {
				if _, ok := s.writes[a]; ok {
					w.c.Probe("same_address_written_by_block_of_equal_height")
				}
			}
		}
	}
	w.logf("Put %s addrs %v values %v", b, as, vals)
	w.checked("put", fmt.Sprintf("after Put %s %v", b, as), func() {
		for i, a := range as {
			if err := w.putRaw(b, a, vals[i]); err != nil {
				w.fail("C09/put/error", "GetActDatabase(%s) = %v", b, err)
			}
			b.writes[a] = vals[i]
			b.worder = append(b.worder, a)
			w.nwrites++
		}
	})
}

func (w *c09World) opRead(b *c09Blk, as []int) {
	w.logf("Get through %s addrs %v", b, as)
	w.checked("get", fmt.Sprintf("after Get through %s %v", b, as), func() { w.getAll(b, as, "Get") })
}

func (w *c09World) opStabilise(s *c09Blk, arm *c09Crash) (returned bool) {
	w.logf("SetStableBlock %s", s)
	var got []*types.Block
	var err error
	var dropped, path []*c09Blk
	ok := w.do("stabilise", func() {
		got, err = w.db.SetStableBlock(s.hash)
		returned = true
		if arm != nil {
			arm.fgDone = true
		}
		if err != nil {
			w.fail("C09/stabilise/error", "SetStableBlock(%s) = %v", s, err)
			return
		}
		dropped, path = w.modelStabilise(s)
		w.stabilised++
		// the returned list of pruned blocks
		want := map[common.Hash]*c09Blk{}
		for _, d := range dropped {
			want[d.hash] = d
		}
		for _, g := range got {
			if g == nil {
				w.fail("C09/prune/dropped-list", "SetStableBlock(%s) returned a nil block in its pruned list", s)
				continue
			}
			if _, ok := want[g.Hash()]; !ok {
				w.fail("C09/prune/dropped-list", "SetStableBlock(%s) reports %s as pruned, the model does not (or reports it twice)", s, shortBlk(g))
			}
			delete(want, g.Hash())
		}
		for _, d := range want {
			w.fail("C09/prune/dropped-list", "SetStableBlock(%s): %s is not a descendant and must be reported as pruned, it is missing from the returned list", s, d)
		}
		// persisted data must equal S's view as soon as the call has returned (pending async writes included)
		w.checkPersisted("immediately after SetStableBlock " + s.String())
	})
	if returned && err == nil {
		if len(dropped) > 0 {
			w.c.Probe("stabilised_block_with_pruned_forks")
		}
		if len(path) > 1 {
			w.c.Probe("stabilised_several_blocks_at_once")
		}
		if len(w.alive()) > 0 {
			w.c.Probe("stabilised_block_with_surviving_descendants")
		}
		for _, d := range dropped {
			if d.height > s.height {
				w.c.Probe("pruned_fork_longer_than_stable")
				break
			}
		}
	}
	if !ok && (arm == nil || !arm.fired) && !w.c.Failed() {
		w.fail("C09/stuck/stabilise", "SetStableBlock(%s) did not return", s)
	}
	return returned
}

// c09Crash arms the I/O hook: the store's node dies at the k-th mutating I/O event that
// happens AFTER the foreground call has returned (i.e. inside the asynchronous writer).
type c09Crash struct {
	k      int
	mode   int
	fgDone bool
	fired  bool
	seen   int
	what   string
}

func (w *c09World) arm(cr *c09Crash) {
	w.c.W.S.IOHook = func(ev *simrt.IOEvent) simrt.IOAction {
		if cr.fired || !cr.fgDone || ev.Node != c09Tag {
			return simrt.IOAction{}
		}
		cr.seen++
		if cr.seen-1 != cr.k {
			return simrt.IOAction{}
		}
		cr.fired = true
		cr.what = fmt.Sprintf("%s %s len=%d", ev.Kind, ev.Path, ev.Len)
		switch cr.mode {
		case 1:
			return simrt.IOAction{CrashAfter: true}
		case 2:
			if ev.Len > 1 {
				return simrt.IOAction{CrashBefore: true, Torn: ev.Len / 2}
			}
		case 3:
			if ev.Len > 20 {
				return simrt.IOAction{CrashBefore: true, Torn: 18}
			}
		}
		return simrt.IOAction{CrashBefore: true}
	}
}

func (w *c09World) disarm() { w.c.W.S.IOHook = nil }

// crashCleanup is the recipe of Node.Crash(): nothing of the process survives, only the disk.
func (w *c09World) crashCleanup() {
	wd := w.c.W
	wd.S.Kill(c09Tag)
	db := w.db
	func() {
		defer func() { recover() }()
		if db != nil && db.Beansdb != nil && db.Beansdb.Queue != nil {
			close(db.Beansdb.Queue.Quit)
		}
	}()
	wd.Settle()
	func() {
		defer func() { recover() }()
		if db != nil && db.LevelDB != nil {
			db.LevelDB.LDB().Close()
		}
	}()
	w.db = nil
	wd.Sleep(2 * time.Second)
	wd.S.Revive(c09Tag)
}

// reopen opens the database on the surviving directory and checks it against the model, first
// inside the opening task (replayed writes still pending) and then after the writer has drained.
func (w *c09World) reopen(kind string, arm *c09Crash) bool {
	ok := w.do("open", func() {
		w.db = store.NewChainDataBase(c09Home)
		w.dbClosed = false
		if arm != nil {
			arm.fgDone = true
		}
		w.fullCheck("reopen-"+kind+" (inside the opening task)", true)
	})
	if arm != nil && arm.fired {
		return false
	}
	if !ok {
		if !w.c.Failed() {
			w.fail("C09/reopen/"+kind, "NewChainDataBase on the surviving directory did not return after a %s restart", kind)
		}
		return false
	}
	w.checked("check", "reopen-"+kind+" (settled)", nil)
	return true
}

func (w *c09World) opRestartClean(closeInline *c09Blk, lab string) {
	if closeInline != nil {
		// Close in the very task that stabilised, while the asynchronous writer still has work queued
		w.logf("SetStableBlock %s; Close (same task); reopen", closeInline)
		s := closeInline
		var err error
		ok := w.do("stabilise+close", func() {
			_, err = w.db.SetStableBlock(s.hash)
			if err != nil {
				w.fail("C09/stabilise/error", "SetStableBlock(%s) = %v", s, err)
				return
			}
			w.modelStabilise(s)
			w.stabilised++
			w.db.Close()
			w.dbClosed = true
		})
		if !ok && !w.c.Failed() {
			w.fail("C09/stuck/close", "SetStableBlock+Close did not return")
			return
		}
		w.c.Probe("closed_with_async_writes_pending")
	} else {
		w.logf("Close; reopen")
		if !w.do("close", func() { w.db.Close(); w.dbClosed = true }) && !w.c.Failed() {
			w.fail("C09/stuck/close", "Close did not return")
			return
		}
	}
	if w.c.Failed() {
		return
	}
	w.closed = append(w.closed, w.db)
	w.db = nil
	w.c.W.Sleep(2 * time.Second)
	c09Drain(w.c, w.closed)
	w.closed = nil
	w.c.Fault("restart.clean")
	w.afterRestart("clean", nil, lab)
}

func (w *c09World) afterRestart(kind string, arm *c09Crash, lab string) {
	lost := w.modelForget()
	if !w.reopen(kind, arm) {
		return
	}
	if len(lost) > 0 && w.c.Chance(lab, 1, 2) {
		// the node is fed the forgotten blocks again (as synchronisation would) with the same write sets
		w.c.Probe("refed_forgotten_blocks_after_restart")
		for _, b := range lost {
			if w.c.Failed() {
				return
			}
			if b.parent.state != c09Alive && b.parent != w.stable {
				continue
			}
			b.state = c09Alive
			w.logf("re-feed SetBlock %s parent %s, Put %v", b, b.parent, b.worder)
			w.checked("refeed", "after re-feeding "+b.String(), func() {
				if err := w.db.SetBlock(b.hash, b.blk); err != nil {
					w.fail("C09/setblock/refused", "re-feeding SetBlock(%s on %s) after a restart = %v", b, b.parent, err)
					return
				}
				for _, a := range b.worder {
					if err := w.putRaw(b, a, b.writes[a]); err != nil {
						w.fail("C09/put/error", "GetActDatabase(%s) = %v", b, err)
					}
				}
			})
		}
	}
}

// ---------- scenario ----------

func c09SimConfig(c *Ctx) simrt.Config {
	cfg := c09SimConfigInner(c)
	cfg.Trace = envInt("VERIF_TRACE", 0)
	return cfg
}

func c09SimConfigInner(c *Ctx) simrt.Config {
	switch c.Draw("cfg", 4) {
	case 2:
		return simrt.Config{Policy: simrt.PolicyRandom, MeanGap: 24}
	case 3:
		return simrt.Config{Policy: simrt.PolicyRandom, MeanGap: 200}
	}
	return simrt.Config{Policy: simrt.PolicyCoarse}
}

// pickBlock chooses a block with a preference for the most recently created one (the head of a chain
// is where a node adds children, writes and reads most of the time).
func (w *c09World) pickBlock(lab string, cands []*c09Blk) *c09Blk {
	if w.c.Chance(lab, 1, 2) {
		best := cands[0]
		for _, b := range cands {
			if b.id > best.id {
				best = b
			}
		}
		return best
	}
	return cands[w.c.Draw(lab, len(cands))]
}

func (w *c09World) pickAddrs(label string, max int, exclude map[int]int64) []int {
	var pool []int
	for a := range w.addrs {
		if _, ex := exclude[a]; !ex {
			pool = append(pool, a)
		}
	}
	if len(pool) == 0 {
		return nil
	}
	n := 1
	if max > 1 {
		n = 1 + w.c.Draw(label, max)
	}
	var out []int
	for i := 0; i < n && len(pool) > 0; i++ {
		j := w.c.Draw(label, len(pool))
		out = append(out, pool[j])
		pool = append(pool[:j], pool[j+1:]...)
	}
	return out
}

func c09Scenario(c *Ctx) {
	w := &c09World{c: c, disk: map[int]int64{}, valOwner: map[int64]*c09Blk{}, cachedRead: map[[2]int]bool{}, nextVal: 1000}
	crashVariant := c.Var == "crash"
	// variant shared: aimed at trie nodes shared between the views of different blocks. Most keys differ in
	// their last hex digit only (one node with many children), genesis persists most of them, the process is
	// restarted (so persisted accounts are read through and cached into the shared nodes), blocks arrive
	// with their write sets at the head of a chain, and whole-view reads are frequent.
	focus := c.Var == "shared"
	if focus {
		w.addrs = c09FocusAddrs(c)
	} else {
		w.addrs = c09Addrs(c)
	}

	// prologue: genesis exactly like chain.SetupGenesisBlock (SetBlock, writes, SetStableBlock)
	if !w.do("open", func() { w.db = store.NewChainDataBase(c09Home) }) {
		c.Fail("C09/stuck/open", "first NewChainDataBase did not return")
		return
	}
	{
		var as []string
		for i, a := range w.addrs {
			as = append(as, fmt.Sprintf("#%d=%s", i, a.Hex()[30:]))
		}
		w.logf("addresses (last 12 hex digits) %s", strings.Join(as, " "))
	}
	gen := w.newBlock(nil)
	gw := w.pickAddrs("gen", len(w.addrs), nil)
	if c.Chance("gen", 1, 6) {
		gw = nil
	}
	if focus && c.Chance("gen", 2, 3) {
		gw = allInts(len(w.addrs))
	}
	w.logf("genesis %s writes %v", gen, gw)
	ok := w.do("genesis", func() {
		if err := w.db.SetBlock(gen.hash, gen.blk); err != nil {
			w.fail("C09/setblock/refused", "SetBlock(genesis) = %v", err)
			return
		}
		for _, a := range gw {
			w.nextVal++
			w.valOwner[w.nextVal] = gen
			if err := w.putRaw(gen, a, w.nextVal); err != nil {
				w.fail("C09/put/error", "GetActDatabase(genesis) = %v", err)
				return
			}
			gen.writes[a] = w.nextVal
			gen.worder = append(gen.worder, a)
		}
	})
	if !ok || c.Failed() {
		if !c.Failed() {
			c.Fail("C09/stuck/genesis", "genesis setup did not return")
		}
		return
	}
	w.opStabilise(gen, nil)
	if c.Failed() {
		return
	}
	w.checked("check", "after genesis", nil)
	// an early restart empties the stable block's in-memory trie, so later reads of persisted
	// accounts go to disk and are cached into (shared) trie nodes
	if (c.Chance("gen", 3, 4) || focus) && !c.Failed() {
		w.opRestartClean(nil, "gen")
	}

	nops := 10 + c.Draw("gen", 36)
	longRun := c.Var == "tree"
	if longRun {
		// one long life of the process: many more tree operations per (expensive) open, restarts are rare
		nops = 40 + c.Draw("gen", 100)
	}
	created := 0
	for i := 0; i < nops && !c.Failed() && w.db != nil; i++ {
		alive := w.alive()
		// every operation draws from its own tape streams, and 0 is "no operation", so that the
		// shrinker can remove one operation (or one fault) without shifting the meaning of the others
		lab, flab := fmt.Sprintf("o%02d", i), fmt.Sprintf("f%02d", i)
		k := c.Draw(lab, 21) - 1
		if focus && k >= 0 {
			// remap: 8x block with write set at the head, 1x bare block, 2x write, 5x partial read, 1x stabilise, 1x restart, 2x sweep
			k = []int{0, 0, 1, 1, 2, 2, 3, 3, 4, 7, 9, 11, 12, 11, 12, 11, 13, 15, 16, 19}[k]
		}
		switch {
		case k < 0:
			continue
		case k < 7: // new block on any block of the tree (or on the stable block); k<4: with its whole write set
			if len(alive) >= 16 || (created >= 28 && !longRun) || created >= 90 {
				continue
			}
			cands := append([]*c09Blk{w.stable}, alive...)
			if c.Chance(lab, 1, 4) {
				// bias towards forks: pick among blocks that already have a child
				var withKid []*c09Blk
				for _, b := range cands {
					for _, kid := range b.kids {
						if kid.state == c09Alive {
							withKid = append(withKid, b)
							break
						}
					}
				}
				if len(withKid) > 0 {
					cands = withKid
				}
			}
			p := w.pickBlock(lab, cands)
			created++
			nb := w.opAddBlock(p)
			if k < 4 && !c.Failed() {
				// what the node does: SetBlock, then account.Manager.Save puts the block's whole write set
				max := 4
				if focus {
					max = []int{3, 3, 2, 3, 5, 1, 4, 3}[c.Draw(lab, 8)]
				}
				if as := w.pickAddrs(lab, max, nil); c.Draw(lab, 5) != 4 {
					if focus && len(as) < max {
						as = append(as, w.pickAddrs(lab, 1, nil)...) // sizes cluster around 3
						as = dedupInts(as)
					}
					w.opWrite(nb, as)
				}
			}
		case k < 11: // write through a block that has no children yet
			var cands []*c09Blk
			for _, b := range alive {
				if len(b.kids) == 0 && len(b.writes) < len(w.addrs) {
					cands = append(cands, b)
				}
			}
			if len(cands) == 0 {
				continue
			}
			b := w.pickBlock(lab, cands)
			max := 4 // several accounts in one go
			if k < 9 {
				max = 1
			}
			w.opWrite(b, w.pickAddrs(lab, max, b.writes))
		case k < 13: // read through any view
			b := w.pickBlock(lab, append([]*c09Blk{w.stable}, alive...))
			nr := 2
			if focus {
				nr = 3
			}
			w.opRead(b, w.pickAddrs(lab, nr, nil))
		case k < 15: // stabilise any unconfirmed block
			if len(alive) == 0 {
				continue
			}
			s := alive[c.Draw(lab, len(alive))]
			if crashVariant && c.Chance(flab, 1, 2) {
				cr := &c09Crash{k: c.Draw(flab, 28), mode: c.Draw(flab, 4)}
				w.arm(cr)
				returned := w.opStabilise(s, cr)
				w.disarm()
				if c.Failed() {
					return
				}
				if !returned {
					// cannot happen: the hook only fires after the call returned
					w.fail("C09/harness/crash-before-return", "crash fired before SetStableBlock returned")
					return
				}
				if cr.fired {
					c.Fault("crash.async-writer")
					if cr.mode >= 2 {
						c.Fault("crash.torn-write")
					}
					w.logf("CRASH at background I/O #%d after SetStableBlock returned (%s, mode %d)", cr.k, cr.what, cr.mode)
					w.crashCleanup()
					var cr2 *c09Crash
					if c.Chance(flab, 1, 3) {
						cr2 = &c09Crash{k: c.Draw(flab, 28), mode: c.Draw(flab, 4)}
						w.arm(cr2)
					}
					w.afterRestart("crash", cr2, lab)
					w.disarm()
					if cr2 != nil && cr2.fired && !c.Failed() {
						c.Fault("crash.during-recovery-replay")
						w.logf("CRASH again while the reopened store replays its queue (%s, mode %d)", cr2.what, cr2.mode)
						w.crashCleanup()
						w.afterRestart("crash", nil, lab)
					}
					c.Probe("reopen_after_crash")
				} else {
					w.checked("check", "after SetStableBlock "+s.String(), nil)
				}
			} else if !crashVariant && c.Chance(lab, 1, 5) {
				w.opRestartClean(s, lab)
			} else {
				if w.opStabilise(s, nil) && !c.Failed() {
					w.checked("check", "after SetStableBlock "+s.String(), nil)
				}
			}
		case k == 15: // restart
			if c.Chance(lab, 1, 2) || (longRun && c.Chance(lab, 3, 4)) {
				continue
			}
			if c.Chance(lab, 1, 2) {
				// the production read path for everything right before the process goes away
				for _, b := range append([]*c09Blk{w.stable}, alive...) {
					if c.Failed() {
						return
					}
					w.opRead(b, allInts(len(w.addrs)))
				}
			}
			if crashVariant {
				w.logf("CRASH while idle")
				c.Fault("crash.idle")
				w.crashCleanup()
				w.afterRestart("crash", nil, lab)
				c.Probe("reopen_after_crash")
			} else {
				w.opRestartClean(nil, lab)
			}
		default: // sweep: the production read path for every address through one view, or every view
			cands := append([]*c09Blk{w.stable}, alive...)
			if c.Chance(lab, 1, 4) {
				for _, b := range cands {
					if c.Failed() {
						break
					}
					w.opRead(b, allInts(len(w.addrs)))
				}
			} else {
				w.opRead(w.pickBlock(lab, cands), allInts(len(w.addrs)))
			}
		}
	}
	// final sweep with the production read path: every view, every address
	if !c.Failed() && w.db != nil {
		w.logf("final Get sweep")
		views := append([]*c09Blk{w.stable}, w.alive()...)
		w.checked("sweep", "final sweep", func() {
			for _, b := range views {
				w.getAll(b, allInts(len(w.addrs)), "final Get")
			}
		})
	}
	if w.db != nil {
		if !w.dbClosed {
			w.do("close", func() { w.db.Close() })
		}
		w.c.W.Sleep(2 * time.Second)
		c09Drain(c, []*store.ChainDatabase{w.db})
	}
	debugDumpTrace(c)
	c.Nontrivial = w.forked && w.stabilised >= 2 && w.nwrites >= 3
	tail := w.hist
	if len(tail) > 14 {
		tail = tail[len(tail)-14:]
	}
	c.Sample = map[string]interface{}{"variant": c.Var, "addresses": len(w.addrs), "blocks": len(w.blocks), "stabilisations": w.stabilised, "ops_tail": tail}
}

// c09Drain is housekeeping, not a check: after a clean Close with writes still queued the store's writer
// goroutine can stay blocked for ever sending on the unbuffered ErrChan (its reader has already quit).
// Receiving from that channel lets it reach its Quit case, so that the 4 MB of channel buffers per
// incarnation do not pile up in the worker process.
func c09Drain(c *Ctx, dbs []*store.ChainDatabase) {
	for _, db := range dbs {
		if db == nil || db.Beansdb == nil || db.Beansdb.Queue == nil {
			continue
		}
		q := db.Beansdb.Queue
		for i := 0; i < 4096; i++ {
			progressed := false
			select {
			case <-q.ErrChan:
				progressed = true
			default:
			}
			if !progressed {
				break
			}
			c.W.Settle()
		}
	}
}

func dedupInts(xs []int) []int {
	seen := map[int]bool{}
	var out []int
	for _, x := range xs {
		if !seen[x] {
			seen[x] = true
			out = append(out, x)
		}
	}
	return out
}

// debugDumpTrace writes the retained event log to $VERIF_TRACE_DIR (diagnosis of nondeterminism only).
func debugDumpTrace(c *Ctx) {
	dir := os.Getenv("VERIF_TRACE_DIR")
	if dir == "" {
		return
	}
	name := fmt.Sprintf("%s/trace-%s-%d-p%s.txt", dir, c.Prop, c.T.Seed, os.Getenv("GOMAXPROCS"))
	os.WriteFile(name, []byte(strings.Join(c.W.S.TraceTail(), "\n")+"\n"), 0644)
}

func allInts(n int) []int {
	out := make([]int, n)
	for i := range out {
		out[i] = i
	}
	return out
}

func init() {
	Register(&PropDef{
		ID:        "C09",
		Variants:  []string{"tree", "shared", "restart", "crash", "shared"},
		SimConfig: c09SimConfig,
		Scenario:  c09Scenario,
		Rule: "one real store.ChainDatabase on the simulated disk; genesis with a tape-chosen write set, then 10-45 (variant tree: 40-139, restarts rare) tape-chosen operations: " +
			"SetBlock on any block of the tree (<=16 unconfirmed, siblings at equal height), Put of 1-4 not-yet-written addresses (4-10 addresses with shared " +
			"hex prefixes) through a block without children, Get through any view, full Get sweeps, SetStableBlock of any unconfirmed block, clean restart " +
			"(also Close in the task that stabilised) or - variant crash - process death at the k-th I/O of the asynchronous writer after SetStableBlock " +
			"returned (plain, after, torn), while idle, and again during the replay of the reopened store; forgotten blocks are re-fed after half of the restarts. " +
			"Variant shared concentrates on node sharing: 6-10 keys of which all but two differ in the last hex digit only, genesis persists most of them, a restart follows, blocks arrive with their write sets at the head of a chain and whole-view reads are frequent. After every operation every (view,address) pair, the unconfirmed set, ancestry, stable chain and GetAccount are compared with the model. " +
			"non-trivial = the tree forked, >=2 stabilisations (genesis included) and >=3 writes; distinct = distinct event-log digests",
		Real: []string{"store.ChainDatabase, CBlock tree, AccountTrieDB/PatriciaTrie, BeansDB, FileQueue + SyncFileDB background goroutines (statement-level yields), BitCask, store/leveldb on goleveldb (simldb), RunContext", "chain/types.Block/AccountData RLP"},
		Stub: []string{"callers (the harness plays account.Manager.Save and the consensus engine); blocks carry no transactions"},
		Assumptions: []string{
			"a block writes an address at most once, always with its own height as dye, and never after it has children (the discipline of account.Manager.Save)",
			"a restart legitimately forgets every unconfirmed block (memory only); the model drops them and the harness may re-feed them",
			"crashes are injected only after SetStableBlock has returned (asynchronous writer, idle, recovery replay); a crash in the middle of the foreground call is C08's subject",
			"the exhaustive per-step comparison reads views through PatriciaTrie.Find + GetAccount (no caching side effect); AccountTrieDB.Get itself is checked by the read/sweep operations and the final sweep",
		},
	})
}
