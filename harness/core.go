// Package harness holds the simulated worlds, generators, oracles and the worker
// driver for the 20 properties. It is compiled as a test binary (testing/synctest
// needs *testing.T) against the instrumented overlay of /repo.
package harness

import (
	"strconv"
	"encoding/json"
	"fmt"
	"os"
	"path/filepath"
	"runtime"
	"sort"
	"strings"
	"testing"
	"time"

	"verif/simrt"
	"verif/simrt/simldb"
	"verif/simrt/simos"
)

// Violation is one oracle failure. Sig is "class/sub-cause/site" and identifies the
// finding for KNOWN_FINDINGS matching and for shrinking ("same violation").
type Violation struct {
	Prop string `json:"property"`
	Sig  string `json:"signature"`
	Msg  string `json:"msg"`
}

// Ctx is handed to a scenario for one run.
type Ctx struct {
	W    *simrt.World
	T    *simrt.Tape
	Prop string
	Tier string
	Var  string // variant of the scenario (sub-world), chosen per run
	// RunIndex / BaseSeed: index of this run and VERIF_SEED (generation mode). Enumerating
	// checks derive their plan from them and record it on the tape (Tape.Preset/Reseed), so
	// replays depend on the tape only.
	RunIndex int
	BaseSeed uint64

	Violations []Violation
	Faults     map[string]int64 // fault kinds that actually fired
	Probes     map[string]int64 // "rare condition reached" counters
	Nontrivial bool
	Sample     interface{}
	States     map[uint64]struct{} // abstract states reached
	Keep       map[string]interface{}
	SimSeconds float64
	Cleanups   []func() // run by the world after the scenario (close stores so goroutines exit)
	Context    string   // what the scenario was doing (appended to panic reports)
}

func (c *Ctx) Fail(sig, format string, args ...interface{}) {
	msg := fmt.Sprintf(format, args...)
	for _, v := range c.Violations {
		if v.Sig == sig {
			return
		}
	}
	c.Violations = append(c.Violations, Violation{Prop: c.Prop, Sig: sig, Msg: msg})
}

func (c *Ctx) Failed() bool { return len(c.Violations) > 0 }

func (c *Ctx) Fault(kind string) { c.Faults[kind]++ }
func (c *Ctx) Probe(name string) { c.Probes[name]++ }
func (c *Ctx) State(h uint64)    { c.States[h] = struct{}{} }

// Draw helpers
func (c *Ctx) Draw(label string, n int) int          { return c.T.Draw(label, n) }
func (c *Ctx) Chance(label string, num, den int) bool { return c.T.Chance(label, num, den) }

// PropDef registers one property check.
type PropDef struct {
	ID       string
	Variants []string
	// SimConfig chooses scheduler policy etc. from the tape (swarm style).
	SimConfig func(c *Ctx) simrt.Config
	// Scenario runs inside the bubble as the world task.
	Scenario func(c *Ctx)
	// Post runs after the bubble, outside the simulation (e.g. porcupine).
	Post func(c *Ctx)
	// IgnorePanics: task panics are not violations by themselves.
	IgnorePanics bool
	// ShrinkExecs / ShrinkSeconds bound the minimisation of one violation (0 = 300 executions / 90 s).
	ShrinkExecs, ShrinkSeconds int
	// OverrunSig: if set, exhausting the step budget (Config.MaxSteps) is a violation with
	// this signature instead of a harness error. Only for properties whose statement forbids
	// unbounded work on bounded input (C15); the step count is deterministic, so it replays.
	OverrunSig string
	// Rule describes generation and what makes a case non-trivial (for evidence).
	Rule string
	// Real / Stub components (for evidence).
	Real, Stub []string
	Assumptions []string
}

var registry = map[string]*PropDef{}

func Register(p *PropDef) { registry[p.ID] = p }

// Outcome of one execution.
type Outcome struct {
	Violations []Violation
	Res        simrt.RunResult
	Faults     map[string]int64
	Probes     map[string]int64
	Nontrivial bool
	Sample     interface{}
	States     map[uint64]struct{}
	SimSeconds float64
	HarnessErr string
}

var theT *testing.T

// set by the worker / replay driver before execute
var (
	curRunIndex int
	curBaseSeed uint64
)

// execute runs one scenario under one tape.
func execute(p *PropDef, tape *simrt.Tape, tier, variant string) *Outcome {
	raceLogTake() // drop anything reported outside a run
	simos.Reset()
	simldb.Reset()
	for i := 0; i < 64; i++ {
		simrt.SetMapMode(i, simrt.MapSorted)
	}
	resetGlobals()
	c := &Ctx{T: tape, Prop: p.ID, Tier: tier, Var: variant, RunIndex: curRunIndex, BaseSeed: curBaseSeed, Faults: map[string]int64{}, Probes: map[string]int64{},
		States: map[uint64]struct{}{}, Keep: map[string]interface{}{}}
	cfg := simrt.Config{Policy: simrt.PolicyCoarse}
	if p.SimConfig != nil {
		cfg = p.SimConfig(c)
	}
	if cfg.Trace == 0 {
		cfg.Trace = 64
	}
	res := simrt.Run(theT, tape, cfg, func(w *simrt.World) {
		c.W = w
		start := time.Now()
		defer func() { c.SimSeconds = time.Since(start).Seconds() }()
		defer func() {
			for i := len(c.Cleanups) - 1; i >= 0; i-- {
				func() {
					defer func() { recover() }()
					c.Cleanups[i]()
				}()
			}
		}()
		p.Scenario(c)
	})
	out := &Outcome{Res: res, Faults: c.Faults, Probes: c.Probes, Nontrivial: c.Nontrivial, Sample: c.Sample, States: c.States, SimSeconds: c.SimSeconds}
	if res.HarnessEr != "" {
		out.HarnessErr = res.HarnessEr
	}
	if res.Overrun {
		if p.OverrunSig != "" {
			if !c.Failed() { // the scenario may already have reported it with more detail
				c.Fail(p.OverrunSig, "the step budget of the run was exhausted: some node task kept running without ever blocking (steps %d)", res.Steps)
			}
		} else {
			out.HarnessErr = "step budget exceeded (possible livelock)"
		}
	}
	if !p.IgnorePanics {
		for _, pn := range res.Panics {
			c.Fail(p.ID+"/panic/"+panicSite(pn.Stack), "panic in task %s (node %d): %s\ncontext: %s\n%s", pn.Task, pn.Node, pn.Value, c.Context, trimStack(pn.Stack))
		}
	}
	for _, rr := range raceLogTake() {
		c.Fail(p.ID+"/race/"+rr.Key, "the race detector reports an unsynchronised access pair under this schedule:\n%s", rr.Text)
		c.Probe("race_reports")
	}
	if p.Post != nil && out.HarnessErr == "" {
		func() {
			defer func() {
				if r := recover(); r != nil {
					out.HarnessErr = fmt.Sprintf("post-check panic: %v", r)
				}
			}()
			p.Post(c)
		}()
		out.Faults, out.Probes, out.Nontrivial, out.Sample = c.Faults, c.Probes, c.Nontrivial, c.Sample
	}
	out.Violations = c.Violations
	return out
}

// panicSite extracts the first lemochain-core frame of a panic stack as pkg.func.
func panicSite(stack string) string {
	lines := strings.Split(stack, "\n")
	seenPanic := false
	for _, l := range lines {
		if strings.HasPrefix(l, "panic(") {
			seenPanic = true
			continue
		}
		if !seenPanic {
			continue
		}
		if strings.HasPrefix(l, "github.com/LemoFoundationLtd/lemochain-core/") {
			f := strings.TrimPrefix(l, "github.com/LemoFoundationLtd/lemochain-core/")
			if i := strings.LastIndex(f, "("); i > 0 {
				f = f[:i]
			}
			return f
		}
	}
	for _, l := range lines {
		if strings.HasPrefix(l, "github.com/LemoFoundationLtd/lemochain-core/") {
			f := strings.TrimPrefix(l, "github.com/LemoFoundationLtd/lemochain-core/")
			if i := strings.LastIndex(f, "("); i > 0 {
				f = f[:i]
			}
			return f
		}
	}
	return "unknown"
}

func trimStack(s string) string {
	lines := strings.Split(s, "\n")
	if len(lines) > 40 {
		lines = lines[:40]
	}
	return strings.Join(lines, "\n")
}

// ---------- replay files ----------

type ReplayFile struct {
	Property  string           `json:"property"`
	Variant   string           `json:"variant"`
	Tier      string           `json:"tier"`
	Seed      uint64           `json:"seed"`
	RunIndex  int              `json:"run_index"`
	RunSeed   uint64           `json:"run_seed"`
	Streams   map[string][]int `json:"streams"`
	Signature string           `json:"signature"`
	Msg       string           `json:"msg"`
	Digest    string           `json:"digest"`
	Shrunk    bool             `json:"shrunk"`
	ShrinkExe int              `json:"shrink_executions"`
	TapeLen   int              `json:"tape_len"`
	Trace     []string         `json:"trace_tail,omitempty"`
}

func tapeLen(st map[string][]int) int {
	n := 0
	for _, v := range st {
		n += len(v)
	}
	return n
}

func hasSig(vs []Violation, sig string) *Violation {
	for i := range vs {
		if vs[i].Sig == sig {
			return &vs[i]
		}
	}
	return nil
}

// shrink delta-minimises the tape while the same signature reproduces.
func shrink(p *PropDef, tier, variant string, seed uint64, streams map[string][]int, sig string, maxExec int, maxDur time.Duration) (map[string][]int, int) {
	best := cloneStreams(streams)
	execs := 0
	deadline := time.Now().Add(maxDur)
	try := func(cand map[string][]int) bool {
		if execs >= maxExec || time.Now().After(deadline) {
			return false
		}
		execs++
		out := execute(p, simrt.ReplayTape(seed, cand), tier, variant)
		return out.HarnessErr == "" && hasSig(out.Violations, sig) != nil
	}
	labels := func() []string {
		ls := make([]string, 0, len(best))
		for k := range best {
			ls = append(ls, k)
		}
		sort.Strings(ls)
		return ls
	}
	progress := true
	for progress && execs < maxExec && time.Now().Before(deadline) {
		progress = false
		for _, l := range labels() {
			// 1. drop the whole stream
			if len(best[l]) > 0 {
				cand := cloneStreams(best)
				delete(cand, l)
				if try(cand) {
					best = cand
					progress = true
					continue
				}
			}
			// 2. truncate / delete chunks
			for chunk := len(best[l]) / 2; chunk >= 1; chunk /= 2 {
				for start := 0; start+chunk <= len(best[l]); {
					cand := cloneStreams(best)
					v := cand[l]
					cand[l] = append(append([]int{}, v[:start]...), v[start+chunk:]...)
					if try(cand) {
						best = cand
						progress = true
					} else {
						start += chunk
					}
					if execs >= maxExec {
						break
					}
				}
			}
			// 3. zero single values
			for i := 0; i < len(best[l]); i++ {
				if best[l][i] == 0 {
					continue
				}
				cand := cloneStreams(best)
				cand[l][i] = 0
				if try(cand) {
					best = cand
					progress = true
					continue
				}
				if best[l][i] > 1 {
					cand = cloneStreams(best)
					cand[l][i] = best[l][i] / 2
					if try(cand) {
						best = cand
						progress = true
					}
				}
				if execs >= maxExec {
					break
				}
			}
		}
	}
	// normalise: trim trailing zeros
	for k, v := range best {
		for len(v) > 0 && v[len(v)-1] == 0 {
			v = v[:len(v)-1]
		}
		if len(v) == 0 {
			delete(best, k)
		} else {
			best[k] = v
		}
	}
	return best, execs
}

func cloneStreams(s map[string][]int) map[string][]int {
	out := make(map[string][]int, len(s))
	for k, v := range s {
		out[k] = append([]int(nil), v...)
	}
	return out
}

// ---------- worker ----------

type WorkerResult struct {
	Property    string                 `json:"property"`
	Tier        string                 `json:"tier"`
	Seed        uint64                 `json:"seed"`
	Worker      int                    `json:"worker"`
	Runs        int                    `json:"runs"`
	Digests     []string               `json:"digests"`            // digest of every run
	NontrivialD []string               `json:"nontrivial_digests"` // digests of non-trivial runs
	States      []string               `json:"states"`
	Faults      map[string]int64       `json:"faults"`
	Probes      map[string]int64       `json:"probes"`
	Samples     []interface{}          `json:"samples"`
	SimSeconds  float64                `json:"sim_seconds"`
	Steps       int64                  `json:"steps"`
	Switches    int64                  `json:"switches"`
	Tasks       int64                  `json:"tasks"`
	Leaked      int                    `json:"leaked_runs"`
	WallS       float64                `json:"wall_s"`
	Violations  []ViolationReport      `json:"violations"`
	HarnessErrs []string               `json:"harness_errors"`
	Variants    map[string]int         `json:"variants"`
	Extra       map[string]interface{} `json:"extra,omitempty"`
	Rule        string                 `json:"rule"`
	Real        []string               `json:"real"`
	Stub        []string               `json:"stub"`
	Assumptions []string               `json:"assumptions"`
	NextIndex   int                    `json:"next_index"` // first run index not executed (memory recycle)
	Done        bool                   `json:"done"`
}

type ViolationReport struct {
	Signature string `json:"signature"`
	Msg       string `json:"msg"`
	Replay    string `json:"replay"`
	RunIndex  int    `json:"run_index"`
	Count     int    `json:"count"`
}

func envInt(name string, def int) int {
	if v := os.Getenv(name); v != "" {
		var x int
		if _, err := fmt.Sscan(v, &x); err == nil {
			return x
		}
	}
	return def
}

func envU64(name string, def uint64) uint64 {
	if v := os.Getenv(name); v != "" {
		var x uint64
		if _, err := fmt.Sscan(v, &x); err == nil {
			return x
		}
	}
	return def
}

func variantFor(p *PropDef, idx int) string {
	if len(p.Variants) == 0 {
		return ""
	}
	return p.Variants[idx%len(p.Variants)]
}

func watchdog(limit time.Duration, what *string) chan struct{} {
	stop := make(chan struct{})
	go func() {
		select {
		case <-stop:
		case <-time.After(limit):
			buf := make([]byte, 1<<20)
			n := runtime.Stack(buf, true)
			fmt.Fprintf(os.Stderr, "WATCHDOG: run exceeded %v real time (%s)\n%s\n", limit, *what, buf[:n])
			os.Exit(2)
		}
	}()
	return stop
}

// TestWorker is the entry point used by bin/verifctl. Environment:
//
//	VERIF_PROP, VERIF_TIER, VERIF_SEED, VERIF_WORKER (i), VERIF_WORKERS (W),
//	VERIF_START (first run index for this worker), VERIF_RUNS (max run index, exclusive),
//	VERIF_BUDGET_S (wall budget), VERIF_OUT (result json), VERIF_REPLAY_DIR,
//	VERIF_REPLAY (replay one file instead), VERIF_MEM_MB (recycle threshold)
func workerMain(t *testing.T) {
	theT = t
	setupLogging()
	raceLogInit()
	if rp := os.Getenv("VERIF_REPLAY"); rp != "" {
		replayMain(t, rp)
		return
	}
	propID := os.Getenv("VERIF_PROP")
	if propID == "" {
		t.Skip("VERIF_PROP not set")
	}
	p := registry[propID]
	if p == nil {
		fmt.Fprintf(os.Stderr, "unknown property %q\n", propID)
		os.Exit(2)
	}
	tier := os.Getenv("VERIF_TIER")
	if tier == "" {
		tier = "quick"
	}
	seed := envU64("VERIF_SEED", 1)
	wi := envInt("VERIF_WORKER", 0)
	W := envInt("VERIF_WORKERS", 1)
	start := envInt("VERIF_START", wi)
	maxRuns := envInt("VERIF_RUNS", 1<<30)
	budget := time.Duration(envInt("VERIF_BUDGET_S", 30)) * time.Second
	memMB := envInt("VERIF_MEM_MB", 3000)
	outPath := os.Getenv("VERIF_OUT")
	replayDir := os.Getenv("VERIF_REPLAY_DIR")
	if replayDir == "" {
		replayDir = "replays"
	}
	os.MkdirAll(replayDir, 0755)

	knownSigs := map[string]bool{}
	for _, k := range strings.Split(os.Getenv("VERIF_KNOWN_SIGS"), "\n") {
		if k != "" {
			knownSigs[k] = true
		}
	}
	// memory watchdog: one run that allocates without bound must not take the machine (and the other workers) down.
	// The process gives up (exit 86); the driver skips the run it was in and records it.
	hardMB := envInt("VERIF_HARD_MB", 5000)
	go func() {
		for {
			time.Sleep(250 * time.Millisecond)
			var ms runtime.MemStats
			runtime.ReadMemStats(&ms)
			if ms.HeapAlloc > uint64(hardMB)<<20 {
				fmt.Fprintf(os.Stderr, "MEMORY-WATCHDOG: heap %d MiB > %d MiB in run %d of %s\n", ms.HeapAlloc>>20, hardMB, curRunIndex, propID)
				os.Exit(86)
			}
		}
	}()
	res := &WorkerResult{Property: propID, Tier: tier, Seed: seed, Worker: wi, Faults: map[string]int64{}, Probes: map[string]int64{}, Variants: map[string]int{},
		Rule: p.Rule, Real: p.Real, Stub: p.Stub, Assumptions: p.Assumptions}
	t0 := time.Now()
	seenSig := map[string]*ViolationReport{}
	states := map[uint64]struct{}{}
	what := ""
	idx := start
	for ; idx < maxRuns; idx += W {
		if time.Since(t0) > budget {
			break
		}
		if res.Runs%8 == 7 {
			var ms runtime.MemStats
			runtime.ReadMemStats(&ms)
			if ms.HeapAlloc > uint64(memMB)<<20 {
				break // ask the driver to recycle this process
			}
		}
		if outPath != "" {
			os.WriteFile(outPath+".cur", []byte(strconv.Itoa(idx)), 0644) // the driver skips this run if the process is lost in it
		}
		runSeed := simrt.Mix(seed, propID, uint64(idx))
		curRunIndex, curBaseSeed = idx, seed
		variant := variantFor(p, idx)
		what = fmt.Sprintf("prop=%s idx=%d seed=%d variant=%s", propID, idx, runSeed, variant)
		stop := watchdog(300*time.Second, &what)
		tape := simrt.NewTape(runSeed)
		out := execute(p, tape, tier, variant)
		close(stop)
		res.Runs++
		res.Variants[variant]++
		d := fmt.Sprintf("%016x", out.Res.Digest)
		res.Digests = append(res.Digests, d)
		if out.Nontrivial {
			res.NontrivialD = append(res.NontrivialD, d)
		}
		for k, v := range out.Faults {
			res.Faults[k] += v
		}
		for k, v := range out.Probes {
			res.Probes[k] += v
		}
		for s := range out.States {
			states[s] = struct{}{}
		}
		if out.Sample != nil && len(res.Samples) < 3 && out.Nontrivial {
			res.Samples = append(res.Samples, out.Sample)
		}
		res.SimSeconds += out.SimSeconds
		res.Steps += out.Res.Steps
		res.Switches += out.Res.Switches
		res.Tasks += int64(out.Res.Tasks)
		if out.Res.Leaked {
			res.Leaked++
		}
		if out.HarnessErr != "" {
			res.HarnessErrs = append(res.HarnessErrs, fmt.Sprintf("run %d (seed %d, variant %s): %s", idx, runSeed, variant, firstLines(out.HarnessErr, 30)))
			if len(res.HarnessErrs) > 5 {
				break
			}
			continue
		}
		for _, v := range out.Violations {
			if vr := seenSig[v.Sig]; vr != nil {
				vr.Count++
				continue
			}
			// new signature: minimise and write a replay file
			streams := tape.Streams()
			stop := watchdog(900*time.Second, &what)
			maxEx, maxDur := 300, 90*time.Second
			if tier == "quick" {
				maxEx, maxDur = 120, 20*time.Second
			}
			if p.ShrinkExecs > 0 {
				maxEx = p.ShrinkExecs
			}
			if p.ShrinkSeconds > 0 {
				maxDur = time.Duration(p.ShrinkSeconds) * time.Second
			}
			if rem := budget - time.Since(t0); rem < maxDur {
				maxDur = rem
				if maxDur < 3*time.Second {
					maxDur = 3 * time.Second
				}
			}
			if knownSigs[v.Sig] {
				maxEx = 0 // a committed finding with its own minimised replay: do not minimise again
			}
			small, execs := shrink(p, tier, variant, runSeed, streams, v.Sig, maxEx, maxDur)
			close(stop)
			// final confirmation of the minimised tape in this process
			fin := execute(p, simrt.ReplayTape(runSeed, small), tier, variant)
			msg := v.Msg
			dig := d
			shr := true
			var trace []string
			if fv := hasSig(fin.Violations, v.Sig); fv != nil {
				msg = fv.Msg
				dig = fmt.Sprintf("%016x", fin.Res.Digest)
				trace = fin.Res.Trace
			} else {
				small = streams
				shr = false
				trace = out.Res.Trace
			}
			rf := &ReplayFile{Property: propID, Variant: variant, Tier: tier, Seed: seed, RunIndex: idx, RunSeed: runSeed,
				Streams: small, Signature: v.Sig, Msg: msg, Digest: dig, Shrunk: shr, ShrinkExe: execs, TapeLen: tapeLen(small), Trace: trace}
			name := fmt.Sprintf("%s-%d-%d-%s.json", propID, seed, idx, sanitize(v.Sig))
			path := filepath.Join(replayDir, name)
			b, _ := json.MarshalIndent(rf, "", " ")
			os.WriteFile(path, b, 0644)
			vr := &ViolationReport{Signature: v.Sig, Msg: msg, Replay: path, RunIndex: idx, Count: 1}
			seenSig[v.Sig] = vr
		}
	}
	res.NextIndex = idx
	res.Done = idx >= maxRuns || time.Since(t0) > budget
	for s := range states {
		res.States = append(res.States, fmt.Sprintf("%016x", s))
	}
	sigs := make([]string, 0, len(seenSig))
	for s := range seenSig {
		sigs = append(sigs, s)
	}
	sort.Strings(sigs)
	for _, s := range sigs {
		res.Violations = append(res.Violations, *seenSig[s])
	}
	res.WallS = time.Since(t0).Seconds()
	b, _ := json.Marshal(res)
	if outPath != "" {
		if err := os.WriteFile(outPath, b, 0644); err != nil {
			fmt.Fprintln(os.Stderr, err)
			os.Exit(2)
		}
	} else {
		fmt.Println(string(b))
	}
}

func firstLines(s string, n int) string {
	l := strings.Split(s, "\n")
	if len(l) > n {
		l = l[:n]
	}
	return strings.Join(l, "\n")
}

func sanitize(s string) string {
	var b strings.Builder
	for _, r := range s {
		if (r >= 'a' && r <= 'z') || (r >= 'A' && r <= 'Z') || (r >= '0' && r <= '9') || r == '-' || r == '.' {
			b.WriteRune(r)
		} else {
			b.WriteByte('_')
		}
	}
	out := b.String()
	if len(out) > 80 {
		out = out[:80]
	}
	return out
}

// replayMain re-executes one replay file: prints REPLAY lines, exit code 1 iff the
// recorded signature reproduces, 0 if the run is clean, 3 if another signature shows.
func replayMain(t *testing.T, path string) {
	b, err := os.ReadFile(path)
	if err != nil {
		fmt.Fprintln(os.Stderr, err)
		os.Exit(2)
	}
	var rf ReplayFile
	if err := json.Unmarshal(b, &rf); err != nil {
		fmt.Fprintln(os.Stderr, err)
		os.Exit(2)
	}
	p := registry[rf.Property]
	if p == nil {
		fmt.Fprintf(os.Stderr, "unknown property %q\n", rf.Property)
		os.Exit(2)
	}
	curRunIndex, curBaseSeed = rf.RunIndex, rf.Seed
	what := "replay " + path
	stop := watchdog(600*time.Second, &what)
	out := execute(p, simrt.ReplayTape(rf.RunSeed, rf.Streams), rf.Tier, rf.Variant)
	close(stop)
	if out.HarnessErr != "" {
		fmt.Printf("REPLAY harness-error: %s\n", out.HarnessErr)
		os.Exit(2)
	}
	fmt.Printf("REPLAY digest=%016x recorded=%s\n", out.Res.Digest, rf.Digest)
	code := 0
	for _, v := range out.Violations {
		fmt.Printf("REPLAY violation signature=%s\n%s\n", v.Sig, v.Msg)
		if v.Sig == rf.Signature {
			code = 1
		} else if code == 0 {
			code = 3
		}
	}
	if code == 1 {
		fmt.Printf("REPLAY reproduced signature=%s\n", rf.Signature)
	} else {
		fmt.Printf("REPLAY not-reproduced signature=%s\n", rf.Signature)
	}
	if os.Getenv("VERIF_REPLAY_TRACE") != "" {
		for _, l := range out.Res.Trace {
			fmt.Println("TRACE", l)
		}
	}
	os.Exit(code)
}

// runSub executes f as a further bubble (used by Post checks that need reference
// executions, e.g. the serial orders of C19). The sub-run replays the generation streams
// of the parent run, so it sees the same workload at the same simulated instants.
func runSub(parent *Ctx, cfg simrt.Config, f func(c *Ctx)) (*Ctx, simrt.RunResult) {
	simos.Reset()
	simldb.Reset()
	for i := 0; i < 64; i++ {
		simrt.SetMapMode(i, simrt.MapSorted)
	}
	resetGlobals()
	tape := simrt.ReplayTape(parent.T.Seed, parent.T.Streams())
	c := &Ctx{T: tape, Prop: parent.Prop, Tier: parent.Tier, Var: parent.Var, Faults: map[string]int64{}, Probes: map[string]int64{},
		States: map[uint64]struct{}{}, Keep: map[string]interface{}{}}
	res := simrt.Run(theT, tape, cfg, func(w *simrt.World) {
		c.W = w
		defer func() {
			for i := len(c.Cleanups) - 1; i >= 0; i-- {
				func() {
					defer func() { recover() }()
					c.Cleanups[i]()
				}()
			}
		}()
		f(c)
	})
	return c, res
}
