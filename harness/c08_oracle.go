package harness

import (
	"bytes"
	"fmt"
	"math/big"
	"sort"
	"strings"

	"github.com/LemoFoundationLtd/lemochain-core/chain/account"
	"github.com/LemoFoundationLtd/lemochain-core/chain/types"
	"github.com/LemoFoundationLtd/lemochain-core/common"
	"github.com/LemoFoundationLtd/lemochain-core/store"
	"github.com/LemoFoundationLtd/lemochain-core/store/trie"
)

// ---- reference rules written from the property statements (shared by C08 and C10) ----

type candVotes struct {
	Addr  common.Address
	Votes *big.Int
}

func (cv candVotes) String() string {
	h := cv.Addr.Hex()
	return h[:10] + ".." + h[len(h)-2:] + "=" + cv.Votes.String()
}

// expectedTop: all accounts whose profile says isCandidate=true in the given account state,
// sorted by votes descending, ties by address ascending, cut to max.
func expectedTop(d StateDump, max int) []candVotes {
	var all []candVotes
	for a, ad := range d {
		if profileField(ad["profile"], types.CandidateKeyIsCandidate) == types.IsCandidateNode {
			all = append(all, candVotes{a, ad.big("votes")})
		}
	}
	sort.Slice(all, func(i, j int) bool {
		if c := all[i].Votes.Cmp(all[j].Votes); c != 0 {
			return c > 0
		}
		return bytes.Compare(all[i].Addr[:], all[j].Addr[:]) < 0
	})
	if len(all) > max {
		all = all[:max]
	}
	return all
}

func topOf(list []*store.Candidate) []candVotes {
	out := make([]candVotes, 0, len(list))
	for _, cd := range list {
		out = append(out, candVotes{cd.Address, new(big.Int).Set(cd.Total)})
	}
	return out
}

func topString(l []candVotes) string {
	s := make([]string, len(l))
	for i, x := range l {
		s[i] = x.String()
	}
	return "[" + strings.Join(s, " ") + "]"
}

func topEqual(a, b []candVotes) bool {
	if len(a) != len(b) {
		return false
	}
	for i := range a {
		if a[i].Addr != b[i].Addr || a[i].Votes.Cmp(b[i].Votes) != 0 {
			return false
		}
	}
	return true
}

// profileHolders: every account that has a candidate profile (registered now or earlier).
func profileHolders(d StateDump) []string {
	var out []string
	for a, ad := range d {
		if ad["profile"] != "" {
			out = append(out, a.Hex())
		}
	}
	sort.Strings(out)
	return out
}

// ---- the restart oracle of C08 ----

// blockBytesNoConfirms encodes a block without its confirmation list.
func blockBytesNoConfirms(b *types.Block) []byte {
	cp := *b
	cp.Confirms = nil
	buf, err := rlpEncode(&cp)
	if err != nil {
		return []byte("encode error: " + err.Error())
	}
	return buf
}

func confirmsSubset(a, b []types.SignData) bool {
	for _, x := range a {
		found := false
		for _, y := range b {
			if x == y {
				found = true
				break
			}
		}
		if !found {
			return false
		}
	}
	return true
}

type versionKey struct {
	Addr common.Address
	LT   types.ChangeLogType
}

// readVersionTrie looks up every (address, log type) in the version trie of block b through
// the node's own trie database. A missing node shows up as an error string.
func readVersionTrie(db *store.ChainDatabase, root common.Hash, keys []versionKey) map[versionKey]string {
	out := map[versionKey]string{}
	tr, err := trie.NewSecure(root, db.GetTrieDatabase(), 0)
	if err != nil {
		for _, k := range keys {
			out[k] = "err:" + err.Error()
		}
		return out
	}
	for _, k := range keys {
		v, err := tr.TryGet(account.VerifVersionTrieKey(k.Addr, k.LT))
		if err != nil {
			out[k] = "err:" + err.Error()
		} else {
			out[k] = common.ToHex(v)
		}
	}
	return out
}

func rawAccountBytes(acc *types.AccountData, err error) string {
	if err != nil || acc == nil {
		if err != nil && err != store.ErrAccountNotExist {
			return "err:" + err.Error()
		}
		return "absent"
	}
	// canonical text (the RLP form lists the version records in map order)
	var recs []string
	for lt, r := range acc.NewestRecords {
		recs = append(recs, fmt.Sprintf("%d:v%d@%d", lt, r.Version, r.Height))
	}
	sort.Strings(recs)
	votes := "nil"
	if acc.Candidate.Votes != nil {
		votes = acc.Candidate.Votes.String()
	}
	return fmt.Sprintf("addr=%s bal=%s code=%s sr=%s acr=%s air=%s er=%s votefor=%s votes=%s profile=%s signers=%s recs=%s",
		acc.Address.Hex(), acc.Balance, acc.CodeHash.Hex(), acc.StorageRoot.Hex(), acc.AssetCodeRoot.Hex(), acc.AssetIdRoot.Hex(), acc.EquityRoot.Hex(),
		acc.VoteFor.Hex(), votes, profileString(acc.Candidate.Profile), acc.Signers.String(), strings.Join(recs, ","))
}

// restartView is everything the oracle reads from a node for "the state as of block B".
type restartView struct {
	Dump     StateDump
	Raw      map[common.Address]string
	Version  map[versionKey]string
	Top      []candVotes
	All      []string // GetAllCandidates, sorted
	CtxVotes map[common.Address]string
}

func versionKeysFor(universe []common.Address) []versionKey {
	var keys []versionKey
	for _, a := range universe {
		for lt := types.ChangeLogType(1); lt <= 19; lt++ {
			keys = append(keys, versionKey{a, lt})
		}
	}
	return keys
}

// checkRestarted evaluates the C08 statement on the freshly restarted node under test.
// inflight is the index of the op during which the (first) crash fired.
func (x *c08Run) checkRestarted(inflight int) bool {
	c, w, nd := x.c, x.w, x.nut
	site := "" // the fault site is reported in the message, not in the signature
	var st *types.Block
	var stErr error
	nd.Do("stable", func() { st, stErr = nd.DB.LoadLatestBlock() })
	if stErr != nil || st == nil {
		x.fail("stable-missing", site, "after the restart the node presents no stable block: %v; %s", stErr, x.story())
		return false
	}
	x.restartStable = st.Height()
	// (a) not older than the last completed promotion, on the promoted path
	if st.Height() < x.completedH {
		x.fail("stable-regressed", site, "stable block after restart is %d/%s but the promotion of block %d had completed (the call had returned) before the crash; %s",
			st.Height(), st.Hash().Hex()[:10], x.completedH, x.story())
		return false
	}
	ref := x.tw[inflight]
	if st.Height() > ref.StableH || int(st.Height()) >= len(x.twinChain) || x.twinChain[st.Height()].Hash() != st.Hash() {
		x.fail("stable-off-path", site, "stable block after restart %d/%s is not on the path promoted by the inputs given so far (the never-crashed twin is at stable %d/%s after the same inputs); %s",
			st.Height(), st.Hash().Hex()[:10], ref.StableH, ref.Stable.Hex()[:10], x.story())
		return false
	}
	switch {
	case st.Height() == x.completedH:
		c.Probe("restart_on_last_completed_stable")
	case st.Height() == ref.StableH:
		c.Probe("restart_on_inflight_promotion_target")
	default:
		c.Probe("restart_on_intermediate_block_of_inflight_promotion")
	}
	// (b) blocks 0..stable' by height and by hash, hash-linked, equal to the twin's
	var blkProblem, blkClause string
	nd.Do("blocks", func() {
		var prev *types.Block
		for h := uint32(0); h <= st.Height(); h++ {
			want := x.twinChain[h]
			got, err := nd.DB.GetBlockByHeight(h)
			if err != nil || got == nil {
				blkClause, blkProblem = "block-unreadable", fmt.Sprintf("block %d is not readable by height: %v", h, err)
				return
			}
			if got.Hash() != want.Hash() {
				blkClause, blkProblem = "block-differs", fmt.Sprintf("block at height %d is %s, the twin's is %s", h, got.Hash().Hex()[:10], want.Hash().Hex()[:10])
				return
			}
			byHash, err := nd.DB.GetBlockByHash(want.Hash())
			if err != nil || byHash == nil {
				blkClause, blkProblem = "block-unreadable", fmt.Sprintf("block %d/%s is readable by height but not by hash: %v", h, want.Hash().Hex()[:10], err)
				return
			}
			if prev != nil && got.ParentHash() != prev.Hash() {
				blkClause, blkProblem = "block-differs", fmt.Sprintf("block %d does not link to block %d", h, h-1)
				return
			}
			for _, b := range []*types.Block{got, byHash} {
				if !bytes.Equal(blockBytesNoConfirms(b), blockBytesNoConfirms(want)) {
					blkClause, blkProblem = "block-differs", fmt.Sprintf("stored block %d differs from the twin's copy (txs %d vs %d, change logs %d vs %d, deputy nodes %d vs %d)", h, len(b.Txs), len(want.Txs), len(b.ChangeLogs), len(want.ChangeLogs), len(b.DeputyNodes), len(want.DeputyNodes))
					return
				}
				if !confirmsSubset(b.Confirms, want.Confirms) {
					blkClause, blkProblem = "block-differs", fmt.Sprintf("stored block %d carries confirmations the twin never saw", h)
					return
				}
			}
			prev = got
		}
	})
	if blkClause != "" {
		x.fail(blkClause, site, "%s (stable after restart = %d); %s", blkProblem, st.Height(), x.story())
		return false
	}
	// (c) account data as of exactly stable': persisted data, code, storage/asset tries, version trie
	vkeys := versionKeysFor(w.Universe)
	var got, want restartView
	var viewPanic interface{}
	t := c.W.Do(nd.Tag, "view", func() { got = readView(nd.DB, st, w.Universe, w.Keys, vkeys, true) })
	if !t.Finished {
		viewPanic = t.Panic
		x.fail("state-unreadable", site, "reading the account state of the stable block after restart did not finish (panic: %v); %s\n%s", viewPanic, x.story(), trimStack(t.PanicStack))
		return false
	}
	c.W.Do(w.F.Tag, "refview", func() { want = readView(w.F.DB, st, w.Universe, w.Keys, vkeys, false) })
	for _, a := range w.Universe {
		if got.Raw[a] != want.Raw[a] || DiffState(StateDump{a: got.Dump[a]}, StateDump{a: want.Dump[a]}) != "" {
			clause := x.classifyAccount(a, got, st)
			if strings.HasPrefix(got.Raw[a], "err:") {
				clause = "account-undecodable"
			}
			x.fail(clause, site, "account %s as persisted after restart on stable block %d is not its state as of exactly that block: %s%s; %s",
				a.Hex(), st.Height(), DiffState(StateDump{a: got.Dump[a]}, StateDump{a: want.Dump[a]}), rawNote(got.Raw[a], want.Raw[a]), x.story())
			return false
		}
	}
	for _, k := range vkeys {
		if got.Version[k] != want.Version[k] {
			clause := "version-trie-differs"
			if strings.HasPrefix(got.Version[k], "err:") {
				clause = "version-trie-unreadable"
			}
			x.fail(clause, site, "version trie of stable block %d (root %s): entry (%s, log type %d) reads %q, reference %q; %s", st.Height(), st.VersionRoot().Hex()[:10], k.Addr.Hex(), k.LT, got.Version[k], want.Version[k], x.story())
			return false
		}
	}
	// (d) candidate list, consistent with the account data of stable'
	exp := expectedTop(want.Dump, w.P.MaxCandidates)
	if !topEqual(got.Top, exp) {
		x.fail("candidate-top-differs", site, "top list of stable block %d after restart is %s; the account state of that block gives %s; %s", st.Height(), topString(got.Top), topString(exp), x.story())
		return false
	}
	holders := profileHolders(want.Dump)
	if strings.Join(got.All, ",") != strings.Join(holders, ",") {
		x.fail("candidate-list-differs", site, "persisted candidate list after restart on stable block %d is %v; accounts holding a candidate profile as of that block: %v; %s", st.Height(), shortAddrs(got.All), shortAddrs(holders), x.story())
		return false
	}
	for a, v := range got.CtxVotes {
		if wv := want.Dump[a]["votes"]; wv != v && !(wv == "" && v == "0") {
			x.fail("candidate-votes-differ", site, "persisted candidate list after restart on stable block %d records %s votes for %s; its account as of that block has %q; %s", st.Height(), v, a.Hex(), wv, x.story())
			return false
		}
	}
	return true
}

func rawNote(a, b string) string {
	if a == b {
		return ""
	}
	short := func(s string) string {
		if len(s) > 400 {
			return s[:400] + "..."
		}
		return s
	}
	return fmt.Sprintf(" (raw persisted record %s vs reference %s)", short(a), short(b))
}

func shortAddrs(l []string) []string {
	out := make([]string, len(l))
	for i, s := range l {
		if len(s) > 10 {
			s = s[:10]
		}
		out[i] = s
	}
	return out
}

// readView reads the state "as of block b" from a store. Must run in a task of the owner.
func readView(db *store.ChainDatabase, b *types.Block, universe []common.Address, keys *DumpKeys, vkeys []versionKey, persisted bool) restartView {
	v := restartView{Raw: map[common.Address]string{}, CtxVotes: map[common.Address]string{}}
	v.Dump = DumpState(db, b.Hash(), universe, keys)
	actDb, _ := db.GetActDatabase(b.Hash())
	for _, a := range universe {
		if persisted {
			v.Raw[a] = rawAccountBytes(db.GetAccount(a))
		} else if actDb != nil {
			v.Raw[a] = rawAccountBytes(actDb.Get(a))
		}
	}
	v.Version = readVersionTrie(db, b.VersionRoot(), vkeys)
	if persisted {
		v.Top = topOf(db.GetCandidatesTop(b.Hash()))
		all, err := db.GetAllCandidates()
		if err != nil {
			v.All = []string{"err:" + err.Error()}
		}
		for _, a := range all {
			v.All = append(v.All, a.Hex())
		}
		sort.Strings(v.All)
		if cs, err := db.Context.GetCandidates(); err == nil {
			for _, cd := range cs {
				v.CtxVotes[cd.Address] = cd.Total.String()
			}
		}
	}
	return v
}

// classifyAccount decides whether a wrong persisted account is the state of a later block
// on the path (ahead), of an earlier one (behind), or neither.
func (x *c08Run) classifyAccount(a common.Address, got restartView, st *types.Block) string {
	w := x.w
	clause := "account-differs"
	x.c.W.Do(w.F.Tag, "classify", func() {
		for h := 0; h < len(x.twinChainAll); h++ {
			b := x.twinChainAll[h]
			if b.Height() == st.Height() {
				continue
			}
			actDb, err := w.F.DB.GetActDatabase(b.Hash())
			if err != nil {
				continue
			}
			if rawAccountBytes(actDb.Get(a)) == got.Raw[a] {
				// make sure it is not simply unchanged between the two blocks
				if b.Height() > st.Height() {
					clause = "account-ahead-of-stable"
					return
				}
				clause = "account-behind-stable"
			}
		}
	})
	return clause
}
