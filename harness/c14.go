package harness

import (
	"strings"

	"verif/simrt"
)

func init() {
	Register(&PropDef{
		ID:       "C14",
		Variants: []string{"values", "bytes", "values", "bytes", "traffic"},
		Scenario: func(c *Ctx) {
			// map iteration order inside the codecs (AccountData records, profiles) is an input too
			if c.Var == "traffic" {
				// real node code runs here: keep its map order fixed (map order is C01's subject)
			} else if c.Draw("cfg", 3) == 2 {
				for i := 0; i < 64; i++ {
					simrt.SetMapMode(i, simrt.MapShuffled)
				}
			} else if c.Draw("cfg", 2) == 1 {
				for i := 0; i < 64; i++ {
					simrt.SetMapMode(i, simrt.MapReversed)
				}
			}
			switch c.Var {
			case "bytes":
				c14BytesScenario(c)
			case "traffic":
				c14TrafficScenario(c)
			default:
				c14ValuesScenario(c)
			}
			// generated strings may hold arbitrary bytes: keep reports valid UTF-8
			for i := range c.Violations {
				c.Violations[i].Msg = strings.ToValidUTF8(c.Violations[i].Msg, "\uFFFD")
			}
		},
		Rule: "values: per run 1-3 rounds; each round generates (tape-driven, boundary-biased: nil/empty/1 byte below and above 0x80/55 and 56 bytes/" +
			">64 KiB; 0,1,127,128,255,256,2^32,2^64-1,2^64,2^256-1; zero/elided/leading-zero hashes and addresses; optional pointers present/absent; " +
			"non-UTF-8 text) a header, 2 transactions (0-3 real sender signatures, optional gas payer + 0-2 payer signatures), a box with 0-3 " +
			"sub-transactions, one change log of EVERY registered type with every new/extra shape its constructor can produce, an account record, " +
			"a deputy node, a profile, a block assembled from those, 2 network messages (handshake, confirm, confirms, status, requests, " +
			"discovery), sometimes the tx / block gossip payloads, 3 Lemo addresses with case variants and digit corruption. " +
			"bytes: 20-59 decoder calls on mutated encodings (16 mutation kinds at RLP-item level, JSON text edits) of low-level types, consensus " +
			"objects and JSON payloads. traffic: blocks mined by the real miner code over a snapshot height with transfers, votes, registrations; " +
			"their transactions, change logs, deputy nodes and the account records read back from the real store. Map iteration order inside the " +
			"codecs is sorted / reversed / tape-shuffled per run. Non-trivial: values >= 20 round trips; bytes >= 5 mutants offered; traffic >= 10 " +
			"round trips and >= 2 change-log types seen. Distinct = distinct event-log digests (the digest covers every offered byte string).",
		Real: []string{"common/rlp (encode, decode, Stream)", "chain/types codecs: Header, Block, Transaction (RLP and JSON), Box payload, ChangeLog, Profile, AccountData, Asset, AssetEquity, Event, DeputyNode, SignData, Signers",
			"chain/account change-log payload decoders (registered per type)", "network message structs and network/p2p Msg.Decode", "common.Address text form, common/base26", "types signers (sender, reimbursement, gas payer) and header signer recovery",
			"traffic variant: BlockAssembler/TxProcessor/account manager/store of the nodesim factory"},
		Stub: []string{"callers: values and byte strings come from the tape-driven generators"},
		Assumptions: []string{
			"weak fit: a codec is a pure function; the simulator contributes seeded generation, replay, minimisation and (traffic variant) objects made by real node code, nothing else",
			"equal value: big.Int by value with nil == 0; nil == empty for byte strings, slices and maps (one encoding each); an absent optional address differs from a present zero address; fields the codec documents as not transported are excluded (ChangeLog.OldVal, derived Event fields, caches). An empty candidate profile / empty signers list decodes to an untyped empty value: treated as equal (counted as probe) because bytes and hash are equal",
			"encode(decode(b)) == b is required for hashed or signed objects (header, block, transaction, change log, deputy node, profile, signed messages); AccountData is stored, not hashed: value equality only",
			"canonicality (accepted byte string re-encodes to itself) is a violation for the low-level codec on Go types built from primitives; non-canonical encodings accepted by object-level decoders (short hashes in change logs, Profile ignoring Kind errors, Msg.Decode ignoring trailing bytes) are outside the statement's wording and only counted as probes",
			"JSON form of a transaction is checked under the decoder's documented preconditions (current version, 65-byte signatures) and, for non-UTF-8 messages, only if VerifyTxBody admits such a message",
			"address corruption: an independent reference decoder of 'Lemo'+base26(20 bytes + xor checksum) decides whether a corrupted string is a checksum failure (must be rejected) or by coincidence the valid form of another account (must decode to it)",
		},
	})
}
