package harness

import (
	"bytes"
	"fmt"
	"math/big"
	"sort"
	"time"

	"github.com/LemoFoundationLtd/lemochain-core/chain/account"
	"github.com/LemoFoundationLtd/lemochain-core/chain/types"
	"github.com/LemoFoundationLtd/lemochain-core/common"
	"github.com/LemoFoundationLtd/lemochain-core/store"
)

// C10 store-level variant: the harness plays account.Manager.Save against a real
// ChainDatabase - per block: SetBlock, Put of every changed account (dyed with the block
// height), CandidatesRanking with one vote log per account whose votes changed - over a tree
// of blocks with a small vote range (ties, list-full edge cases), stabilisations and reopens.
// Model: per block a map candidate -> (votes, registered).

type mCand struct {
	Votes int64
	Reg   bool
	Ever  bool
}

type mBlock struct {
	Blk    *types.Block
	Parent *mBlock
	St     map[common.Address]mCand
}

func (m *mBlock) expected(max int) []candVotes {
	var all []candVotes
	for a, cd := range m.St {
		if cd.Reg {
			all = append(all, candVotes{a, big.NewInt(cd.Votes)})
		}
	}
	sort.Slice(all, func(i, j int) bool {
		if c := all[i].Votes.Cmp(all[j].Votes); c != 0 {
			return c > 0
		}
		return bytes.Compare(all[i].Addr[:], all[j].Addr[:]) < 0
	})
	if len(all) > max {
		all = all[:max]
	}
	return all
}

func (m *mBlock) registered() int {
	n := 0
	for _, cd := range m.St {
		if cd.Reg {
			n++
		}
	}
	return n
}

func (m *mBlock) descendsFrom(a *mBlock) bool {
	for it := m; it != nil; it = it.Parent {
		if it == a {
			return true
		}
	}
	return false
}

func c10Account(a common.Address, cd mCand) *types.AccountData {
	isC := types.NotCandidateNode
	if cd.Reg {
		isC = types.IsCandidateNode
	}
	return &types.AccountData{
		Address: a, Balance: big.NewInt(0),
		Candidate:     types.Candidate{Votes: big.NewInt(cd.Votes), Profile: types.Profile{types.CandidateKeyIsCandidate: isC, types.CandidateKeyHost: "10.0.0.1"}},
		NewestRecords: map[types.ChangeLogType]types.VersionRecord{},
	}
}

// sa is a short form of a pool address (the pool differs in bytes 1, 2 and 19).
func sa(a common.Address) string { return fmt.Sprintf("%02x%02x..%02x", a[1], a[2], a[19]) }

func c10Store(c *Ctx) {
	max := 2 + c.Draw("cfg", 4)
	store.VerifSetMaxCandidateCount(max)
	const tag = 5
	home := "/sim/c10store/chaindata"
	var db *store.ChainDatabase
	open := func() bool {
		return c.W.Do(tag, "open", func() { db = store.NewChainDataBase(home) }).Finished
	}
	closeDB := func() {
		c.W.Do(tag, "close", func() { db.Close() })
		c.W.Sleep(2 * time.Second)
	}
	if !open() {
		c.Fail("C10/harness/store-open", "store did not open")
		return
	}
	c.Cleanups = append(c.Cleanups, func() {
		if db != nil {
			closeDB()
		}
	})
	// address pool with tape-chosen bytes (relative order matters for ties)
	npool := max*3 + c.Draw("cfg", 3)
	var pool []common.Address
	seenA := map[common.Address]bool{}
	for len(pool) < npool {
		var a common.Address
		a[0] = 0x01
		a[1] = byte(c.Draw("cfg", 256))
		a[2] = byte(c.Draw("cfg", 256))
		a[19] = byte(len(pool))
		if !seenA[a] {
			seenA[a] = true
			pool = append(pool, a)
		}
	}
	seq := 0
	mkBlock := func(parent *mBlock) *types.Block {
		seq++
		h := &types.Header{Height: 0, Time: uint32(946684800 + seq), Extra: fmt.Sprintf("c10-%d", seq), GasLimit: 1000000}
		if parent != nil {
			h.ParentHash = parent.Blk.Hash()
			h.Height = parent.Blk.Height() + 1
		}
		return types.NewBlock(h, nil, nil)
	}
	story := []string{}
	note := func(format string, args ...interface{}) {
		story = append(story, fmt.Sprintf(format, args...))
		if len(story) > 14 {
			story = story[1:]
		}
	}
	full, tie, reopened := false, false, false
	check := func(m *mBlock, when string) bool {
		var got []candVotes
		t := c.W.Do(tag, "top", func() { got = topOf(db.GetCandidatesTop(m.Blk.Hash())) })
		if !t.Finished {
			c.Fail("C10/top-list/unreadable", "GetCandidatesTop of block %d panics (%v) %s; last steps: %v", m.Blk.Height(), t.Panic, when, story)
			return false
		}
		exp := m.expected(max)
		if m.registered() > max {
			full = true
			c.Probe("more_registered_candidates_than_slots")
			all := m.expected(1 << 20)
			if all[max-1].Votes.Cmp(all[max].Votes) == 0 {
				tie = true
				c.Probe("tie_at_the_cut")
			}
		}
		if topEqual(got, exp) {
			return true
		}
		state := StateDump{}
		for a, cd := range m.St {
			isC := "false"
			if cd.Reg {
				isC = "true"
			}
			if cd.Ever {
				state[a] = AcctDump{"profile": "isCandidate=" + isC + ";", "votes": fmt.Sprint(cd.Votes)}
			}
		}
		who := "store"
		if reopened {
			who = "store-reopened"
		}
		c.Fail("C10/top-list/"+classifyTop(got, exp, state, max)+ctxClass(who), "block %d/%s %s (%s): published top list %s; registered candidates sorted by votes desc, address asc, cut to %d: %s (%d registered); last steps: %v",
			m.Blk.Height(), m.Blk.Hash().Hex()[:10], when, who, topString(got), max, topString(exp), m.registered(), story)
		return false
	}
	// genesis: 1..max+1 candidates with 0 votes, each with a (0 -> 0) vote log as the real genesis has
	gen := &mBlock{St: map[common.Address]mCand{}}
	gen.Blk = mkBlock(nil)
	ng := 1 + c.Draw("gen", max+1)
	var logs types.ChangeLogSlice
	for i := 0; i < ng; i++ {
		gen.St[pool[i]] = mCand{Votes: 0, Reg: true, Ever: true}
		logs = append(logs, &types.ChangeLog{LogType: account.VotesLog, Address: pool[i], Version: 1, OldVal: *big.NewInt(0), NewVal: *big.NewInt(0)})
	}
	ok := c.W.Do(tag, "genesis", func() {
		if err := db.SetBlock(gen.Blk.Hash(), gen.Blk); err != nil {
			panic(err)
		}
		act, _ := db.GetActDatabase(gen.Blk.Hash())
		for i := 0; i < ng; i++ {
			act.Put(c10Account(pool[i], gen.St[pool[i]]), 0)
		}
		db.CandidatesRanking(gen.Blk.Hash(), logs)
		if _, err := db.SetStableBlock(gen.Blk.Hash()); err != nil {
			panic(err)
		}
	}).Finished
	if !ok {
		c.Fail("C10/harness/store-genesis", "store genesis failed")
		return
	}
	stable := gen
	live := []*mBlock{} // unconfirmed blocks
	if !check(gen, "after genesis") {
		return
	}
	steps := 8 + c.Draw("gen", 14)
	blocks := 0
	noUnregister := c.Draw("cfg", 2) == 1 // swarm: half of the runs never unregister
	for s := 0; s < steps && !c.Failed(); s++ {
		switch k := c.Draw("op", 10); {
		case k < 7 || len(live) == 0: // new block
			parent := stable
			if len(live) > 0 {
				parent = live[len(live)-1]
				if c.Draw("op", 4) == 0 {
					i := c.Draw("op", len(live)+1)
					if i < len(live) {
						parent = live[i]
					} else {
						parent = stable
					}
				}
			}
			m := &mBlock{Parent: parent, St: map[common.Address]mCand{}}
			for a, cd := range parent.St {
				m.St[a] = cd
			}
			m.Blk = mkBlock(parent)
			changed := map[common.Address]bool{}
			var vlogs types.ChangeLogSlice
			nops := 1 + c.Draw("op", 3)
			desc := ""
			for i := 0; i < nops; i++ {
				a := pool[c.Draw("op", len(pool))]
				if changed[a] {
					continue
				}
				cd := m.St[a]
				old := cd
				switch {
				case !cd.Ever:
					cd = mCand{Votes: int64(1 + c.Draw("op", 4)), Reg: true, Ever: true}
					desc += fmt.Sprintf(" register(%s,%d)", sa(a), cd.Votes)
				case cd.Reg && c.Draw("op", 4) == 0 && !noUnregister:
					cd.Reg, cd.Votes = false, 0
					desc += fmt.Sprintf(" unregister(%s,had %d)", sa(a), old.Votes)
				case cd.Reg:
					nv := int64(c.Draw("op", 5))
					if nv == 0 && !(gen.St[a].Reg) {
						nv = 1 // only genesis candidates (no deposit) can have 0 votes
					}
					cd.Votes = nv
					if nv != old.Votes {
						desc += fmt.Sprintf(" votes(%s,%d->%d)", sa(a), old.Votes, nv)
					}
				default:
					continue // unregistered for good
				}
				if cd == old {
					continue
				}
				changed[a] = true
				m.St[a] = cd
				if cd.Votes != old.Votes {
					vlogs = append(vlogs, &types.ChangeLog{LogType: account.VotesLog, Address: a, Version: uint32(m.Blk.Height()) + 1, OldVal: *big.NewInt(old.Votes), NewVal: *big.NewInt(cd.Votes)})
				}
			}
			// the account layer hands the logs over sorted by address
			sort.Slice(vlogs, func(i, j int) bool { return bytes.Compare(vlogs[i].Address[:], vlogs[j].Address[:]) < 0 })
			note("block %d/%s on %s:%s", m.Blk.Height(), m.Blk.Hash().Hex()[:8], parent.Blk.Hash().Hex()[:8], desc)
			ok := c.W.Do(tag, "block", func() {
				if err := db.SetBlock(m.Blk.Hash(), m.Blk); err != nil {
					panic(err)
				}
				act, _ := db.GetActDatabase(m.Blk.Hash())
				var addrs []common.Address
				for a := range changed {
					addrs = append(addrs, a)
				}
				sort.Slice(addrs, func(i, j int) bool { return bytes.Compare(addrs[i][:], addrs[j][:]) < 0 })
				for _, a := range addrs {
					act.Put(c10Account(a, m.St[a]), m.Blk.Height())
				}
				db.CandidatesRanking(m.Blk.Hash(), vlogs)
			})
			if !ok.Finished {
				c.Fail("C10/panic/"+panicSite(ok.PanicStack), "store panics while a block is saved: %v; last steps: %v\n%s", ok.Panic, story, trimStack(ok.PanicStack))
				return
			}
			live = append(live, m)
			blocks++
			if !check(m, "after it was saved") {
				return
			}
		case k < 9: // stabilise one unconfirmed block
			m := live[c.Draw("op", len(live))]
			note("stabilise %d/%s", m.Blk.Height(), m.Blk.Hash().Hex()[:8])
			ok := c.W.Do(tag, "stable", func() {
				if _, err := db.SetStableBlock(m.Blk.Hash()); err != nil {
					panic(err)
				}
			})
			if !ok.Finished {
				c.Fail("C10/panic/"+panicSite(ok.PanicStack), "SetStableBlock panics: %v; last steps: %v", ok.Panic, story)
				return
			}
			c.W.Settle()
			stable = m
			var keep []*mBlock
			for _, l := range live {
				if l != m && l.descendsFrom(m) {
					keep = append(keep, l)
				}
			}
			live = keep
			c.Fault("stabilise")
			if !check(stable, "after it became stable") {
				return
			}
			for _, l := range live {
				if !check(l, "after an ancestor became stable") {
					return
				}
			}
		default: // reopen
			note("close and reopen (stable %d/%s)", stable.Blk.Height(), stable.Blk.Hash().Hex()[:8])
			closeDB()
			if !open() {
				c.Fail("C10/restart/failed", "store did not reopen after a clean close; last steps: %v", story)
				db = nil
				return
			}
			live = nil
			reopened = true
			c.Fault("clean_restart")
			if !check(stable, "after a clean reopen") {
				return
			}
		}
	}
	c.Nontrivial = blocks >= 3 && full
	c.Sample = map[string]interface{}{"variant": "store", "max_candidates": max, "pool": npool, "blocks": blocks, "more_candidates_than_slots": full, "tie_at_cut": tie, "reopened": reopened}
}
