package harness

import (
	"github.com/LemoFoundationLtd/lemochain-core/chain/params"
	"fmt"
	"math/big"
	"sort"
	"strings"
	"time"

	"github.com/LemoFoundationLtd/lemochain-core/chain/types"
	"github.com/LemoFoundationLtd/lemochain-core/common"
	"github.com/LemoFoundationLtd/lemochain-core/common/crypto"
)

// C02 Block acceptance is sound. A node under test receives blocks derived from valid
// ones by one or two corruption operators on header and body fields, with and without
// re-signing by the in-turn deputy, another deputy or an outsider.
// Oracle A (accepted => valid): parent known to the node, height, time window, extra
// bound, signed by the deputy whose slot it is (reference slot rule) with that deputy's
// miner address, transactions inside their expiry window and not replayed, and an
// honest re-execution of the block's transaction list by an independent miner on the
// same parent/time/extra reproduces the very same header hash.
// Oracle B (rejected => no trace): current, stable, known-block set, per-block confirm
// lists, account dump at head and stable, pool content, candidate list and persisted
// stable pointer are unchanged.

type c02World struct {
	c     *Ctx
	net   *Net
	f     *Factory
	nut   *Node
	known map[common.Hash]*types.Block // blocks the NUT accepted (+genesis)
	fab   []*types.Block               // valid blocks fabricated so far (factory store)
	spare []*types.Transaction
}

// observe returns a canonical description of everything the statement says a rejection
// must leave unchanged.
func (w *c02World) observe(extra ...*types.Block) string {
	var b strings.Builder
	nd := w.nut
	nd.Do("observe", func() {
		cur, st := nd.BC.CurrentBlock(), nd.BC.StableBlock()
		fmt.Fprintf(&b, "cur=%s st=%s;", cur.Hash().Hex()[:12], st.Hash().Hex()[:12])
		if ps, err := nd.DB.GetStableBlock(); err == nil && ps != nil {
			fmt.Fprintf(&b, "persisted=%s;", ps.Hash().Hex()[:12])
		}
		all := append(append([]*types.Block{}, w.fab...), extra...)
		for _, blk := range all {
			ok, _ := nd.DB.IsExistByHash(blk.Hash())
			fmt.Fprintf(&b, "%s:%v", blk.Hash().Hex()[2:8], ok)
			if ok {
				if cf, err := nd.DB.GetConfirms(blk.Hash()); err == nil {
					fmt.Fprintf(&b, "/c%d", len(cf))
				}
			}
			b.WriteString(",")
		}
		uni := []common.Address{w.net.Founder.Addr}
		for _, u := range w.net.Users {
			uni = append(uni, u.Addr)
		}
		for _, d := range w.net.Deputies {
			uni = append(uni, d.Income.Addr)
		}
		for _, h := range []common.Hash{cur.Hash(), st.Hash()} {
			d := DumpState(nd.DB, h, uni, nil)
			var parts []string
			for a, ad := range d {
				parts = append(parts, a.Hex()[2:8]+"="+ad["a.balance"]+"/"+ad["records"])
			}
			sort.Strings(parts)
			b.WriteString(strings.Join(parts, ",") + ";")
		}
		slots, _, _ := nd.Pool.VerifDump()
		var ph []string
		for _, tx := range slots {
			if tx != nil {
				ph = append(ph, tx.Hash().Hex()[2:8])
			}
		}
		sort.Strings(ph)
		fmt.Fprintf(&b, "pool=%v;", ph)
		var top []string
		for _, cd := range nd.DB.GetCandidatesTop(cur.Hash()) {
			top = append(top, cd.Address.Hex()[2:8]+":"+cd.Total.String())
		}
		fmt.Fprintf(&b, "top=%v", top)
	})
	return b.String()
}

func resign(b *types.Block, k *keyInfo) {
	h := b.Header.Hash()
	sig, err := crypto.Sign(h[:], k.Key)
	if err != nil {
		panic(err)
	}
	b.Header.SignData = sig
}

func flipHash(h common.Hash, bit int) common.Hash {
	h[bit%32] ^= 1 << uint(bit%8)
	return h
}

// mutate applies one tape-chosen operator to b (a private copy); it returns a label.
func (w *c02World) mutate(b *types.Block, parent *types.Block, now int64) string {
	c := w.c
	net := w.net
	if c.Draw("mut2", 12) == 11 {
		// at most 256 characters, but far more than 256 BYTES (the limit of the statement is in bytes)
		b.Header.Extra = strings.Repeat("\u94fe", 86+c.Draw("mut2", 170))
		return "extra-over-256-bytes-in-multibyte-characters"
	}
	switch k := c.Draw("mut", 34); k {
	case 0:
		var h common.Hash
		c.T.Bytes("mut", h[:])
		b.Header.ParentHash = h
		return "parent-unknown"
	case 1:
		if parent.Height() == 0 {
			return ""
		}
		b.Header.ParentHash = parent.ParentHash()
		return "parent-other-known"
	case 2:
		cur := net.DeputyByMiner(b.MinerAddress())
		if cur == nil {
			return ""
		}
		b.Header.MinerAddress = net.Deputies[(cur.Rank+1)%len(net.Deputies)].Miner.Addr
		return "miner-other-deputy"
	case 3:
		b.Header.MinerAddress = detKey("c02-outsider").Addr
		return "miner-outsider"
	case 4:
		b.Header.VersionRoot = flipHash(b.Header.VersionRoot, c.Draw("mut", 256))
		return "version-root"
	case 5:
		b.Header.LogRoot = flipHash(b.Header.LogRoot, c.Draw("mut", 256))
		return "log-root"
	case 6:
		b.Header.TxRoot = flipHash(b.Header.TxRoot, c.Draw("mut", 256))
		return "tx-root"
	case 7:
		b.Header.Height++
		return "height+1"
	case 8:
		b.Header.Height--
		return "height-1"
	case 9:
		b.Header.GasLimit += 1 + uint64(c.Draw("mut", 1000))
		return "gas-limit"
	case 10:
		b.Header.GasUsed += 1 + uint64(c.Draw("mut", 1000))
		return "gas-used"
	case 11:
		if parent.Time() == 0 {
			return ""
		}
		b.Header.Time = parent.Time() - 1 - uint32(c.Draw("mut", 5))
		return "time-before-parent"
	case 12:
		b.Header.Time = uint32(now + 2 + int64(c.Draw("mut", 100)))
		return "time-future"
	case 13:
		b.Header.Time = uint32(now + 1)
		return "time-now+1"
	case 14:
		b.Header.Time += uint32(net.P.SlotMs/1000) * uint32(1+c.Draw("mut", 3))
		return "time-other-slot"
	case 15:
		b.Header.Extra = strings.Repeat("x", 256)
		return "extra-256"
	case 16:
		b.Header.Extra = strings.Repeat("x", 257+c.Draw("mut", 50))
		return "extra-over-256"
	case 17:
		b.Header.DeputyRoot = []byte{1, 2, 3}
		return "deputy-root-junk"
	case 18:
		if len(b.Header.SignData) == 65 {
			b.Header.SignData[c.Draw("mut", 64)] ^= 1
		}
		return "sign-bitflip"
	case 19:
		if len(b.Header.SignData) != 65 {
			return ""
		}
		b.Header.SignData = ReencodeSig(b.Header.SignData)
		return "sign-reencoded"
	case 20:
		b.Header.SignData = nil
		return "sign-empty"
	case 21:
		if len(b.Txs) == 0 {
			return ""
		}
		i := c.Draw("mut", len(b.Txs))
		b.Txs = append(b.Txs[:i:i], b.Txs[i+1:]...)
		return "tx-dropped"
	case 22:
		if len(b.Txs) == 0 {
			return ""
		}
		b.Txs = append(b.Txs, wireCopyTx(b.Txs[c.Draw("mut", len(b.Txs))]))
		return "tx-duplicated"
	case 23:
		if len(b.Txs) < 2 {
			return ""
		}
		b.Txs[0], b.Txs[1] = b.Txs[1], b.Txs[0]
		return "tx-reordered"
	case 24:
		if len(w.spare) == 0 {
			return ""
		}
		b.Txs = append(b.Txs, wireCopyTx(w.spare[c.Draw("mut", len(w.spare))]))
		return "tx-added"
	case 25:
		// replay a transaction of an ancestor
		anc := parent
		for anc.Height() > 0 && len(anc.Txs) == 0 {
			anc = w.f.Blocks[anc.ParentHash()]
		}
		if len(anc.Txs) == 0 {
			return ""
		}
		b.Txs = append(b.Txs, wireCopyTx(anc.Txs[c.Draw("mut", len(anc.Txs))]))
		return "tx-replayed-from-ancestor"
	case 26:
		tx := net.SignedTransfer(net.Founder, net.Users[0].Addr, big.NewInt(5), uint64(int64(b.Time())-1-int64(c.Draw("mut", 100))), "c02-expired")
		b.Txs = append(b.Txs, tx)
		return "tx-expired"
	case 27:
		tx := net.SignedTransfer(net.Founder, net.Users[0].Addr, big.NewInt(5), uint64(int64(b.Time())+1801+int64(c.Draw("mut", 100))), "c02-too-long-lived")
		b.Txs = append(b.Txs, tx)
		return "tx-lifetime-too-long"
	case 28:
		if len(b.Txs) == 0 {
			return ""
		}
		i := c.Draw("mut", len(b.Txs))
		fl := b.Txs[i].VerifFields()
		fl.Amount = new(big.Int).Add(fl.Amount, big.NewInt(1))
		b.Txs[i] = types.VerifNewTx(fl)
		return "tx-amount-tampered"
	case 29:
		if len(b.Txs) == 0 {
			return ""
		}
		i := c.Draw("mut", len(b.Txs))
		b.Txs[i].SetGasUsed(b.Txs[i].GasUsed() + 1)
		return "tx-gas-used+1"
	case 30:
		b.ChangeLogs = nil
		return "changelogs-dropped"
	case 31:
		if len(b.ChangeLogs) == 0 {
			return ""
		}
		b.ChangeLogs = append(b.ChangeLogs, b.ChangeLogs[0])
		return "changelogs-extra"
	case 32:
		var junk [65]byte
		c.T.Bytes("mut", junk[:])
		b.Confirms = append(b.Confirms, types.SignData(junk), w.net.Confirm(c.Draw("mut", len(net.Deputies)), b.Hash()))
		return "confirms-junk"
	default:
		b.DeputyNodes = types.DeputyNodes{&types.DeputyNode{MinerAddress: net.Users[0].Addr, NodeID: net.Deputies[0].Node.NodeID, Rank: 0, Votes: big.NewInt(1)}}
		return "deputy-nodes-added"
	}
}

func c02Scenario(c *Ctx) {
	p := defaultParams(c)
	p.NDeputies = 1 + c.Draw("cfg", 4)
	p.DeputyCount = p.NDeputies
	p.SlotMs = []uint64{3000, 1000, 2000}[c.Draw("cfg", 3)]
	net := NewNet(c, p)
	f := net.NewFactory(40)
	nut := net.AddNode(1, "nut", detKey("observer1"))
	if !nut.StartNode() {
		c.Fail("C02/harness/start", "node did not start")
		return
	}
	gen := f.Blocks[net.GenBlock.Hash()]
	w := &c02World{c: c, net: net, f: f, nut: nut, known: map[common.Hash]*types.Block{gen.Hash(): gen}}
	outsider := detKey("c02-outsider")
	txn := 0
	mkTxs := func(now int64, n int) types.Transactions {
		var txs types.Transactions
		for i := 0; i < n; i++ {
			txn++
			txs = append(txs, net.SignedTransfer(net.Founder, net.Users[txn%len(net.Users)].Addr, big.NewInt(int64(100+txn)), uint64(now+300+int64(c.Draw("gen", 1000))), fmt.Sprintf("c02-%d", txn)))
		}
		return txs
	}
	head := gen
	accepted, rejected, mutants := 0, 0, 0
	labels := map[string]int{}
	rounds := 3 + c.Draw("gen", 6)
	for r := 0; r < rounds && !c.Failed(); r++ {
		c.W.Sleep(time.Duration(300+c.Draw("gen", int(2*p.SlotMs))) * time.Millisecond)
		now := time.Now().Unix()
		parent := head
		if c.Draw("gen", 5) == 0 && len(w.fab) > 0 {
			cand := w.fab[c.Draw("gen", len(w.fab))]
			if w.known[cand.Hash()] != nil {
				parent = cand // fork above an older block
				c.Fault("fork_parent")
			}
		}
		if now < int64(parent.Time()) {
			continue
		}
		d := net.nextDeputy(parent, now)
		w.spare = append(w.spare, mkTxs(now, 1)...)
		valid, _, err := f.Mine(d, parent, uint32(now), mkTxs(now, c.Draw("gen", 4)), fmt.Sprintf("r%d", r))
		if err != nil || valid == nil {
			continue
		}
		w.fab = append(w.fab, valid)
		// 1-3 mutants of this valid block
		nm := 1 + c.Draw("gen", 3)
		for m := 0; m < nm && !c.Failed(); m++ {
			bz := wireCopyBlock(valid)
			lab := ""
			if c.Draw("hostile", 6) == 5 {
				// a deputy that runs the same miner code but feeds it hostile candidates: the block has
				// consistent roots, so only the transaction rules stand between it and acceptance
				var cands types.Transactions
				for _, tx := range valid.Txs {
					cands = append(cands, wireCopyTx(tx))
				}
				var sub *types.Transaction
				boxExp := uint64(now + 1 + int64(c.Draw("hostile", 1800)))
				kind := ""
				switch hk := c.Draw("hostile", 4); {
				case hk == 3 && len(valid.Txs) > 0:
					// a transaction of the block once more, inside a box that comes after it
					sub = wireCopyTx(valid.Txs[c.Draw("hostile", len(valid.Txs))])
					if sub.Type() == params.BoxTx {
						continue
					}
					boxExp = sub.Expiration()
					kind = "box-repeats-a-transaction-of-the-block"
				case hk == 0:
					sub = net.SignedTransfer(net.Founder, net.Users[0].Addr, big.NewInt(7), uint64(now+1801+int64(c.Draw("hostile", 1700))), fmt.Sprintf("c02-sub-outlives-window-%d", mutants))
					kind = "box-sub-tx-lifetime-too-long"
				case hk == 1:
					sub = net.SignedTransfer(net.Founder, net.Users[0].Addr, big.NewInt(7), uint64(now-1-int64(c.Draw("hostile", 100))), fmt.Sprintf("c02-sub-expired-%d", mutants))
					kind = "box-sub-tx-expired"
				default:
					sub = net.SignedTransfer(net.Founder, net.Users[0].Addr, big.NewInt(7), uint64(now+1801+int64(c.Draw("hostile", 1700))), fmt.Sprintf("c02-sub-outlives-box-%d", mutants))
					boxExp = uint64(now + 1 + int64(c.Draw("hostile", 60)))
					kind = "box-sub-tx-outlives-box-and-window"
				}
				data, err := types.MarshalBoxData(types.Transactions{sub})
				if err != nil {
					panic(err)
				}
				box := signTx(types.NoReceiverTransaction(net.Founder.Addr, big.NewInt(0), 2000000, big.NewInt(1e9), data, params.BoxTx, net.P.ChainID, boxExp, "", fmt.Sprintf("c02-hostile-box-%d", mutants)), net.Founder)
				hb, _, err := f.Mine(d, parent, uint32(now), append(cands, box), fmt.Sprintf("h%d.%d", r, m))
				has := false
				if err == nil && hb != nil {
					for _, tx := range hb.Txs {
						if tx.Hash() == box.Hash() {
							has = true
						}
					}
				}
				if !has {
					c.Probe("hostile_candidate_discarded_by_miner_code")
					continue
				}
				c.Fault("remined_with_hostile_candidates")
				bz = wireCopyBlock(hb)
				lab = "remined-with-" + kind + "/signed-by-in-turn-deputy"
			} else {
				lab = w.mutate(bz, parent, now)
				if lab == "" {
					continue
				}
				if c.Draw("mut", 4) == 0 {
					if l2 := w.mutate(bz, parent, now); l2 != "" {
						lab += "+" + l2
					}
				}
			}
			resignMode := c.Draw("mut", 5)
			if strings.HasPrefix(lab, "remined-") {
				resignMode = -1 // already a consistent block signed by its miner
			}
			switch resignMode {
			case -1:
			case 0, 1:
				lab += "/unsigned-change"
			case 2:
				resign(bz, net.Deputies[d].Node)
				lab += "/resigned-by-in-turn-deputy"
			case 3:
				resign(bz, net.Deputies[(d+1)%len(net.Deputies)].Node)
				lab += "/resigned-by-other-deputy"
			default:
				resign(bz, outsider)
				lab += "/resigned-by-outsider"
			}
			mutants++
			c.Fault("mutant")
			before := w.observe(bz)
			nowIns := time.Now().Unix()
			_, ierr := nut.InsertBlock(wireCopyBlock(bz))
			if ierr != nil {
				rejected++
				after := w.observe(bz)
				if before != after {
					c.Fail("C02/rejected-left-trace/"+strings.SplitN(lab, "/", 2)[0], "block %d mutated by %s was rejected (%v) but the node's observable state changed:\n before: %s\n after:  %s", bz.Height(), lab, ierr, before, after)
					return
				}
				continue
			}
			// accepted: must be valid, clause by clause
			accepted++
			labels[lab]++
			fail := func(clause, format string, args ...interface{}) {
				c.Fail("C02/accepted-invalid/"+clause, "block %d mutated by %s was ACCEPTED but %s", bz.Height(), lab, fmt.Sprintf(format, args...))
			}
			par, ok := w.known[bz.ParentHash()]
			if !ok {
				fail("parent-unknown", "its parent %s is not a block this node had accepted", bz.ParentHash().Hex()[:12])
				return
			}
			if bz.Height() != par.Height()+1 {
				fail("height", "height %d != parent height %d + 1", bz.Height(), par.Height())
				return
			}
			if bz.Time() < par.Time() || int64(bz.Time()) > nowIns+1 {
				fail("time", "time %d is outside [parent %d, now+1 = %d]", bz.Time(), par.Time(), nowIns+1)
				return
			}
			if len(bz.Extra()) > 256 {
				fail("extra", "extra data has %d bytes", len(bz.Extra()))
				return
			}
			id, err := bz.SignerNodeID()
			var dep *Deputy
			if err == nil {
				dep = net.DeputyByNodeID(id)
			}
			if dep == nil {
				fail("signer-not-deputy", "its signature does not recover to a deputy")
				return
			}
			want := net.nextDeputy(par, int64(bz.Time()))
			if dep.Rank != want {
				fail("out-of-turn", "it is signed by deputy rank %d but the slot at time %d after parent (rank of its miner, time %d) belongs to rank %d", dep.Rank, bz.Time(), par.Time(), want)
				return
			}
			if dep.Miner.Addr != bz.MinerAddress() {
				fail("miner-address", "its miner address %s is not the signing deputy's %s", bz.MinerAddress().Hex()[:12], dep.Miner.Addr.Hex()[:12])
				return
			}
			seen := map[common.Hash]bool{}
			for _, tx := range allTxs(bz) { // sub-transactions of boxes are executed too
				if tx.Expiration() < uint64(bz.Time()) || tx.Expiration() > uint64(bz.Time())+1800 {
					fail("tx-expiry", "transaction %q has expiration %d outside [block time %d, +30 min]", tx.Message(), tx.Expiration(), bz.Time())
					return
				}
			}
			for _, tx := range bz.Txs {
				if seen[tx.Hash()] {
					fail("tx-replay", "transaction %q appears twice in it", tx.Message())
					return
				}
				seen[tx.Hash()] = true
				if tx.Type() == params.BoxTx {
					if box, err := types.GetBox(tx.Data()); err == nil {
						for _, st := range box.SubTxList {
							if seen[st.Hash()] {
								fail("tx-replay", "transaction %q is executed twice by it (standalone and/or inside boxes)", st.Message())
								return
							}
							seen[st.Hash()] = true
						}
					}
				}
			}
			for a := par; ; a = w.known[a.ParentHash()] {
				for _, tx := range a.Txs {
					if seen[tx.Hash()] {
						fail("tx-replay", "transaction %q was executed already in ancestor block %d", tx.Message(), a.Height())
						return
					}
				}
				if a.Height() == 0 || w.known[a.ParentHash()] == nil {
					break
				}
			}
			// honest re-execution by an independent miner
			var txs types.Transactions
			for _, tx := range bz.Txs {
				txs = append(txs, wireCopyTx(tx))
			}
			// the gas limit is a header field the miner chooses (no rule in the statement): take it as given
			f.GasLimitOverride = bz.GasLimit()
			re, inv, err := f.Mine(dep.Rank, f.Blocks[par.Hash()], bz.Time(), txs, bz.Extra())
			f.GasLimitOverride = 0
			if err != nil || re == nil {
				fail("re-execution", "an honest miner cannot produce a block from its transactions: %v", err)
				return
			}
			if len(inv) > 0 {
				fail("re-execution", "an honest miner discards %d of its transactions as invalid", len(inv))
				return
			}
			if re.Hash() != bz.Hash() {
				fail("re-execution-"+whichRoot(re, bz), "honest re-execution of its transactions on the same parent gives another header (%s differs)", whichRoot(re, bz))
				return
			}
			w.known[bz.Hash()] = bz
			w.fab = append(w.fab, re)
			if bz.Height() > head.Height() {
				head = re
			}
		}
		// deliver the valid block itself most of the time so that the chain grows
		if c.Draw("gen", 4) != 0 && w.known[valid.Hash()] == nil {
			if _, err := nut.InsertBlock(wireCopyBlock(valid)); err == nil {
				w.known[valid.Hash()] = valid
				if valid.Height() > head.Height() {
					head = valid
				}
				if c.Draw("gen", 2) == 0 {
					var sigs []types.SignData
					for k := range net.Deputies {
						if k != d {
							sigs = append(sigs, net.Confirm(k, valid.Hash()))
						}
					}
					if len(sigs) > 0 {
						nut.InsertConfirms(valid.Height(), valid.Hash(), sigs)
					}
				}
			}
		}
	}
	c.Nontrivial = mutants >= 2 && rejected >= 1
	c.Sample = map[string]interface{}{"deputies": p.NDeputies, "mutants": mutants, "rejected": rejected, "accepted": accepted, "accepted_operators": labels}
}

func init() {
	Register(&PropDef{
		ID: "C02", Variants: []string{"mutants"}, Scenario: c02Scenario,
		Rule: "3-8 rounds: a valid block is fabricated on the head or on an older accepted block (forks), then 1-3 mutants of it are derived by one or two of 34 corruption operators (every header field incl. parent->unknown/other, miner, each root, height, gas, time before parent / future / now+1 / other slot, extra 256/257+, deputy root, signature bit-flip / re-encoded / empty; body: tx dropped, duplicated, reordered, added, replayed from an ancestor, expired, too long-lived, amount tampered, gasUsed+1, change logs dropped/extra, junk confirms, deputy nodes added) x {not re-signed, re-signed by the in-turn deputy, another deputy, an outsider}; each mutant is inserted and judged by oracle A (accepted => valid clause by clause incl. independent honest re-execution) or B (rejected => observable state unchanged); non-trivial = >=2 mutants and >=1 rejection; distinct = event-log digests",
		Real: []string{"chain/consensus (validator, DPoVP.InsertBlock/VerifyAndSeal, schedule)", "chain/transaction", "chain/account", "chain/txpool", "chain/deputynode", "store", "common/rlp"},
		Stub: []string{"peers = harness; independent re-execution = a second use of the real assembler in the factory (shares code with the node; its slot/time/extra/parent clauses are checked by harness rules)"},
		Assumptions: []string{"completeness (valid => accepted) is not asserted here", "the re-execution oracle shares the transaction processor with the node under test; clause checks that do not (parent, height, time, extra, signer/slot, expiry, replay) are harness rules from the statement"},
	})
}
