package harness

import (
	"encoding/json"
	"fmt"
	"math/big"

	"github.com/LemoFoundationLtd/lemochain-core/chain/params"
	"github.com/LemoFoundationLtd/lemochain-core/chain/types"
	"github.com/LemoFoundationLtd/lemochain-core/common"
	"github.com/LemoFoundationLtd/lemochain-core/common/crypto"
)

// TxGen produces signed transactions of all 11 types from the tape. It keeps a rough
// model of what exists (candidates, assets, contracts, multisig accounts) only to make
// most transactions meaningful; it is NOT an oracle. Invalid transactions are wanted too
// (they exercise the miner's discard path).
type TxGen struct {
	Net *Net
	C   *Ctx
	L   string // tape label

	Candidates []common.Address        // registered (maybe unregistered again)
	CandKey    map[common.Address]*keyInfo
	Assets     []*genAsset
	Contracts  []common.Address
	Multisig   map[common.Address][]msigner // account -> signers
	TempAddrs  []common.Address
	Signed     []*SignedAct // authorisation ledger (every honest signing act)
	seq        int
}

type msigner struct {
	K *keyInfo
	W uint8
}

type genAsset struct {
	Code      common.Hash
	Issuer    *keyInfo
	Category  uint32
	Divisible bool
	Repl      bool
	Ids       []common.Hash
	Holders   map[common.Address]bool
}

// SignedAct records one honest authorisation (C06 ledger).
type SignedAct struct {
	Role   string // "sender", "payer"
	Signer common.Address
	Tx     *types.Transaction // as signed (content at signing time)
}

func NewTxGen(n *Net, c *Ctx, label string) *TxGen {
	return &TxGen{Net: n, C: c, L: label, CandKey: map[common.Address]*keyInfo{}, Multisig: map[common.Address][]msigner{}}
}

func (g *TxGen) d(n int) int { return g.C.Draw(g.L, n) }

func lemo(n int64) *big.Int { return new(big.Int).Mul(big.NewInt(n), big.NewInt(1e18)) }

func (g *TxGen) user() *keyInfo { return g.Net.Users[g.d(len(g.Net.Users))] }

func (g *TxGen) anyAddr() common.Address {
	switch k := g.d(10); {
	case k < 6:
		return g.user().Addr
	case k < 7 && len(g.Contracts) > 0:
		return g.Contracts[g.d(len(g.Contracts))]
	case k < 8:
		return common.BytesToAddress([]byte{byte(1 + g.d(9))}) // precompiles 0x01..0x09
	case k < 9:
		return g.Net.Founder.Addr
	}
	return common.HexToAddress(fmt.Sprintf("0x0100%04x", g.d(4))) // fresh accounts
}

func (g *TxGen) gasPrice() *big.Int { return big.NewInt(int64(1+g.d(3)) * 1e9) }

func (g *TxGen) exp(now int64) uint64 { return uint64(now + 60 + int64(g.d(1500))) }

func (g *TxGen) amount() *big.Int {
	switch g.d(6) {
	case 0:
		return big.NewInt(0)
	case 1:
		return big.NewInt(int64(1 + g.d(1000)))
	case 2:
		return lemo(int64(200 * (1 + g.d(4)))) // exactly on a vote boundary
	case 3:
		x := lemo(int64(100 * (1 + g.d(8))))
		return x.Sub(x, big.NewInt(int64(g.d(3)))) // just below a boundary
	case 4:
		return lemo(int64(1 + g.d(50)))
	}
	return lemo(int64(100000 + g.d(100000))) // usually more than the sender has
}

// sign signs tx for account `from`: its own key, or enough multisig signers.
func (g *TxGen) sign(tx *types.Transaction, from *keyInfo) *types.Transaction {
	signer := types.MakeSigner()
	if ms, ok := g.Multisig[from.Addr]; ok && len(ms) > 0 {
		total := 0
		out := tx
		for _, m := range ms {
			s, err := signer.SignTx(out, m.K.Key)
			if err != nil {
				panic(err)
			}
			out = s
			g.Signed = append(g.Signed, &SignedAct{Role: "sender", Signer: m.K.Addr, Tx: tx})
			total += int(m.W)
			if total >= 100 {
				break
			}
		}
		return out
	}
	s, err := signer.SignTx(tx, from.Key)
	if err != nil {
		panic(err)
	}
	g.Signed = append(g.Signed, &SignedAct{Role: "sender", Signer: from.Addr, Tx: tx})
	return s
}

func (g *TxGen) msg() string {
	g.seq++
	return fmt.Sprintf("m%d", g.seq)
}

// --- EVM programs ---

func initCodeFor(runtime []byte) []byte {
	if len(runtime) > 255 {
		runtime = runtime[:255]
	}
	init := []byte{0x60, byte(len(runtime)), 0x80, 0x60, 0x0b, 0x60, 0x00, 0x39, 0x60, 0x00, 0xf3} // 11 bytes: the runtime code starts at offset 0x0b
	return append(init, runtime...)
}

func (g *TxGen) runtimeCode() []byte {
	if g.C.Draw("envc", 5) == 4 {
		// records the block context the EVM shows it: BLOCKHASH of the last ancestors, TIMESTAMP, COINBASE.
		// Every node must see the same values whatever its own stable block / history is.
		var code []byte
		for k := 1; k <= 2+g.C.Draw("envc", 3); k++ {
			code = append(code, 0x43, 0x60, byte(k), 0x90, 0x03, 0x40, 0x60, byte(0x10+k), 0x55) // sstore(0x10+k, blockhash(number-k))
		}
		code = append(code, 0x42, 0x60, 0x20, 0x55) // sstore(0x20, timestamp)
		code = append(code, 0x41, 0x60, 0x21, 0x55) // sstore(0x21, coinbase)
		return append(code, 0x00)
	}
	switch g.d(11) {
	case 0: // store calldata word 0 at slot k
		return []byte{0x60, 0x00, 0x35, 0x60, byte(g.d(4)), 0x55, 0x00}
	case 1: // revert
		return []byte{0x60, 0x00, 0x60, 0x00, 0xfd}
	case 2: // selfdestruct to caller
		return []byte{0x33, 0xff}
	case 3: // selfdestruct to self (burn)
		return []byte{0x30, 0xff}
	case 4: // forward call value to an address
		a := g.anyAddr()
		code := []byte{0x60, 0x00, 0x60, 0x00, 0x60, 0x00, 0x60, 0x00, 0x34, 0x73}
		code = append(code, a.Bytes()...)
		return append(code, 0x5a, 0xf1, 0x00)
	case 5: // log0
		return []byte{0x60, 0x20, 0x60, 0x00, 0xa0, 0x00}
	case 6: // infinite loop -> out of gas
		return []byte{0x5b, 0x60, 0x00, 0x56}
	case 7: // invalid opcode
		return []byte{0xfe}
	case 8: // store then revert
		return []byte{0x60, 0x01, 0x60, 0x00, 0x55, 0x60, 0x00, 0x60, 0x00, 0xfd}
	case 9: // store caller's value counter: slot0 += callvalue
		return []byte{0x60, 0x00, 0x54, 0x34, 0x01, 0x60, 0x00, 0x55, 0x00}
	}
	b := make([]byte, 1+g.d(24))
	g.C.T.Bytes(g.L, b)
	return b
}

// --- transaction kinds ---

const (
	kTransfer = iota
	kCreateContract
	kCallContract
	kVote
	kRegister
	kCandidateUpdate
	kUnregister
	kCreateAsset
	kIssueAsset
	kReplenishAsset
	kModifyAsset
	kTransferAsset
	kSetMultisig
	kReimbursed
	kBox
	kJunk
	kKinds
)

var kindNames = []string{"transfer", "create_contract", "call_contract", "vote", "register", "candidate_update", "unregister",
	"create_asset", "issue_asset", "replenish_asset", "modify_asset", "transfer_asset", "set_multisig", "reimbursed", "box", "junk"}

// Gen returns one transaction of a tape-chosen kind (mask restricts kinds; nil = all).
func (g *TxGen) Gen(now int64, allowed []int) *types.Transaction {
	var kind int
	if len(allowed) > 0 {
		kind = allowed[g.d(len(allowed))]
	} else {
		kind = g.d(kKinds)
	}
	tx := g.genKind(kind, now)
	if tx != nil {
		g.C.Probe("tx_" + kindNames[kind])
	}
	return tx
}

func (g *TxGen) genKind(kind int, now int64) *types.Transaction {
	P := g.Net.P
	switch kind {
	case kTransfer:
		from := g.user()
		if g.d(8) == 0 {
			from = g.Net.Founder
		}
		tx := types.NewTransaction(from.Addr, g.anyAddr(), g.amount(), 100000+uint64(g.d(3))*400000, g.gasPrice(), nil, params.OrdinaryTx, P.ChainID, g.exp(now), "", g.msg())
		return g.sign(tx, from)
	case kCreateContract:
		from := g.user()
		code := initCodeFor(g.runtimeCode())
		amt := big.NewInt(0)
		if g.d(3) == 0 {
			amt = g.amount()
		}
		tx := types.NewContractCreation(from.Addr, amt, 300000+uint64(g.d(3))*500000, g.gasPrice(), code, params.CreateContractTx, P.ChainID, g.exp(now), "", g.msg())
		stx := g.sign(tx, from)
		g.Contracts = append(g.Contracts, crypto.CreateContractAddress(from.Addr, stx.Hash()))
		return stx
	case kCallContract:
		if len(g.Contracts) == 0 {
			return g.genKind(kCreateContract, now)
		}
		from := g.user()
		data := make([]byte, 32)
		data[31] = byte(g.d(256))
		amt := big.NewInt(0)
		if g.d(2) == 0 {
			amt = g.amount()
		}
		tx := types.NewTransaction(from.Addr, g.Contracts[g.d(len(g.Contracts))], amt, 60000+uint64(g.d(4))*100000, g.gasPrice(), data, params.OrdinaryTx, P.ChainID, g.exp(now), "", g.msg())
		return g.sign(tx, from)
	case kVote:
		from := g.user()
		var to common.Address
		if len(g.Candidates) > 0 && g.d(8) != 0 {
			to = g.Candidates[g.d(len(g.Candidates))]
		} else if g.d(2) == 0 {
			to = g.Net.Deputies[g.d(len(g.Net.Deputies))].Miner.Addr
		} else {
			to = g.user().Addr // usually not a candidate
		}
		tx := types.NewTransaction(from.Addr, to, big.NewInt(0), 100000, g.gasPrice(), nil, params.VoteTx, P.ChainID, g.exp(now), "", g.msg())
		return g.sign(tx, from)
	case kRegister, kCandidateUpdate, kUnregister:
		var from *keyInfo
		if kind == kRegister || len(g.Candidates) == 0 {
			from = g.user()
		} else {
			a := g.Candidates[g.d(len(g.Candidates))]
			from = g.CandKey[a]
		}
		nodeKey := detKey("candnode-" + from.Addr.Hex())
		prof := types.Profile{
			types.CandidateKeyNodeID: common.ToHex(nodeKey.NodeID),
			types.CandidateKeyHost:   "10.0.0.1",
			types.CandidateKeyPort:   fmt.Sprintf("%d", 2000+g.d(1000)),
		}
		if g.d(2) == 0 {
			prof[types.CandidateKeyIncomeAddress] = g.user().Addr.String()
		}
		if g.d(3) == 0 {
			prof[types.CandidateKeyIntroduction] = fmt.Sprintf("intro %d", g.d(100))
		}
		amt := big.NewInt(0)
		switch kind {
		case kRegister:
			amt = lemo(int64(300 + 50*g.d(8))) // deposits around multiples of 100
			if g.d(6) == 0 {
				amt = lemo(int64(100 + g.d(150))) // below the minimum
			}
		case kCandidateUpdate:
			if g.d(2) == 0 {
				amt = lemo(int64(50 * (1 + g.d(5)))) // top-up
			}
		case kUnregister:
			prof[types.CandidateKeyIsCandidate] = types.NotCandidateNode
		}
		data, _ := json.Marshal(prof)
		tx := types.NoReceiverTransaction(from.Addr, amt, 300000, g.gasPrice(), data, params.RegisterTx, P.ChainID, g.exp(now), "", g.msg())
		if _, ok := g.CandKey[from.Addr]; !ok {
			g.CandKey[from.Addr] = from
			g.Candidates = append(g.Candidates, from.Addr)
		}
		return g.sign(tx, from)
	case kCreateAsset:
		from := g.user()
		cat := uint32(1 + g.d(3))
		a := &types.Asset{Category: cat, IsDivisible: cat != types.NonFungibleAsset, Decimal: uint32(g.d(19)), IsReplenishable: g.d(2) == 0,
			Profile: types.Profile{types.AssetName: fmt.Sprintf("asset%d", g.d(100)), types.AssetSymbol: "SYM"}}
		if g.d(10) == 0 {
			a.IsDivisible = !a.IsDivisible // sometimes violating the category rule
		}
		data, _ := json.Marshal(a)
		tx := types.NoReceiverTransaction(from.Addr, big.NewInt(0), 300000, g.gasPrice(), data, params.CreateAssetTx, P.ChainID, g.exp(now), "", g.msg())
		stx := g.sign(tx, from)
		g.Assets = append(g.Assets, &genAsset{Code: stx.Hash(), Issuer: from, Category: cat, Divisible: a.IsDivisible, Repl: a.IsReplenishable, Holders: map[common.Address]bool{}})
		return stx
	case kIssueAsset:
		if len(g.Assets) == 0 {
			return g.genKind(kCreateAsset, now)
		}
		as := g.Assets[g.d(len(g.Assets))]
		from := as.Issuer
		if g.d(8) == 0 {
			from = g.user() // usually not the issuer
		}
		to := g.user().Addr
		ia := &types.IssueAsset{AssetCode: as.Code, MetaData: fmt.Sprintf("meta%d", g.d(10)), Amount: g.assetAmount()}
		data, _ := json.Marshal(ia)
		tx := types.NewTransaction(from.Addr, to, big.NewInt(0), 300000, g.gasPrice(), data, params.IssueAssetTx, P.ChainID, g.exp(now), "", g.msg())
		stx := g.sign(tx, from)
		if as.Category == types.TokenAsset {
			if len(as.Ids) == 0 {
				as.Ids = append(as.Ids, as.Code)
			}
		} else {
			as.Ids = append(as.Ids, stx.Hash())
		}
		as.Holders[to] = true
		return stx
	case kReplenishAsset:
		if len(g.Assets) == 0 {
			return g.genKind(kCreateAsset, now)
		}
		as := g.Assets[g.d(len(g.Assets))]
		if len(as.Ids) == 0 {
			return g.genKind(kIssueAsset, now)
		}
		from := as.Issuer
		if g.d(8) == 0 {
			from = g.user()
		}
		to := g.user().Addr
		ra := &types.ReplenishAsset{AssetCode: as.Code, AssetId: as.Ids[g.d(len(as.Ids))], Amount: g.assetAmount()}
		data, _ := json.Marshal(ra)
		tx := types.NewTransaction(from.Addr, to, big.NewInt(0), 300000, g.gasPrice(), data, params.ReplenishAssetTx, P.ChainID, g.exp(now), "", g.msg())
		as.Holders[to] = true
		return g.sign(tx, from)
	case kModifyAsset:
		if len(g.Assets) == 0 {
			return g.genKind(kCreateAsset, now)
		}
		as := g.Assets[g.d(len(g.Assets))]
		from := as.Issuer
		if g.d(8) == 0 {
			from = g.user()
		}
		prof := types.Profile{types.AssetDescription: fmt.Sprintf("d%d", g.d(10))}
		if g.d(3) == 0 {
			prof[types.AssetFreeze] = []string{"true", "false"}[g.d(2)]
		}
		ma := &types.ModifyAssetInfo{AssetCode: as.Code, UpdateProfile: prof}
		data, _ := json.Marshal(ma)
		tx := types.NoReceiverTransaction(from.Addr, big.NewInt(0), 300000, g.gasPrice(), data, params.ModifyAssetTx, P.ChainID, g.exp(now), "", g.msg())
		return g.sign(tx, from)
	case kTransferAsset:
		if len(g.Assets) == 0 {
			return g.genKind(kCreateAsset, now)
		}
		as := g.Assets[g.d(len(g.Assets))]
		if len(as.Ids) == 0 {
			return g.genKind(kIssueAsset, now)
		}
		from := g.user()
		if g.C.Draw("holder", 4) != 0 {
			// usually somebody who was issued or sent some of this asset (a transfer by a non-holder fails at once);
			// drawn from a stream of its own so that older tapes keep their meaning
			var holders []*keyInfo
			for _, u := range g.Net.Users {
				if as.Holders[u.Addr] {
					holders = append(holders, u)
				}
			}
			if len(holders) > 0 {
				from = holders[g.C.Draw("holder", len(holders))]
			}
		}
		var to common.Address
		switch g.d(6) {
		case 0:
			to = common.Address{} // burn address
		case 1:
			to = from.Addr
		case 2:
			if len(g.Contracts) > 0 {
				to = g.Contracts[g.d(len(g.Contracts))]
			} else {
				to = g.user().Addr
			}
		default:
			to = g.user().Addr
		}
		ta := &types.TransferAsset{AssetId: as.Ids[g.d(len(as.Ids))], Amount: g.assetAmount()}
		data, _ := json.Marshal(ta)
		if g.d(12) == 0 {
			// a negative amount, written the way a hostile client would put it in the JSON
			data = []byte(fmt.Sprintf(`{"assetId":"%s","transferAmount":"-%d"}`, ta.AssetId.Hex(), 1+g.d(1000)))
		}
		tx := types.NewTransaction(from.Addr, to, big.NewInt(0), 300000, g.gasPrice(), data, params.TransferAssetTx, P.ChainID, g.exp(now), "", g.msg())
		as.Holders[to] = true
		return g.sign(tx, from)
	case kSetMultisig:
		from := g.user()
		n := 1 + g.d(4)
		var signers types.Signers
		var ms []msigner
		for i := 0; i < n; i++ {
			k := g.Net.Users[(g.d(len(g.Net.Users)))]
			w := uint8([]int{100, 50, 34, 60, 1, 99}[g.d(6)])
			signers = append(signers, types.SignAccount{Address: k.Addr, Weight: w})
			ms = append(ms, msigner{k, w})
		}
		data, _ := json.Marshal(map[string]interface{}{"signers": signers})
		to := from.Addr
		tx := types.NewTransaction(from.Addr, to, big.NewInt(0), 300000, g.gasPrice(), data, params.ModifySignersTx, P.ChainID, g.exp(now), "", g.msg())
		stx := g.sign(tx, from)
		// only remember configurations that can still sign (distinct signers, total >= 100)
		seen := map[common.Address]bool{}
		total, okcfg := 0, true
		for _, m := range ms {
			if seen[m.K.Addr] {
				okcfg = false
			}
			seen[m.K.Addr] = true
			total += int(m.W)
		}
		if okcfg && total >= 100 {
			g.C.Keep["msig-pending-"+stx.Hash().Hex()] = msigPending{from.Addr, ms}
		}
		return stx
	case kReimbursed:
		from := g.user()
		payer := g.user()
		rs := types.MakeReimbursementTxSigner()
		tx := types.NewReimbursementTransaction(from.Addr, g.anyAddr(), payer.Addr, g.amount(), nil, params.OrdinaryTx, P.ChainID, g.exp(now), "", g.msg())
		s1, err := rs.SignTx(tx, from.Key)
		if err != nil {
			panic(err)
		}
		g.Signed = append(g.Signed, &SignedAct{Role: "sender", Signer: from.Addr, Tx: tx})
		s1 = types.GasPayerSignatureTx(s1, g.gasPrice(), 100000)
		s2, err := types.MakeGasPayerSigner().SignTx(s1, payer.Key)
		if err != nil {
			panic(err)
		}
		g.Signed = append(g.Signed, &SignedAct{Role: "payer", Signer: payer.Addr, Tx: s1})
		return s2
	case kBox:
		n := 1 + g.d(3)
		var subs types.Transactions
		boxExp := g.exp(now)
		for i := 0; i < n; i++ {
			k := []int{kTransfer, kTransfer, kVote, kCallContract, kIssueAsset, kTransferAsset, kRegister, kReimbursed}[g.d(8)]
			st := g.genKind(k, now)
			if st == nil || st.Type() == params.BoxTx {
				continue
			}
			if st.Expiration() < boxExp {
				boxExp = st.Expiration() // box must not outlive its sub-transactions
			}
			subs = append(subs, st)
		}
		if len(subs) == 0 {
			return nil
		}
		data, err := types.MarshalBoxData(subs)
		if err != nil {
			panic(err)
		}
		from := g.user()
		tx := types.NoReceiverTransaction(from.Addr, big.NewInt(0), 2000000, g.gasPrice(), data, params.BoxTx, P.ChainID, boxExp, "", g.msg())
		return g.sign(tx, from)
	case kJunk:
		// transactions the miner must discard: wrong key, unsigned, foreign chain id, zero gas
		from := g.user()
		switch g.d(4) {
		case 0:
			tx := types.NewTransaction(from.Addr, g.anyAddr(), g.amount(), 100000, g.gasPrice(), nil, params.OrdinaryTx, P.ChainID, g.exp(now), "", g.msg())
			other := g.user()
			if other == from {
				other = g.Net.Founder
			}
			s, _ := types.MakeSigner().SignTx(tx, other.Key)
			return s
		case 1:
			return types.NewTransaction(from.Addr, g.anyAddr(), g.amount(), 100000, g.gasPrice(), nil, params.OrdinaryTx, P.ChainID, g.exp(now), "", g.msg())
		case 2:
			tx := types.NewTransaction(from.Addr, g.anyAddr(), big.NewInt(1), 100, g.gasPrice(), nil, params.OrdinaryTx, P.ChainID, g.exp(now), "", g.msg())
			return g.sign(tx, from)
		}
		tx := types.NewTransaction(from.Addr, g.anyAddr(), lemo(1<<40), 100000, g.gasPrice(), nil, params.OrdinaryTx, P.ChainID, g.exp(now), "", g.msg())
		return g.sign(tx, from)
	}
	return nil
}

type msigPending struct {
	Addr common.Address
	MS   []msigner
}

// NoteIncluded tells the generator which transactions made it into a block (so that
// multisig configurations become active for later signing).
func (g *TxGen) NoteIncluded(txs types.Transactions) {
	for _, tx := range txs {
		if p, ok := g.C.Keep["msig-pending-"+tx.Hash().Hex()]; ok {
			mp := p.(msigPending)
			g.Multisig[mp.Addr] = mp.MS
		}
	}
}

func (g *TxGen) assetAmount() *big.Int {
	switch g.d(6) {
	case 0:
		return big.NewInt(0)
	case 1:
		return big.NewInt(1)
	case 2:
		return big.NewInt(int64(1 + g.d(1000)))
	case 3:
		return new(big.Int).Lsh(big.NewInt(1), uint(60+g.d(200))) // huge
	}
	return big.NewInt(int64(10 + g.d(90)))
}

// FundingTxs returns founder -> user transfers giving every user a balance around
// multiples of 200 LEMO.
func (g *TxGen) FundingTxs(now int64) types.Transactions {
	var out types.Transactions
	for i, u := range g.Net.Users {
		amt := lemo(int64(1000 + 200*(i%5)))
		amt.Add(amt, lemo(int64(g.d(400))))
		out = append(out, g.Net.SignedTransfer(g.Net.Founder, u.Addr, amt, uint64(now+900), fmt.Sprintf("fund%d", i)))
	}
	return out
}
