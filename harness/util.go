package harness

import "sort"

func sortStrings(s []string) { sort.Strings(s) }
