package harness

import (
	"bytes"
	"fmt"
	"math/big"
	"runtime/debug"
	"sort"
	"strings"
	"time"

	"github.com/LemoFoundationLtd/lemochain-core/chain/account"
	"github.com/LemoFoundationLtd/lemochain-core/chain/params"
	"github.com/LemoFoundationLtd/lemochain-core/chain/transaction"
	"github.com/LemoFoundationLtd/lemochain-core/chain/types"
	"github.com/LemoFoundationLtd/lemochain-core/chain/vm"
	"github.com/LemoFoundationLtd/lemochain-core/common"
	"github.com/LemoFoundationLtd/lemochain-core/common/crypto"

	"verif/simrt"
)

// C16 — contract sandbox. Component world: the real vm.EVM on a real account.Manager over the
// real store. One run = one generated pre-state (1-4 contracts with generated code, committed as
// block 1, plus optional uncommitted "same block" additions), one generated entry (Call / Create /
// StaticCall), and a family of executions of that entry from equal pre-states:
//
//	main     traced execution (step, depth and gas observation through the vm.Tracer interface)
//	twin     the same entry, untraced, on an equal state (fresh manager, or a second store built
//	         from the same setup) -> determinism of (ret, left-over gas, err, whole state)
//	sweep    the same entry with the gas limit set to every distinct gas value observed at a
//	         top-frame step (all of them for short traces, a tape-drawn sample otherwise)
//	cancel   EVM.Cancel() at tape-chosen step k
//	static   the same entry through StaticCall (read-only entry)
//
// The component is sequential; the "schedule" dimension is the position of the abort (gas limit,
// cancel step, failing depth).

type c16Contract struct {
	Addr    common.Address
	Code    []byte
	Desc    string
	Slots   map[uint64]uint64
	Balance *big.Int
	Dirty   bool // deployed in the manager under test (same block), not in committed block 1
}

type c16Setup struct {
	Caller    common.Address
	Contracts []*c16Contract
	Others    []common.Address
	RewardMgr common.Address
	DirtySlot [][3]uint64 // (contract, key, value) storage written uncommitted before the call
}

type c16Entry struct {
	Kind   string // call, create, static
	Target common.Address
	TName  string
	Input  []byte
	Value  *big.Int
	Gas    uint64
	TxHash common.Hash
}

func (e *c16Entry) String() string {
	in := fmt.Sprintf("%x", e.Input)
	return fmt.Sprintf("%s(%s, input=%s, value=%s, gas=%d)", e.Kind, e.TName, clip(in, 80), e.Value, e.Gas)
}

type c16Tracer struct {
	supplied  uint64
	stepCap   int
	cancelAt  int
	steps     int
	maxDepth  int
	callOps   int
	cancelled bool
	capped    bool
	sawOOG    bool
	gasPoints []uint64 // gas consumed before each top-frame step
	maxGas    uint64   // largest "remaining gas" seen in any frame
	ops       map[vm.OpCode]int
	precomp   map[byte]int
	failDepth map[int]int // depth -> number of failing steps seen there

	// nested all-or-nothing oracle (main execution only): state dumped at a CALL-family/CREATE step
	// and again at the parent's next step when the call reported failure (or always for STATICCALL)
	cw       *c16World
	am       *account.Manager
	pending  map[int]*c16Nested
	nestedN  int
	nestedV  []string // violations found (reported by the scenario)
	nestedOK int
}

type c16Nested struct {
	op   vm.OpCode
	pc   uint64
	pre  *stateDump
	step int
}

const c16MaxNested = 6

func newC16Tracer(supplied uint64, cancelAt int) *c16Tracer {
	return &c16Tracer{supplied: supplied, stepCap: 150000, cancelAt: cancelAt, ops: map[vm.OpCode]int{}, precomp: map[byte]int{}, failDepth: map[int]int{}, pending: map[int]*c16Nested{}}
}

func (t *c16Tracer) CaptureStart(from common.Address, to common.Address, call bool, input []byte, gas uint64, value *big.Int) error {
	return nil
}

func isCallOp(op vm.OpCode) bool {
	return op == vm.CALL || op == vm.CALLCODE || op == vm.DELEGATECALL || op == vm.STATICCALL || op == vm.CREATE
}

func (t *c16Tracer) CaptureState(env *vm.EVM, pc uint64, op vm.OpCode, gas, cost uint64, memory *vm.Memory, stack *vm.Stack, contract *vm.Contract, depth int, err error) error {
	if depth > t.maxDepth {
		t.maxDepth = depth
	}
	if gas > t.maxGas {
		t.maxGas = gas
	}
	if err != nil { // a step that failed validation / gas: reported from the interpreter's deferred hook
		t.failDepth[depth]++
		if err == vm.ErrOutOfGas {
			t.sawOOG = true
		}
		return nil
	}
	t.steps++
	t.ops[op]++
	if t.cw != nil {
		t.nested(op, pc, stack, depth)
	}
	if depth == 1 && t.supplied >= gas {
		t.gasPoints = append(t.gasPoints, t.supplied-gas)
	}
	if isCallOp(op) {
		t.callOps++
		if op != vm.CREATE {
			a := common.BigToAddress(stack.Back(1))
			if vm.PrecompiledContracts[a] != nil {
				t.precomp[a[19]]++
			}
		}
	}
	if t.cancelAt > 0 && t.steps == t.cancelAt {
		env.Cancel()
		t.cancelled = true
	}
	if t.steps >= t.stepCap && !t.capped {
		env.Cancel() // harness step cap: stop the run, judged afterwards against the gas bound
		t.capped = true
	}
	return nil
}

// nested implements the statement's all-or-nothing / read-only clauses for calls made BY contracts.
func (t *c16Tracer) nested(op vm.OpCode, pc uint64, stack *vm.Stack, depth int) {
	for d := range t.pending { // frames deeper than the current one have ended
		if d > depth {
			delete(t.pending, d)
		}
	}
	if rec := t.pending[depth]; rec != nil {
		delete(t.pending, depth)
		// this is the parent's first step after the call: the result flag / created address is on top of the stack
		flag := stack.Back(0)
		failed := flag.Sign() == 0
		if failed || rec.op == vm.STATICCALL {
			addrs := mergeAddrs(rec.pre.addrs(), t.am.VerifCachedAddresses())
			post := dumpState(t.am, addrs, func(a common.Address) keySets { return rec.pre.keysFor(a).merge(t.cw.keysFor(a)) })
			name := strings.ToLower(rec.op.String())
			class := "nested-failed-" + name
			if rec.op == vm.STATICCALL {
				class = "nested-staticcall"
			}
			gating, _ := splitGating(diffAccounts(rec.pre, post))
			if len(gating) > 0 {
				t.nestedV = append(t.nestedV, "C16/"+class+"/"+sigAttr(gating)+"/"+t.cw.acctKind(gating)+"\x00"+
					fmt.Sprintf("%s at pc %d (depth %d, step %d) reported %s, but the state differs from the state at the call:%s", name, rec.pc, depth-1, rec.step, map[bool]string{true: "failure", false: "success"}[failed], diffStrings(gating, 8)))
			}
			allowed := 0
			if failed && (rec.op == vm.CALL || rec.op == vm.CREATE) {
				allowed = 1 // the platform's failure event
			}
			if post.LogLen < rec.pre.LogLen || post.LogLen > rec.pre.LogLen+allowed {
				t.nestedV = append(t.nestedV, "C16/"+class+"/journal\x00"+
					fmt.Sprintf("%s at pc %d (depth %d, step %d) reported %s; journal had %d entries at the call and %d after it (at most %d new allowed)", name, rec.pc, depth-1, rec.step, map[bool]string{true: "failure", false: "success"}[failed], rec.pre.LogLen, post.LogLen, allowed))
			}
			t.nestedOK++
		}
	}
	if isCallOp(op) && t.nestedN < c16MaxNested {
		t.nestedN++
		addrs := mergeAddrs(t.cw.universe(), t.am.VerifCachedAddresses())
		t.pending[depth] = &c16Nested{op: op, pc: pc, step: t.steps, pre: dumpState(t.am, addrs, t.cw.keysFor)}
	}
}

func (t *c16Tracer) CaptureFault(env *vm.EVM, pc uint64, op vm.OpCode, gas, cost uint64, memory *vm.Memory, stack *vm.Stack, contract *vm.Contract, depth int, err error) error {
	t.failDepth[depth]++
	if err == vm.ErrOutOfGas {
		t.sawOOG = true
	}
	return nil
}

func (t *c16Tracer) CaptureEnd(output []byte, gasUsed uint64, d time.Duration, err error) error { return nil }

type c16Result struct {
	Ret       []byte
	Left      uint64
	Err       string
	Panic     string
	PanicSite string
	Created   common.Address
	T         *c16Tracer
	Pre       *stateDump // dump of the manager before the execution (universe keys)
	Post      *stateDump
	AM        *account.Manager
}

func (r *c16Result) outcome() string {
	if r.Panic != "" {
		return "PANIC " + r.Panic
	}
	return fmt.Sprintf("ret=%x left=%d err=%q", clipB(r.Ret, 40), r.Left, r.Err)
}

func clipB(b []byte, n int) []byte {
	if len(b) > n {
		return b[:n]
	}
	return b
}

type c16World struct {
	c  *Ctx
	su *c16Setup
	w  *acctWorld
}

var c16Slots = []uint64{0, 1, 2, 3, 8, 9, 10}

func (cw *c16World) universe() []common.Address {
	out := []common.Address{cw.su.Caller, params.TermRewardContract}
	for _, k := range cw.su.Contracts {
		out = append(out, k.Addr)
	}
	out = append(out, cw.su.Others...)
	return mergeAddrs(out)
}

func (cw *c16World) keysFor(common.Address) keySets {
	var ks keySets
	for _, s := range c16Slots {
		ks.Storage = append(ks.Storage, common.BigToHash(new(big.Int).SetUint64(s)))
	}
	ks.Storage = append(ks.Storage, params.TermRewardContract.Hash())
	return ks
}

// acctKind names the kind of account of the first difference (part of the signature, so that e.g. a
// precompile writing under a read-only call and a contract writing under a read-only call stay apart).
func (cw *c16World) acctKind(ds []attrDiff) string {
	for _, d := range ds {
		if d.Attr == "json" && len(ds) > 1 {
			continue
		}
		a := d.Addr
		if vm.PrecompiledContracts[a] != nil {
			return fmt.Sprintf("precompile%d", a[19])
		}
		for _, k := range cw.su.Contracts {
			if k.Addr == a {
				return "contract"
			}
		}
		if a == cw.su.Caller {
			return "caller"
		}
		for _, o := range cw.su.Others {
			if o == a {
				return "bystander"
			}
		}
		return "new-account"
	}
	return "none"
}

// build creates the store, writes the committed part of the setup as block 1.
func c16Build(c *Ctx, net *Net, tag int, home string, su *c16Setup) *c16World {
	cw := &c16World{c: c, su: su, w: newAcctWorld(c, net, tag, home)}
	am := account.NewManager(cw.w.base.Hash(), cw.w.db)
	c.W.Do(tag, "c16.setup", func() {
		am.GetAccount(su.Caller).SetBalance(common.Lemo2Mo("1000000"))
		for _, k := range su.Contracts {
			if !k.Dirty {
				cw.deploy(am, k)
			}
		}
	})
	if err := cw.w.commit(am); err != nil {
		panic(fmt.Sprintf("c16 setup does not commit: %v", err))
	}
	return cw
}

func (cw *c16World) deploy(am *account.Manager, k *c16Contract) {
	acc := am.GetAccount(k.Addr)
	acc.SetCode(types.Code(k.Code))
	if k.Balance.Sign() > 0 {
		acc.SetBalance(k.Balance)
	}
	keys := make([]uint64, 0, len(k.Slots))
	for s := range k.Slots {
		keys = append(keys, s)
	}
	sort.Slice(keys, func(i, j int) bool { return keys[i] < keys[j] })
	for _, s := range keys {
		acc.SetStorageState(common.BigToHash(new(big.Int).SetUint64(s)), new(big.Int).SetUint64(k.Slots[s]).Bytes())
	}
}

// fresh returns a manager in the run's pre-state: committed block 1 plus the uncommitted additions.
func (cw *c16World) fresh() *account.Manager {
	am := account.NewManager(cw.w.base.Hash(), cw.w.db)
	for _, k := range cw.su.Contracts {
		if k.Dirty {
			cw.deploy(am, k)
		}
	}
	for _, d := range cw.su.DirtySlot {
		k := cw.su.Contracts[int(d[0])%len(cw.su.Contracts)]
		am.GetAccount(k.Addr).SetStorageState(common.BigToHash(new(big.Int).SetUint64(d[1])), new(big.Int).SetUint64(d[2]).Bytes())
	}
	return am
}

// exec runs the entry on am. Must be called inside a task.
func (cw *c16World) exec(am *account.Manager, e *c16Entry, kind string, gas uint64, tr *c16Tracer) (res *c16Result) {
	res = &c16Result{T: tr, AM: am}
	res.Pre = dumpState(am, cw.universe(), cw.keysFor)
	ctx := vm.Context{
		CanTransfer: transaction.CanTransfer, Transfer: transaction.Transfer,
		GetHash: func(n uint32) common.Hash { return crypto.Keccak256Hash([]byte(fmt.Sprintf("blockhash-%d", n))) },
		TxIndex: 0, TxHash: e.TxHash, BlockHash: common.Hash{}, Origin: cw.su.Caller, GasPrice: big.NewInt(1000000000),
		MinerAddress: cw.w.net.Founder.Addr, GasLimit: params.GenesisGasLimit, BlockHeight: cw.w.base.Height() + 1, Time: cw.w.base.Header.Time + 3,
	}
	cfg := vm.Config{RewardManager: cw.su.RewardMgr}
	if tr != nil {
		cfg.Debug, cfg.Tracer = true, tr
	}
	evm := vm.NewEVM(ctx, am, cfg)
	func() {
		defer func() {
			if p := recover(); p != nil {
				res.Panic = firstLine(fmt.Sprint(p))
				res.PanicSite = panicSite(string(debug.Stack()))
			}
		}()
		var err error
		caller := vm.AccountRef(cw.su.Caller)
		switch kind {
		case "create":
			res.Ret, res.Created, res.Left, err = evm.Create(caller, e.Input, gas, e.Value)
		case "static":
			res.Ret, res.Left, err = evm.StaticCall(caller, e.Target, e.Input, gas)
		default:
			res.Ret, res.Left, err = evm.Call(caller, e.Target, e.Input, gas, e.Value)
		}
		if err != nil {
			res.Err = err.Error()
		}
	}()
	if res.Panic == "" {
		addrs := mergeAddrs(cw.universe(), am.VerifCachedAddresses())
		res.Post = dumpState(am, addrs, cw.keysFor)
	}
	return res
}

func firstLine(s string) string {
	if i := strings.IndexByte(s, '\n'); i >= 0 {
		return s[:i]
	}
	return s
}

// reference reads the pre-state (a manager that executes nothing) over the addresses/keys of a post-dump.
func (cw *c16World) reference(post *stateDump) *stateDump {
	return dumpState(cw.fresh(), post.addrs(), func(a common.Address) keySets { return post.keysFor(a).merge(cw.keysFor(a)) })
}

// judge applies the per-execution oracles of the statement. what = "main", "sweep(g)", ...
func (cw *c16World) judge(what string, e *c16Entry, kind string, gas uint64, r *c16Result, describe func() string) {
	c := cw.c
	if r.Panic != "" {
		c.Fail("C16/panic/"+r.PanicSite, "%s: executing %s panicked: %s\n%s", what, e, r.Panic, describe())
		return
	}
	// never uses more gas than supplied
	if r.Left > gas {
		c.Fail("C16/gas/leftover-exceeds-supply", "%s: %d gas supplied, %d left over\n%s", what, gas, r.Left, describe())
	}
	if t := r.T; t != nil {
		if t.maxGas > gas {
			c.Fail("C16/gas/frame-exceeds-supply", "%s: a frame ran with %d gas although only %d was supplied\n%s", what, t.maxGas, gas, describe())
		}
		// terminates: every step that does not end its frame must consume gas, so steps <= gas + frames
		frames := uint64(1 + t.callOps)
		if uint64(t.steps) > gas+frames {
			c.Fail("C16/nontermination", "%s: %d interpreter steps with only %d gas supplied (%d frames)%s\n%s", what, t.steps, gas, frames, map[bool]string{true: " — stopped by the harness step cap", false: ""}[t.capped], describe())
		} else if t.capped {
			c.Probe("step_cap_hit_within_gas_bound")
		}
		// depth: the entry frame is depth 0; the statement allows at most 1024
		if t.maxDepth-1 > 1024 {
			c.Fail("C16/depth", "%s: a frame ran at call depth %d (>1024)\n%s", what, t.maxDepth-1, describe())
		}
		if t.maxDepth-1 == 1024 {
			c.Probe("depth_limit_reached")
		}
		if t.maxDepth >= 4 {
			c.Probe("nested_depth>=3")
		}
	}
	if r.Post == nil {
		return
	}
	cancelled := r.T != nil && (r.T.cancelled || r.T.capped)
	failed := r.Err != ""
	if kind != "static" && !failed || cancelled {
		return
	}
	// error/revert => state exactly as before, apart from the platform's failure event; static => nothing at all
	class := "failed-" + kind
	if kind == "static" {
		class = "static"
	}
	ref := cw.reference(r.Post)
	gating, other := splitGating(diffAccounts(ref, r.Post))
	if len(other) > 0 {
		c.Probe("events_list_keeps_reverted_events")
	}
	if len(gating) > 0 {
		c.Fail("C16/"+class+"/"+sigAttr(gating)+"/"+cw.acctKind(gating), "%s: %s ended with err=%q but the state differs from the state before it:%s\n%s", what, e, r.Err, diffStrings(gating, 10), describe())
	}
	// own pre-dump as second witness (same manager, universe keys only)
	if g, _ := splitGating(diffAccounts(r.Pre, r.Post)); len(g) > 0 && len(gating) == 0 {
		c.Fail("C16/"+class+"/"+sigAttr(g)+"/"+cw.acctKind(g), "%s: %s ended with err=%q but the state differs from the dump taken before it:%s\n%s", what, e, r.Err, diffStrings(g, 10), describe())
	}
	// journal: prefix untouched; a failed Call/Create may add exactly one failure event for the callee
	pre := r.Pre
	if r.Post.LogLen < pre.LogLen {
		c.Fail("C16/"+class+"/journal-shrunk", "%s: journal had %d entries before, %d after\n%s", what, pre.LogLen, r.Post.LogLen, describe())
		return
	}
	for i := 0; i < pre.LogLen; i++ {
		if pre.Logs[i] != r.Post.Logs[i] {
			c.Fail("C16/"+class+"/journal-prefix", "%s: journal entry %d was altered\n%s", what, i, describe())
			return
		}
	}
	extra := r.Post.LogLen - pre.LogLen
	allowed := 0
	if kind != "static" && failed {
		allowed = 1
	}
	if extra > allowed {
		c.Fail("C16/"+class+"/journal-grew", "%s: %s ended with err=%q and left %d new journal entries (at most %d allowed: the platform's failure event)\n%s", what, e, r.Err, extra, allowed, describe())
	}
}

// failureEventOK checks the one journal entry a failed Call/Create may leave.
func failureEventOK(l *types.ChangeLog, callee common.Address) bool {
	if l.LogType != account.AddEventLog {
		return false
	}
	ev, ok := l.NewVal.(*types.Event)
	if !ok || ev == nil {
		return false
	}
	return len(ev.Topics) == 1 && ev.Topics[0] == types.TopicRunFail && len(ev.Data) == 0 && ev.Address == callee && l.Address == callee
}

func c16GenSetup(c *Ctx, net *Net) *c16Setup {
	su := &c16Setup{Caller: common.HexToAddress("0xc16a000000000000000000000000000000000001")}
	su.Others = []common.Address{common.HexToAddress("0xc16b000000000000000000000000000000000001"), net.Founder.Addr}
	n := 1 + c.Draw("gen", 4)
	env := &evmEnv{Others: su.Others}
	for i := 1; i <= 9; i++ {
		env.Precomp = append(env.Precomp, common.BytesToAddress([]byte{byte(i)}))
	}
	for i := 0; i < n; i++ {
		env.Contracts = append(env.Contracts, common.HexToAddress(fmt.Sprintf("0xc16c00000000000000000000000000000000000%d", i+1)))
	}
	for i := 0; i < n; i++ {
		env.Self = i
		k := &c16Contract{Addr: env.Contracts[i], Slots: map[uint64]uint64{}, Balance: new(big.Int)}
		k.Code, k.Desc = genCode(c, "code", env)
		if len(k.Code) == 0 {
			k.Code = []byte{byte(vm.STOP)}
		}
		for s := c.Draw("gen", 3); s > 0; s-- {
			k.Slots[uint64(c.Draw("gen", 4))] = uint64(1 + c.Draw("gen", 5))
		}
		if c.Draw("gen", 3) == 1 {
			k.Balance = big.NewInt(int64(1 + c.Draw("gen", 5000)))
		}
		// the last contract is sometimes deployed in the same block as the call (uncommitted code and storage)
		if i == n-1 && n > 1 && c.Draw("gen", 4) == 1 {
			k.Dirty = true
		}
		su.Contracts = append(su.Contracts, k)
	}
	for d := c.Draw("gen", 3); d > 0; d-- {
		su.DirtySlot = append(su.DirtySlot, [3]uint64{uint64(c.Draw("gen", n)), uint64(c.Draw("gen", 4)), uint64(c.Draw("gen", 4))})
	}
	su.RewardMgr = net.Founder.Addr
	if c.Draw("gen", 4) == 1 {
		su.RewardMgr = su.Caller
	} else if c.Draw("gen", 6) == 1 {
		su.RewardMgr = su.Contracts[0].Addr
	}
	return su
}

func c16GenEntry(c *Ctx, su *c16Setup) *c16Entry {
	e := &c16Entry{Value: new(big.Int), TxHash: crypto.Keccak256Hash([]byte{byte(c.Draw("gen", 3))})}
	env := &evmEnv{Others: su.Others, Self: -1}
	for _, k := range su.Contracts {
		env.Contracts = append(env.Contracts, k.Addr)
	}
	for i := 1; i <= 9; i++ {
		env.Precomp = append(env.Precomp, common.BytesToAddress([]byte{byte(i)}))
	}
	switch k := c.Draw("gen", 10); {
	case k < 6:
		e.Kind = "call"
	case k < 8:
		e.Kind = "static"
	default:
		e.Kind = "create"
	}
	if e.Kind == "create" {
		e.Input, e.TName = genCode(c, "code", env)
		e.TName = "init{" + clip(e.TName, 120) + "}"
	} else {
		if c.Draw("gen", 4) < 3 {
			i := c.Draw("gen", len(su.Contracts))
			e.Target, e.TName = su.Contracts[i].Addr, fmt.Sprintf("C%d", i)
		} else {
			e.Target, e.TName = env.drawTarget(c, "gen")
		}
		e.Input = genInput(c, "gen", e.Target)
	}
	if e.Kind != "static" {
		e.Value = []*big.Int{new(big.Int), new(big.Int), big.NewInt(1), big.NewInt(12345), common.Lemo2Mo("2000000")}[c.Draw("gen", 5)]
	}
	e.Gas = []uint64{200000, 1000000, 10000000, 50000, 200000, 1000000, 21000, 3000, 100, 0}[c.Draw("gen", 10)]
	return e
}

func (su *c16Setup) describe() string {
	var b strings.Builder
	for i, k := range su.Contracts {
		fmt.Fprintf(&b, "\n  C%d %x dirty=%v balance=%s slots=%v code=%x  // %s", i, k.Addr[:4], k.Dirty, k.Balance, k.Slots, k.Code, clip(k.Desc, 300))
	}
	if len(su.DirtySlot) > 0 {
		fmt.Fprintf(&b, "\n  uncommitted storage writes before the call (contract,key,value): %v", su.DirtySlot)
	}
	fmt.Fprintf(&b, "\n  rewardManager=%x caller=%x", su.RewardMgr[:4], su.Caller[:4])
	return b.String()
}

func c16Scenario(c *Ctx) {
	net := NewNet(c, defaultParams(c))
	su := c16GenSetup(c, net)
	e := c16GenEntry(c, su)
	deep := false
	for _, k := range su.Contracts {
		if strings.HasPrefix(k.Desc, "recurse-") && k.Addr == e.Target {
			deep = true // the entry goes straight into a recursion template (which only calls itself)
		}
	}
	if deep && c.Draw("gen", 2) == 1 && e.Kind != "create" {
		// enough gas for the 63/64 rule to reach the depth limit (only for recursion templates: they do not expand memory)
		e.Gas = 100000000000000
	}
	X := c16Build(c, net, 1, "/sim/c16x/chaindata", su)
	defer X.w.close()
	describe := func() string { return "entry: " + e.String() + "\nsetup:" + su.describe() }
	simrt.Log("c16.entry", int64(e.Gas), 0, e.Kind+" "+e.TName)

	// ---- main traced execution ----
	var main *c16Result
	c.W.Do(1, "c16.main", func() {
		tr := newC16Tracer(e.Gas, 0)
		tr.cw, tr.am = X, X.fresh()
		main = X.exec(tr.am, e, e.Kind, e.Gas, tr)
		X.judge("main", e, e.Kind, e.Gas, main, describe)
		for _, v := range tr.nestedV {
			parts := strings.SplitN(v, "\x00", 2)
			c.Fail(parts[0], "main: %s\n%s", parts[1], describe())
		}
		if tr.nestedOK > 0 {
			c.Fault("nested_call_failed_or_static")
		}
	})
	if main == nil {
		c.Fail("C16/stuck", "the execution did not return\n%s", describe())
		return
	}
	simrt.Log("c16.main", int64(main.Left), int64(main.T.steps), main.outcome())
	if main.Post != nil {
		c.State(hashDump(main.Post))
	}
	t := main.T
	for op, n := range t.ops {
		switch op {
		case vm.SELFDESTRUCT:
			c.Probe("selfdestruct_executed")
		case vm.CREATE:
			c.Probe("create_executed")
		case vm.SSTORE:
			c.Probe("sstore_executed")
		case vm.DELEGATECALL, vm.CALLCODE, vm.STATICCALL, vm.CALL:
			c.Probe(strings.ToLower(op.String()) + "_executed")
		case vm.LOG0, vm.LOG1, vm.LOG2, vm.LOG3, vm.LOG4:
			c.Probe("log_executed")
		}
		_ = n
	}
	pcs := make([]int, 0, len(t.precomp))
	for p := range t.precomp {
		pcs = append(pcs, int(p))
	}
	sort.Ints(pcs)
	for _, p := range pcs {
		c.Probe(fmt.Sprintf("precompile_%d_called", p))
	}
	if e.Kind != "create" && vm.PrecompiledContracts[e.Target] != nil {
		c.Probe(fmt.Sprintf("precompile_%d_called", e.Target[19]))
	}
	nestedFail := 0
	for d := range t.failDepth {
		if d > nestedFail {
			nestedFail = d
		}
	}
	if nestedFail >= 2 {
		c.Fault("nested_failure")
	}
	if nestedFail >= 4 {
		c.Probe("nested_failure_depth>=3")
	}
	if main.Err != "" {
		c.Fault("entry_failed")
		if strings.Contains(main.Err, "reverted") {
			c.Fault("entry_reverted")
		}
	}
	if t.sawOOG {
		c.Fault("out_of_gas")
	}
	if main.Panic != "" || c.Failed() || t.capped {
		// (a capped run would not end in reasonable time without the tracer's step cap: no untraced twin)
		c.Nontrivial = t.capped
		c.Sample = map[string]interface{}{"entry": e.String(), "outcome": main.outcome(), "steps": t.steps, "capped": t.capped}
		return
	}

	// ---- twin: determinism from an equal state (untraced; second store in a quarter of the runs) ----
	var twin *c16Result
	twinWorld, twinTag := X, 1
	if c.Draw("gen", 4) == 1 {
		twinWorld, twinTag = c16Build(c, net, 2, "/sim/c16y/chaindata", su), 2
		defer twinWorld.w.close()
		c.Probe("twin_on_second_store")
	}
	c.W.Do(twinTag, "c16.twin", func() {
		twin = twinWorld.exec(twinWorld.fresh(), e, e.Kind, e.Gas, nil)
		twinWorld.judge("twin", e, e.Kind, e.Gas, twin, describe)
	})
	if twin == nil {
		c.Fail("C16/stuck", "the untraced execution did not return\n%s", describe())
		return
	}
	if twin.Panic == "" && main.Post != nil && twin.Post != nil && !t.capped {
		if !bytes.Equal(main.Ret, twin.Ret) || main.Left != twin.Left || main.Err != twin.Err || main.Created != twin.Created {
			c.Fail("C16/determinism/result", "two executions from equal states differ: traced %s, untraced %s\n%s", main.outcome(), twin.outcome(), describe())
		} else {
			g1, _ := splitGating(diffAccounts(main.Post, twin.Post))
			g2, _ := splitGating(diffAccounts(twin.Post, main.Post))
			if g := append(g1, g2...); len(g) > 0 {
				c.Fail("C16/determinism/"+sigAttr(g), "two executions from equal states end in different states:%s\n%s", diffStrings(g, 10), describe())
			} else if strings.Join(main.Post.Logs, "|") != strings.Join(twin.Post.Logs, "|") {
				c.Fail("C16/determinism/journal", "two executions from equal states leave different journals (%d vs %d entries)\n%s", main.Post.LogLen, twin.Post.LogLen, describe())
			}
		}
	}

	// ---- the platform's failure event, narrowly: exactly one AddEvent(TopicRunFail) for the callee ----
	if main.Err != "" && e.Kind != "static" && main.Post != nil && main.Post.LogLen == main.Pre.LogLen+1 {
		logs := main.AM.GetChangeLogs()
		callee := e.Target
		if e.Kind == "create" {
			callee = crypto.CreateContractAddress(su.Caller, e.TxHash)
		}
		if !failureEventOK(logs[len(logs)-1], callee) {
			c.Fail("C16/failed-"+e.Kind+"/journal-entry-is-not-the-failure-event", "the journal entry left by the failed %s is %s, expected the run-fail event of %x\n%s", e.Kind, logs[len(logs)-1].String(), callee[:], describe())
		} else {
			c.Probe("failure_event_recorded")
		}
	}

	// ---- gas sweep ----
	points := map[uint64]bool{}
	for _, g := range t.gasPoints {
		points[g] = true
		if g > 0 {
			points[g-1] = true
		}
	}
	used := e.Gas - main.Left
	if main.Left <= e.Gas {
		points[used] = true
		if used > 0 {
			points[used-1] = true
		}
	}
	delete(points, e.Gas)
	var sweep []uint64
	for g := range points {
		if g < e.Gas {
			sweep = append(sweep, g)
		}
	}
	sort.Slice(sweep, func(i, j int) bool { return sweep[i] < sweep[j] })
	const maxSweep = 16
	if len(sweep) > maxSweep {
		c.Probe("sweep_sampled")
		picked := map[int]bool{}
		off := c.Draw("fault", len(sweep))
		for i := 0; i < maxSweep; i++ { // evenly spaced from a drawn offset (bounded: replayed tapes may be exhausted)
			picked[(off+i*len(sweep)/maxSweep)%len(sweep)] = true
		}
		var s2 []uint64
		for i, g := range sweep {
			if picked[i] {
				s2 = append(s2, g)
			}
		}
		sweep = s2
	} else if len(sweep) > 0 {
		c.Probe("sweep_exhaustive")
	}
	oogPositions := 0
	c.W.Do(1, "c16.sweep", func() {
		for _, g := range sweep {
			if c.Failed() {
				return
			}
			r := X.exec(X.fresh(), e, e.Kind, g, newC16Tracer(g, 0))
			X.judge(fmt.Sprintf("gas sweep (limit %d of %d)", g, e.Gas), e, e.Kind, g, r, describe)
			if r.T.sawOOG {
				c.Fault("out_of_gas")
				oogPositions++
			}
			simrt.Log("c16.sweep", int64(g), int64(r.Left), r.Err)
		}
	})

	// ---- cancel at step k ----
	if t.steps >= 2 && c.Draw("fault", 2) == 1 && !c.Failed() {
		k := 1 + c.Draw("fault", t.steps)
		c.W.Do(1, "c16.cancel", func() {
			tr := newC16Tracer(e.Gas, k)
			r := X.exec(X.fresh(), e, e.Kind, e.Gas, tr)
			X.judge(fmt.Sprintf("cancel at step %d", k), e, e.Kind, e.Gas, r, describe)
			if tr.cancelled {
				c.Fault("cancel")
				// after Cancel every active frame may finish the step it is in, nothing more
				if tr.steps > k+tr.maxDepth+1 {
					c.Fail("C16/cancel/keeps-running", "EVM.Cancel() at step %d, but %d steps were executed (max depth %d)\n%s", k, tr.steps, tr.maxDepth, describe())
				}
			}
			simrt.Log("c16.cancel", int64(k), int64(r.Left), r.Err)
		})
	}

	// ---- read-only entry of the same call ----
	if e.Kind == "call" && c.Draw("fault", 2) == 1 && !c.Failed() {
		c.W.Do(1, "c16.static", func() {
			r := X.exec(X.fresh(), e, "static", e.Gas, newC16Tracer(e.Gas, 0))
			X.judge("static entry", e, "static", e.Gas, r, describe)
			c.Fault("static_entry")
			if strings.Contains(r.Err, "write protection") {
				c.Probe("write_protection_triggered")
			}
			simrt.Log("c16.static", int64(r.Left), 0, r.Err)
		})
	}
	if e.Kind == "static" {
		c.Fault("static_entry")
	}

	c.Nontrivial = t.steps >= 3 || len(t.precomp) > 0 || (e.Kind != "create" && vm.PrecompiledContracts[e.Target] != nil)
	c.Sample = map[string]interface{}{"entry": e.String(), "outcome": main.outcome(), "steps": t.steps, "max_depth": t.maxDepth - 1, "sweep_points": len(sweep),
		"out_of_gas_positions": oogPositions, "contracts": func() []string {
			var s []string
			for _, k := range su.Contracts {
				s = append(s, clip(k.Desc, 100))
			}
			return s
		}()}
}

func init() {
	Register(&PropDef{
		ID:       "C16",
		Variants: []string{"evm"},
		Scenario: c16Scenario,
		Rule: "one run = tape-generated pre-state (1-4 contracts: random bytes, random opcodes, grammar statements, CALL/CALLCODE/DELEGATECALL/STATICCALL/CREATE/SELFDESTRUCT/LOG/SSTORE/REVERT/" +
			"spin templates, self-recursion; committed as block 1 plus optional same-block code/storage) and one entry (Call 60%, StaticCall 20%, Create 20%; targets: contracts, every precompile with " +
			"generated input, EOAs) executed (a) traced, (b) untraced from an equal state (second store in 1/4 of runs), (c) with the gas limit at every distinct top-frame gas value (<=16 sampled otherwise), " +
			"(d) with EVM.Cancel() at a drawn step, (e) through the read-only entry. Non-trivial: the main execution ran >=3 interpreter steps or hit a precompile. distinct = distinct event-log digests " +
			"(entry, results of all executions)",
		Real: []string{"chain/vm (EVM, interpreter, gas table, jump table, precompiles)", "chain/account.Manager + journal", "chain/transaction CanTransfer/Transfer", "store on the simulated disk"},
		Stub: []string{"transaction processor (the harness calls EVM.Call/Create/StaticCall directly with a fixed block context)"},
		Assumptions: []string{
			"call depth is counted from 0 for the entry frame (tracer depth - 1)",
			"termination bound: steps <= gas supplied + number of frames (every instruction that does not end its frame must cost >= 1 gas); harness cap 150000 steps, a capped run within the bound is only counted",
			"after EVM.Cancel() only no-panic, gas and promptness are judged (the statement does not speak about cancellation)",
			"the pre-state of an execution is what a manager that executes nothing reads (committed block 1 + the same uncommitted additions); the manager's own pre-dump is a second witness",
			"the unpublished per-account event list (GetEvents) does not gate; the journal does",
		},
	})
}
