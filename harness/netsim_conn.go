package harness

// simconn: a simulated TCP connection (net.Conn) made of two byte queues. Deadlines run
// on the bubble's fake clock. The node end can split reads at tape-chosen offsets; either
// end can close (FIN: the other side reads EOF after draining) or reset (RST: pending data
// is dropped, reads and writes fail); a remote that stops reading makes the writer block
// once the send window is full (until its write deadline).
//
// wireClient is the remote party's codec: it performs the real client handshake through
// the repo's own p2p.NewPeer(conn).DoHandshake(key, nodeID) and then builds / parses frames
// itself (magic, length, AES-CBC with the negotiated key obtained through the verif hook).

import (
	"encoding/binary"
	"errors"
	"fmt"
	"io"
	"net"
	"os"
	"sync"
	"time"

	"github.com/LemoFoundationLtd/lemochain-core/common/crypto"
	"github.com/LemoFoundationLtd/lemochain-core/network/p2p"

	"verif/simrt"
)

var (
	errConnReset  = errors.New("simconn: connection reset by peer")
	errBrokenPipe = errors.New("simconn: broken pipe")
)

type simAddr string

func (a simAddr) Network() string { return "tcp" }
func (a simAddr) String() string  { return string(a) }

// byteQ is one direction of a connection.
type byteQ struct {
	mu       sync.Mutex
	buf      []byte
	wclosed  bool // writer sent FIN
	reset    bool // RST: reader fails immediately
	rgone    bool // reader closed its end: writes fail
	discard  bool // the reader consumes and ignores everything at once
	capacity int  // send window in bytes; 0 = unlimited
	written  int64
	notify   chan struct{} // data / close for the reader
	space    chan struct{} // room / close for the writer
}

func newByteQ() *byteQ {
	return &byteQ{notify: make(chan struct{}, 1), space: make(chan struct{}, 1)}
}

func poke(ch chan struct{}) {
	select {
	case ch <- struct{}{}:
	default:
	}
}

type simConn struct {
	Name    string
	c       *Ctx
	in, out *byteQ
	local   simAddr
	remote  simAddr

	mu      sync.Mutex
	rdl     time.Time
	wdl     time.Time
	closed  bool
	closeCh chan struct{}

	// read splitting (node end): 0 none, 1 byte by byte, 2 tape-chosen; applied to the
	// first splitBudget bytes of the connection
	Split       int
	splitBudget int64
	nread       int64
	Reads       int
	ShortReads  int
}

// newSimConnPair returns (remote end, node end).
func newSimConnPair(c *Ctx, name string, split int) (*simConn, *simConn) {
	a, b := newByteQ(), newByteQ()
	cli := &simConn{Name: name + ".remote", c: c, in: b, out: a, local: "10.0.0.9:40000", remote: "10.0.0.1:7001", closeCh: make(chan struct{})}
	srv := &simConn{Name: name + ".node", c: c, in: a, out: b, local: "10.0.0.1:7001", remote: "10.0.0.9:40000", closeCh: make(chan struct{}), Split: split, splitBudget: 4096}
	return cli, srv
}

type timeoutErr struct{}

func (timeoutErr) Error() string   { return "simconn: i/o timeout" }
func (timeoutErr) Timeout() bool   { return true }
func (timeoutErr) Temporary() bool { return true }
func (timeoutErr) Unwrap() error   { return os.ErrDeadlineExceeded }

func (s *simConn) Read(p []byte) (int, error) {
	if len(p) == 0 {
		return 0, nil
	}
	for {
		simrt.Yield(0) // a reader woken natively parks here; afterwards it holds the token
		s.mu.Lock()
		closed, dl := s.closed, s.rdl
		s.mu.Unlock()
		if closed {
			return 0, net.ErrClosed
		}
		q := s.in
		q.mu.Lock()
		if q.reset {
			q.mu.Unlock()
			return 0, errConnReset
		}
		if len(q.buf) > 0 {
			n := len(p)
			if n > len(q.buf) {
				n = len(q.buf)
			}
			if s.Split != 0 && s.nread < s.splitBudget && n > 1 {
				k := n
				if s.Split == 1 {
					k = 1
				} else {
					k = 1 + s.c.T.Draw("split", n)
				}
				if k < n {
					n = k
					s.ShortReads++
				}
			}
			copy(p, q.buf[:n])
			q.buf = q.buf[n:]
			if len(q.buf) == 0 {
				q.buf = nil
			}
			s.nread += int64(n)
			s.Reads++
			q.mu.Unlock()
			poke(q.space)
			return n, nil
		}
		if q.wclosed {
			q.mu.Unlock()
			return 0, io.EOF
		}
		q.mu.Unlock()
		var timer <-chan time.Time
		var tm *time.Timer
		if !dl.IsZero() {
			d := time.Until(dl)
			if d <= 0 {
				return 0, timeoutErr{}
			}
			tm = time.NewTimer(d)
			timer = tm.C
		}
		select {
		case <-q.notify:
		case <-s.closeCh:
		case <-timer:
		}
		if tm != nil {
			tm.Stop()
		}
	}
}

func (s *simConn) Write(p []byte) (int, error) {
	done := 0
	for {
		simrt.Yield(0)
		s.mu.Lock()
		closed, dl := s.closed, s.wdl
		s.mu.Unlock()
		if closed {
			return done, net.ErrClosed
		}
		q := s.out
		q.mu.Lock()
		if q.reset {
			q.mu.Unlock()
			return done, errConnReset
		}
		if q.rgone {
			q.mu.Unlock()
			return done, errBrokenPipe
		}
		if q.discard {
			q.written += int64(len(p) - done)
			q.mu.Unlock()
			return len(p), nil
		}
		room := len(p) - done
		if q.capacity > 0 {
			if free := q.capacity - len(q.buf); free < room {
				room = free
			}
		}
		if room > 0 {
			q.buf = append(q.buf, p[done:done+room]...)
			q.written += int64(room)
			done += room
		}
		q.mu.Unlock()
		if room > 0 {
			poke(q.notify)
		}
		if done == len(p) {
			return done, nil
		}
		// send window full: wait for the reader, the deadline or a close
		var timer <-chan time.Time
		var tm *time.Timer
		if !dl.IsZero() {
			d := time.Until(dl)
			if d <= 0 {
				return done, timeoutErr{}
			}
			tm = time.NewTimer(d)
			timer = tm.C
		}
		select {
		case <-q.space:
		case <-s.closeCh:
		case <-timer:
		}
		if tm != nil {
			tm.Stop()
		}
	}
}

// Close sends FIN and releases local waiters.
func (s *simConn) Close() error {
	s.mu.Lock()
	if s.closed {
		s.mu.Unlock()
		return net.ErrClosed
	}
	s.closed = true
	close(s.closeCh)
	s.mu.Unlock()
	s.out.mu.Lock()
	s.out.wclosed = true
	s.out.mu.Unlock()
	poke(s.out.notify)
	s.in.mu.Lock()
	s.in.rgone = true
	s.in.buf = nil
	s.in.mu.Unlock()
	poke(s.in.space)
	return nil
}

// Reset aborts the connection (RST): the other side's pending data is dropped.
func (s *simConn) Reset() {
	s.mu.Lock()
	if !s.closed {
		s.closed = true
		close(s.closeCh)
	}
	s.mu.Unlock()
	for _, q := range []*byteQ{s.out, s.in} {
		q.mu.Lock()
		q.reset = true
		q.buf = nil
		q.mu.Unlock()
		poke(q.notify)
		poke(q.space)
	}
}

func (s *simConn) IsClosed() bool {
	s.mu.Lock()
	defer s.mu.Unlock()
	return s.closed
}

// PeerGone reports whether the other end has closed or reset the connection.
func (s *simConn) PeerGone() bool {
	s.in.mu.Lock()
	defer s.in.mu.Unlock()
	return s.in.wclosed || s.in.reset
}

func (s *simConn) LocalAddr() net.Addr  { return s.local }
func (s *simConn) RemoteAddr() net.Addr { return s.remote }
func (s *simConn) SetDeadline(t time.Time) error {
	s.mu.Lock()
	s.rdl, s.wdl = t, t
	s.mu.Unlock()
	return nil
}
func (s *simConn) SetReadDeadline(t time.Time) error {
	s.mu.Lock()
	s.rdl = t
	s.mu.Unlock()
	return nil
}
func (s *simConn) SetWriteDeadline(t time.Time) error {
	s.mu.Lock()
	s.wdl = t
	s.mu.Unlock()
	return nil
}

// inject appends bytes for the other side without blocking (world side: the attacker's
// "send" has an unlimited window towards the node's receive buffer).
func (s *simConn) inject(b []byte) bool {
	q := s.out
	q.mu.Lock()
	if q.reset || q.rgone || s.IsClosed() {
		q.mu.Unlock()
		return false
	}
	q.buf = append(q.buf, b...)
	q.written += int64(len(b))
	q.mu.Unlock()
	poke(q.notify)
	return true
}

// Sent is the number of bytes this end has put on the wire.
func (s *simConn) Sent() int64 {
	s.out.mu.Lock()
	defer s.out.mu.Unlock()
	return s.out.written
}

// setDiscard makes this end consume and ignore everything the other side writes.
func (s *simConn) setDiscard() {
	s.in.mu.Lock()
	s.in.discard = true
	s.in.buf = nil
	s.in.mu.Unlock()
	poke(s.in.space)
}

// setWindow limits how much the other side can write before this end reads.
func (s *simConn) setWindow(n int) {
	s.in.mu.Lock()
	s.in.capacity = n
	s.in.mu.Unlock()
}

// take removes and returns everything the other side has written so far (non-blocking).
func (s *simConn) take() []byte {
	s.in.mu.Lock()
	b := s.in.buf
	s.in.buf = nil
	s.in.mu.Unlock()
	poke(s.in.space)
	return b
}

// ---------- remote party codec ----------

var framePrefix = []byte{0x5a, 0x48}

type wireClient struct {
	conn  *simConn
	key   []byte // negotiated AES key (nil until the handshake succeeded)
	hsErr error
	rbuf  []byte
}

// handshake runs the repo's own client handshake (blocking: call it from a tag-0 task).
func (w *wireClient) handshake(k *keyInfo, nodeID *p2p.NodeID) error {
	peer := p2p.NewPeer(w.conn)
	if err := peer.DoHandshake(k.Key, nodeID); err != nil {
		w.hsErr = err
		return err
	}
	w.key = append([]byte(nil), p2p.VerifAesKey(peer)...)
	if len(w.key) == 0 {
		w.hsErr = errors.New("no session key")
		return w.hsErr
	}
	return nil
}

func frameHeader(n uint32) []byte {
	h := make([]byte, 6)
	copy(h, framePrefix)
	binary.BigEndian.PutUint32(h[2:], n)
	return h
}

// sealRaw encrypts an arbitrary plaintext as the node's peer would (AES-CBC, PKCS5).
func (w *wireClient) sealRaw(plain []byte) []byte {
	ct, err := crypto.AesEncrypt(append([]byte(nil), plain...), w.key)
	if err != nil {
		panic("simconn: AesEncrypt: " + err.Error())
	}
	return ct
}

// frame builds a complete well-formed frame for (code, payload).
func (w *wireClient) frame(code uint32, payload []byte) []byte {
	plain := make([]byte, 4, 4+len(payload))
	binary.BigEndian.PutUint32(plain, code)
	plain = append(plain, payload...)
	ct := w.sealRaw(plain)
	return append(frameHeader(uint32(len(ct))), ct...)
}

// parse extracts complete frames from bytes received so far; it returns decoded
// (code, payload) pairs and keeps the incomplete rest. Undecodable frames are skipped.
func (w *wireClient) parse(in []byte) (out []wireMsg) {
	w.rbuf = append(w.rbuf, in...)
	for len(w.rbuf) >= 6 {
		if w.rbuf[0] != framePrefix[0] || w.rbuf[1] != framePrefix[1] {
			w.rbuf = w.rbuf[1:]
			continue
		}
		n := int(binary.BigEndian.Uint32(w.rbuf[2:6]))
		if len(w.rbuf) < 6+n {
			return
		}
		ct := w.rbuf[6 : 6+n]
		w.rbuf = w.rbuf[6+n:]
		if n == 0 || n%16 != 0 {
			continue
		}
		pt, err := crypto.AesDecrypt(append([]byte(nil), ct...), w.key)
		if err != nil || len(pt) < 4 {
			continue
		}
		out = append(out, wireMsg{Code: binary.BigEndian.Uint32(pt[:4]), Payload: append([]byte(nil), pt[4:]...)})
	}
	return
}

type wireMsg struct {
	Code    uint32
	Payload []byte
}

func (m wireMsg) String() string { return fmt.Sprintf("code %#x (%d bytes)", m.Code, len(m.Payload)) }
