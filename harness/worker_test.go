package harness

import "testing"

func TestWorker(t *testing.T) { workerMain(t) }
