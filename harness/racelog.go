package harness

import (
	"fmt"
	"os"
	"regexp"
	"sort"
	"strings"
)

// Race oracle (C19, -race build only). The race detector writes its reports to
// GORACE log_path=<prefix> -> <prefix>.<pid>. After every run the new part of that file
// is parsed; a report counts only if BOTH accesses were made by simulated tasks (their
// stacks end in simrt.(*Sim).runTask - not by the harness world) and both have a
// lemochain-core frame that is not an overlay accessor (Verif*). The signature is the
// unordered pair of the innermost lemochain-core functions.

var raceLogPath string
var raceLogOff int64

func raceLogInit() {
	if p := os.Getenv("VERIF_RACE_LOG"); p != "" {
		raceLogPath = fmt.Sprintf("%s.%d", p, os.Getpid())
	}
}

type raceReport struct {
	Key  string
	Text string
}

var accessRe = regexp.MustCompile(`(?m)^(?:Previous )?(?:[Rr]ead|[Ww]rite|[Aa]tomic [a-z]+) at 0x[0-9a-f]+ by (?:main )?goroutine \d+:\n((?:  .*\n)+)`)

const repoPrefix = "github.com/LemoFoundationLtd/lemochain-core/"

func raceLogTake() []raceReport {
	if raceLogPath == "" {
		return nil
	}
	f, err := os.Open(raceLogPath)
	if err != nil {
		return nil
	}
	defer f.Close()
	st, _ := f.Stat()
	if st.Size() <= raceLogOff {
		return nil
	}
	buf := make([]byte, st.Size()-raceLogOff)
	f.ReadAt(buf, raceLogOff)
	raceLogOff = st.Size()
	var out []raceReport
	seen := map[string]bool{}
	for _, rep := range strings.Split(string(buf), "WARNING: DATA RACE")[1:] {
		ms := accessRe.FindAllStringSubmatch(rep, -1)
		if len(ms) < 2 {
			continue
		}
		var sites []string
		ok := true
		for _, m := range ms[:2] {
			stack := m[1]
			if !strings.Contains(stack, "simrt.(*Sim).runTask") {
				ok = false // an access by the harness world (or an unmanaged goroutine)
				break
			}
			site := ""
			for _, line := range strings.Split(stack, "\n") {
				l := strings.TrimSpace(line)
				if strings.HasPrefix(l, "verif/") {
					break // the access itself is simulator or harness code (simulated disk, tape ...)
				}
				if strings.HasPrefix(l, repoPrefix) {
					fn := strings.TrimPrefix(l, repoPrefix)
					if i := strings.LastIndex(fn, "("); i > 0 {
						fn = fn[:i]
					}
					if strings.Contains(fn, ".Verif") || strings.Contains(fn, "verifNL_") {
						site = ""
						break
					}
					site = fn
					break
				}
				if strings.HasPrefix(l, "verif/harness.") {
					break // the access itself is harness code
				}
			}
			if site == "" {
				ok = false
				break
			}
			sites = append(sites, site)
		}
		if !ok {
			continue
		}
		sort.Strings(sites)
		key := sites[0] + "|" + sites[1]
		if seen[key] {
			continue
		}
		seen[key] = true
		txt := rep
		if len(txt) > 3500 {
			txt = txt[:3500]
		}
		out = append(out, raceReport{Key: key, Text: txt})
	}
	return out
}
