package harness

import (
	"encoding/json"
	"fmt"
	"math/big"
	"strings"

	"github.com/LemoFoundationLtd/lemochain-core/chain/params"
	"github.com/LemoFoundationLtd/lemochain-core/chain/types"
	"github.com/LemoFoundationLtd/lemochain-core/common"
	"verif/simrt"
)

// Invariant monitors evaluated on every block the honest miner produces (and, in C01,
// every validator accepts). Each oracle is written from the property statement and
// reads only account state (dumps) and the block.

func sumBalances(d StateDump) *big.Int {
	s := new(big.Int)
	for _, a := range d {
		s.Add(s, a.big("a.balance"))
	}
	return s
}

func allTxs(b *types.Block) types.Transactions {
	var out types.Transactions
	for _, tx := range b.Txs {
		out = append(out, tx)
		if tx.Type() == params.BoxTx {
			if box, err := types.GetBox(tx.Data()); err == nil {
				out = append(out, box.SubTxList...)
			}
		}
	}
	return out
}

func blockTouchesContracts(r *BlockRec) bool {
	for _, tx := range allTxs(r.Block) {
		if tx.Type() == params.CreateContractTx {
			return true
		}
		if tx.To() != nil {
			if code := r.Pre[*tx.To()]["a.code"]; code != "" && code != "0x" && !strings.HasPrefix(code, "err") {
				return true
			}
			for _, c := range r.Gen.Contracts {
				if c == *tx.To() {
					return true
				}
			}
		}
	}
	return false
}

// ---------------- C05 ----------------

func monitorC05(c *Ctx, r *BlockRec) {
	b := r.Block
	// gas accounting in the header
	var sumGas uint64
	fees := new(big.Int)
	for _, tx := range b.Txs {
		if tx.GasUsed() > tx.GasLimit() {
			c.Fail("C05/gas/used-exceeds-limit", "tx type %d gasUsed %d > gasLimit %d in block %d", tx.Type(), tx.GasUsed(), tx.GasLimit(), b.Height())
		}
		sumGas += tx.GasUsed()
	}
	if sumGas != b.GasUsed() {
		c.Fail("C05/gas/header-sum", "header.GasUsed=%d but sum of tx.GasUsed=%d (block %d)", b.GasUsed(), sumGas, b.Height())
	}
	// what the payers are charged according to the statement: gasUsed x gasPrice per included tx
	for _, tx := range b.Txs {
		if tx.Type() == params.BoxTx {
			box, err := types.GetBox(tx.Data())
			own := tx.GasUsed()
			if err == nil {
				for _, st := range box.SubTxList {
					fees.Add(fees, new(big.Int).Mul(new(big.Int).SetUint64(st.GasUsed()), st.GasPrice()))
					if st.GasUsed() <= own {
						own -= st.GasUsed()
					}
				}
			}
			fees.Add(fees, new(big.Int).Mul(new(big.Int).SetUint64(own), tx.GasPrice()))
		} else {
			fees.Add(fees, new(big.Int).Mul(new(big.Int).SetUint64(tx.GasUsed()), tx.GasPrice()))
		}
	}
	// no negative balances
	for a, d := range r.Post {
		if d.big("a.balance").Sign() < 0 {
			c.Fail("C05/balance/negative", "account %s has negative balance %s after block %d", a.Hex(), d["a.balance"], b.Height())
		}
	}
	pre, post := sumBalances(r.Pre), sumBalances(r.Post)
	delta := new(big.Int).Sub(post, pre)
	contracts := blockTouchesContracts(r)
	// fee the miner is credited for box sub-transactions at the BOX's price (classification only)
	boxSubFee := new(big.Int)
	for _, tx := range b.Txs {
		if tx.Type() == params.BoxTx {
			if box, err := types.GetBox(tx.Data()); err == nil {
				for _, st := range box.SubTxList {
					boxSubFee.Add(boxSubFee, new(big.Int).Mul(new(big.Int).SetUint64(st.GasUsed()), tx.GasPrice()))
				}
			}
		}
	}
	if !r.IsReward {
		if delta.Sign() > 0 {
			sub := "other"
			if delta.Cmp(boxSubFee) == 0 {
				sub = "box-sub-gas-credited-twice-to-miner"
			}
			c.Fail("C05/conservation/created/"+sub, "block %d (not a reward block) created %s mo: sum of balances %s -> %s; txs: %v", b.Height(), delta, pre, post, txsSummary(b.Txs))
		}
		if delta.Sign() < 0 {
			if contracts {
				c.Probe("burn_by_contract")
			} else {
				c.Fail("C05/conservation/destroyed", "block %d destroyed %s mo without any contract execution (no self-destruct possible); txs: %v", b.Height(), new(big.Int).Neg(delta), txsSummary(b.Txs))
			}
		}
	} else {
		// reward block: the sum may grow by at most the reward set for the ended term
		// (a reward-setting transaction inside the reward block itself still counts: the
		// issue step reads the state after the block's transactions)
		reward := termRewardFromState(r.Post, b.Height())
		if delta.Cmp(reward) > 0 {
			c.Fail("C05/reward/over-issue", "reward block %d grew the sum of balances by %s, more than the term reward %s", b.Height(), delta, reward)
		}
		if delta.Sign() < 0 && !contracts {
			c.Fail("C05/conservation/destroyed", "reward block %d destroyed %s mo", b.Height(), new(big.Int).Neg(delta))
		}
		if delta.Sign() > 0 {
			c.Probe("reward_issued")
		}
		// only deputies' income addresses gain by the reward: every account whose balance grew in
		// a reward block must be a transaction recipient, the fee receiver, a candidate (deposit
		// refund, conservation-neutral) or an income address named by some candidate profile
		allowed := map[common.Address]bool{r.Miner.Income.Addr: true, params.DepositPoolAddress: true} // deposits of register txs go to the pool
		for _, tx := range allTxs(b) {
			if tx.To() != nil {
				allowed[*tx.To()] = true
			}
			allowed[tx.GasPayer()] = true // gas refund of a box/sub transaction nets out, payer may be recipient elsewhere
		}
		// profiles before AND after the block: the reward is paid when the block is finalised, to the income
		// address the profile names then (a candidate may change it by a transaction in the reward block itself)
		for _, dump := range []StateDump{r.Pre, r.Post} {
			for a, d := range dump {
				if strings.Contains(d["profile"], "isCandidate=") {
					allowed[a] = true
					if inc := profileField(d["profile"], types.CandidateKeyIncomeAddress); inc != "" {
						if ia, err := common.StringToAddress(inc); err == nil {
							allowed[ia] = true
						}
					}
				}
			}
		}
		if !contracts {
			for a, d := range r.Post {
				if d.big("a.balance").Cmp(r.Pre[a].big("a.balance")) > 0 && !allowed[a] {
					c.Fail("C05/reward/foreign-recipient", "reward block %d: account %s gained %s -> %s although it is neither a transaction recipient, the fee receiver, a candidate nor any candidate's income address", b.Height(), a.Hex(), r.Pre[a]["a.balance"], d["a.balance"])
				}
			}
		}
	}
	// the miner's income address receives exactly the fees, when it is not otherwise a party
	dep := r.Miner
	income := dep.Income.Addr
	party := false
	for _, tx := range allTxs(b) {
		if tx.From() == income || tx.GasPayer() == income || (tx.To() != nil && *tx.To() == income) || tx.From() == dep.Miner.Addr {
			party = true
		}
	}
	if !party && !contracts && !r.IsReward {
		gain := new(big.Int).Sub(r.Post[income].big("a.balance"), r.Pre[income].big("a.balance"))
		if gain.Cmp(fees) != 0 {
			sub := "other"
			if new(big.Int).Sub(gain, fees).Cmp(boxSubFee) == 0 {
				sub = "box-sub-gas-credited-twice-to-miner"
			}
			c.Fail("C05/fees/miner-income/"+sub, "block %d: miner income address gained %s but the included transactions' gasUsed x gasPrice total %s; txs: %v", b.Height(), gain, fees, txsSummary(b.Txs))
		}
	}
	// a transaction that is not included costs nothing
	included := map[common.Address]bool{}
	for _, tx := range allTxs(b) {
		included[tx.From()] = true
		included[tx.GasPayer()] = true
		if tx.To() != nil {
			included[*tx.To()] = true
		}
	}
	if !contracts && !r.IsReward {
		for _, tx := range r.Invalid {
			for _, a := range []common.Address{tx.From(), tx.GasPayer()} {
				if included[a] || a == income {
					continue
				}
				if r.Pre[a]["a.balance"] != r.Post[a]["a.balance"] {
					c.Fail("C05/not-included/charged", "block %d (miner %s, income address %s, slot %d): account %s is party only to a transaction the miner discarded, yet its balance changed %s -> %s; included: %v; discarded: %v",
						b.Height(), b.MinerAddress().Hex(), income.Hex(), r.Deputy, a.Hex(), r.Pre[a]["a.balance"], r.Post[a]["a.balance"], txsSummary(b.Txs), txsSummary(r.Invalid))
				}
			}
		}
	}
	// single plain transfer between distinct EOAs: exact deltas
	if len(b.Txs) == 1 && b.Txs[0].Type() == params.OrdinaryTx && !contracts && !r.IsReward && b.Txs[0].To() != nil {
		tx := b.Txs[0]
		from, to, payer := tx.From(), *tx.To(), tx.GasPayer()
		if from != to && from != income && to != income && payer != income && payer != to && isPlainAddr(r, to) {
			fee := new(big.Int).Mul(new(big.Int).SetUint64(tx.GasUsed()), tx.GasPrice())
			want := map[common.Address]*big.Int{}
			add := func(a common.Address, v *big.Int) {
				if want[a] == nil {
					want[a] = new(big.Int)
				}
				want[a].Add(want[a], v)
			}
			add(from, new(big.Int).Neg(tx.Amount()))
			add(to, tx.Amount())
			add(payer, new(big.Int).Neg(fee))
			add(income, fee)
			for a, w := range want {
				got := new(big.Int).Sub(r.Post[a].big("a.balance"), r.Pre[a].big("a.balance"))
				// vote bookkeeping never moves balances, so deltas must match exactly
				if got.Cmp(w) != 0 {
					c.Fail("C05/transfer/exact-delta", "single transfer block %d: account %s changed by %s, expected %s (amount %s, fee %s)", b.Height(), a.Hex(), got, w, tx.Amount(), fee)
				}
			}
			c.Probe("single_transfer_exact")
		}
	}
}

func isPlainAddr(r *BlockRec, a common.Address) bool {
	for i := 1; i <= 9; i++ {
		if a == common.BytesToAddress([]byte{byte(i)}) {
			return false
		}
	}
	code := r.Pre[a]["a.code"]
	return code == "" || code == "0x"
}

func termRewardFromState(pre StateDump, height uint32) *big.Int {
	// reward block height = term*TermDuration + Interim + 1 pays the term that just ended
	term := (height-params.InterimDuration-1)/params.TermDuration - 1
	raw := pre[params.TermRewardContract][slotKey(params.TermRewardContract.Hash())]
	if raw == "" {
		return new(big.Int)
	}
	m := make(params.RewardsMap)
	if err := json.Unmarshal(common.FromHex(raw), &m); err != nil {
		return new(big.Int)
	}
	if rw, ok := m[term]; ok && rw.Value != nil {
		return rw.Value
	}
	return new(big.Int)
}

// ---------------- C11 ----------------

func monitorC11(c *Ctx, r *BlockRec) {
	lemo100 := lemo(100)
	lemo200 := lemo(200)
	cls := "other"
	for _, tx := range allTxs(r.Block) {
		if tx.Type() == params.RegisterTx && cls == "other" {
			cls = "block-with-register-tx"
		}
		if tx.Type() == params.VoteTx {
			cls = "block-with-vote-tx"
		}
	}
	for cand, d := range r.Post {
		prof := d["profile"]
		votes := d.big("votes")
		if votes.Sign() < 0 {
			c.Fail("C11/votes/negative/"+cls, "candidate %s has negative votes %s after block %d; txs: %v", cand.Hex(), votes, r.Block.Height(), txsSummary(r.Block.Txs))
			continue
		}
		if !strings.Contains(prof, "isCandidate=") {
			continue
		}
		if strings.Contains(prof, "isCandidate=false;") {
			if votes.Sign() != 0 {
				c.Fail("C11/votes/unregistered-nonzero/"+cls, "unregistered candidate %s has %s votes after block %d", cand.Hex(), votes, r.Block.Height())
			}
			continue
		}
		// registered: deposit votes + voters' balance votes
		want := new(big.Int)
		dep := profileField(prof, types.CandidateKeyDepositAmount)
		if dep != "" {
			if dv, ok := new(big.Int).SetString(dep, 10); ok {
				want.Add(want, new(big.Int).Div(dv, lemo100))
			}
		}
		nv := 0
		for voter, vd := range r.Post {
			if vd["voteFor"] == cand.Hex() {
				want.Add(want, new(big.Int).Div(vd.big("a.balance"), lemo200))
				nv++
				_ = voter
			}
		}
		if nv > 0 {
			c.Probe("candidate_with_voters")
		}
		if votes.Cmp(want) != 0 {
			c.Fail("C11/votes/formula/"+cls, "candidate %s has %s votes after block %d but floor(deposit/100)+sum floor(voter balance/200) = %s (deposit %q, %d voters); txs: %v",
				cand.Hex(), votes, r.Block.Height(), want, dep, nv, txsSummary(r.Block.Txs))
		}
	}
}

func profileField(prof, key string) string {
	for _, kv := range strings.Split(prof, ";") {
		if strings.HasPrefix(kv, key+"=") {
			return strings.TrimPrefix(kv, key+"=")
		}
	}
	return ""
}

// ---------------- C12 ----------------

func monitorC12(c *Ctx, r *BlockRec) {
	b := r.Block
	txs := allTxs(b)
	// reach probes: asset transfers that had something to move
	for _, d := range r.Post {
		for k, v := range d {
			if strings.HasPrefix(k, "equity.") && equityOf(v).Sign() > 0 {
				c.Probe("equity_held_after_block")
			}
		}
	}
	for _, tx := range txs {
		if tx.Type() != params.TransferAssetTx || tx.To() == nil {
			continue
		}
		ta, err := types.GetTransferAsset(tx.Data())
		if err != nil || ta.Amount == nil || ta.Amount.Sign() <= 0 {
			continue
		}
		have := equityOf(r.Pre[tx.From()]["equity."+ta.AssetId.Hex()[:10]])
		if have.Sign() > 0 && have.Cmp(ta.Amount) >= 0 {
			c.Probe("asset_transfer_covered_by_equity")
			switch {
			case *tx.To() == tx.From():
				c.Probe("asset_transfer_to_self_covered")
			case *tx.To() == (common.Address{}):
				c.Probe("asset_burn_covered")
			}
		}
	}
	for _, as := range r.Gen.Assets {
		issuer := as.Issuer.Addr
		key := "asset." + as.Code.Hex()[:10]
		postA := r.Post[issuer][key]
		if postA == "" {
			continue // asset not created on this chain (yet)
		}
		supplyPost := assetField(postA, "supply")
		supplyPre := assetField(r.Pre[issuer][key], "supply")
		divisible := strings.Contains(postA, "div=true")
		// sum of holders' equity over the asset's ids
		sumPost, sumPre := new(big.Int), new(big.Int)
		moved := false
		for _, id := range as.Ids {
			ek := "equity." + id.Hex()[:10]
			for a := range r.Post {
				ep, eq := equityOf(r.Pre[a][ek]), equityOf(r.Post[a][ek])
				sumPre.Add(sumPre, ep)
				sumPost.Add(sumPost, eq)
				if eq.Sign() < 0 {
					c.Fail("C12/equity/negative", "account %s holds negative equity %s of asset id %s after block %d; txs: %v", a.Hex(), eq, id.Hex()[:10], b.Height(), txsSummary(b.Txs))
				}
				if eq.Cmp(ep) != 0 {
					moved = true
				}
				if eq.Cmp(ep) < 0 {
					// only the sender of a transfer-asset transaction for this id may lose equity
					ok := false
					for _, tx := range txs {
						if tx.Type() == params.TransferAssetTx && tx.From() == a {
							if ta, err := types.GetTransferAsset(tx.Data()); err == nil && ta.AssetId == id {
								ok = true
							}
						}
					}
					if !ok {
						c.Fail("C12/equity/foreign-decrease", "account %s lost equity of asset id %s (%s -> %s) in block %d without sending a transfer of it; txs: %v", a.Hex(), id.Hex()[:10], ep, eq, b.Height(), txsSummary(b.Txs))
					}
				}
			}
		}
		if divisible {
			if supplyPost.Cmp(sumPost) != 0 {
				c.Fail("C12/supply/not-sum-of-equity", "divisible asset %s: recorded total supply %s but holders' equity sums to %s after block %d; txs: %v", as.Code.Hex()[:10], supplyPost, sumPost, b.Height(), txsSummary(b.Txs))
			}
			c.Probe("divisible_asset_checked")
		}
		// supply changes only by the issuer's issue/replenish and by a holder burning its own equity
		if supplyPost.Cmp(supplyPre) > 0 {
			ok := false
			for _, tx := range txs {
				if tx.From() != issuer {
					continue
				}
				if tx.Type() == params.IssueAssetTx {
					if ia, err := types.GetIssueAsset(tx.Data()); err == nil && ia.AssetCode == as.Code {
						ok = true
					}
				}
				if tx.Type() == params.ReplenishAssetTx {
					if ra, err := types.GetReplenishAsset(tx.Data()); err == nil && ra.AssetCode == as.Code {
						ok = true
					}
				}
			}
			if !ok {
				c.Fail("C12/supply/minted-by-non-issuer", "supply of asset %s grew %s -> %s in block %d without an issue/replenish by its issuer; txs: %v", as.Code.Hex()[:10], supplyPre, supplyPost, b.Height(), txsSummary(b.Txs))
			}
		}
		if supplyPost.Cmp(supplyPre) < 0 && r.Pre[issuer][key] != "" {
			ok := false
			for _, tx := range txs {
				if tx.Type() == params.TransferAssetTx && tx.To() != nil && *tx.To() == (common.Address{}) {
					ok = true
				}
			}
			if !ok {
				c.Fail("C12/supply/shrunk", "supply of asset %s shrank %s -> %s in block %d without a burn transfer; txs: %v", as.Code.Hex()[:10], supplyPre, supplyPost, b.Height(), txsSummary(b.Txs))
			}
		}
		// frozen assets do not move (frozen before the block and not modified within it)
		if strings.Contains(r.Pre[issuer][key], "freeze=true;") && moved {
			modified := false
			for _, tx := range txs {
				if tx.Type() == params.ModifyAssetTx {
					modified = true
				}
			}
			if !modified {
				c.Fail("C12/frozen/moved", "asset %s was frozen before block %d yet equity of it changed; txs: %v", as.Code.Hex()[:10], b.Height(), txsSummary(b.Txs))
			}
		}
	}
}

func assetField(s, f string) *big.Int {
	for _, kv := range strings.Fields(s) {
		if strings.HasPrefix(kv, f+"=") {
			v, ok := new(big.Int).SetString(strings.TrimPrefix(kv, f+"="), 10)
			if ok {
				return v
			}
		}
	}
	return new(big.Int)
}

func equityOf(s string) *big.Int {
	if s == "" {
		return new(big.Int)
	}
	return assetField(s, "eq")
}

// ---------------- registration ----------------

func monitorProp(id string, kinds []int, variants []string, mon func(c *Ctx, r *BlockRec), rule string) *PropDef {
	return &PropDef{
		ID: id, Variants: variants,
		SimConfig: func(c *Ctx) simrt.Config { return simrt.Config{Policy: simrt.PolicyCoarse} },
		Scenario: func(c *Ctx) {
			terms := c.Var == "terms"
			p := drawParams(c, terms)
			net := NewNet(c, p)
			f := net.NewFactory(40)
			g := NewTxGen(net, c, "tx")
			blocks := 0
			var last *BlockRec
			maxBlocks := 6
			if terms {
				maxBlocks = 15 // reach the reward block of the first term (height T+I+1 <= 13)
			}
			chainRun(c, net, g, f, ChainRunOpts{Kinds: kinds, MaxBlocks: maxBlocks, MaxTxs: 6, Terms: terms, SingleTx: c.Var == "single",
				OnBlock: func(r *BlockRec) bool {
					mon(c, r)
					blocks++
					last = r
					c.State(hashString(fmt.Sprintf("%d/%d/%d/%v/%v", r.Block.Height(), len(r.Block.Txs), len(r.Invalid), r.IsReward, r.IsSnap)))
					return true
				}})
			c.Nontrivial = blocks >= 2 && last != nil && len(last.Block.Txs)+len(last.Invalid) > 0
			if last != nil {
				c.Sample = map[string]interface{}{"params": fmt.Sprintf("%+v", p), "blocks": blocks, "last_block_txs": txsSummary(last.Block.Txs), "discarded": len(last.Invalid)}
			}
		},
		Rule: rule,
		Real: []string{"store (simos/simldb)", "chain/account", "chain/vm", "chain/transaction.TxProcessor", "chain/consensus.BlockAssembler (honest miner path ApplyTxs+Finalize+Seal)", "chain/deputynode.Manager"},
		Stub: []string{"block source = harness factory driving the real assembler; no network"},
	}
}

func hashString(s string) uint64 {
	var h uint64 = 14695981039346656037
	for i := 0; i < len(s); i++ {
		h ^= uint64(s[i])
		h *= 1099511628211
	}
	return h
}

func init() {
	Register(monitorProp("C05", nil, []string{"mixed", "single", "terms", "mixed"}, monitorC05,
		"honest-miner chains of 2-6 blocks with 0-6 tape-generated transactions of all 11 types per block (valid and invalid; boxes, contracts that revert/self-destruct/run out of gas, candidate deposits, reward settings) on 1-5 deputies; variants: mixed, single (one tx per block: exact deltas), terms (TermDuration 5-9 so snapshot and reward blocks occur); after every block the conservation/gas/fee oracles run on full account dumps; non-trivial = >=2 blocks and the last block carried or discarded transactions; distinct = event-log digests"))
	Register(monitorProp("C11", []int{kTransfer, kTransfer, kVote, kVote, kVote, kRegister, kRegister, kCandidateUpdate, kUnregister, kCallContract, kBox, kReimbursed}, []string{"mixed", "terms"}, monitorC11,
		"honest-miner chains of 2-6 blocks mixing transfers, contract value flows, vote, re-vote, register, deposit top-up and unregister touching the same 4-7 accounts several times per block (balances around multiples of 200 LEMO, deposits around multiples of 100); after every block every candidate's votes are recomputed from the end-of-block state; non-trivial as C05"))
	Register(monitorProp("C12", []int{kCreateAsset, kIssueAsset, kIssueAsset, kReplenishAsset, kModifyAsset, kTransferAsset, kTransferAsset, kTransferAsset, kTransfer, kBox}, []string{"mixed"}, monitorC12,
		"honest-miner chains of 2-6 blocks of create/issue/replenish/modify/transfer-asset transactions (three categories; amounts 0, 1, small, huge, negative-in-JSON; to self, to contracts, to the burn address; freeze/unfreeze; non-issuer senders) over 4-7 accounts; after every block supply/equity/ownership oracles run on full dumps; non-trivial as C05"))
}
