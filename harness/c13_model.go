package harness

import (
	"encoding/json"
	"fmt"
	"math/big"
	"time"

	"github.com/LemoFoundationLtd/lemochain-core/chain/deputynode"
	"github.com/LemoFoundationLtd/lemochain-core/chain/params"
	"github.com/LemoFoundationLtd/lemochain-core/chain/types"
	"github.com/LemoFoundationLtd/lemochain-core/common"
	"github.com/LemoFoundationLtd/lemochain-core/store"
)

// ---------------------------------------------------------------------------------
// C13 reference model. Everything in this file is written from the property
// statement (properties.jsonl C13) and from the protocol parameters of the run; it
// never calls the scheduling code under test.
//
//   * the deputies of a term are the first DeputyCount entries, by rank, of the deputy
//     list carried by the term's snapshot block (chain data, read from the block);
//   * term k >= 1 is in charge from height k*TermDuration+InterimDuration+1 (its "first
//     block", the reward height) to (k+1)*TermDuration+InterimDuration; term 0 from 1;
//   * after parent P the deputy entitled at instant t >= P.time is the one of rank
//     (rP + 1 + floor((t-P.time)/slot)) mod n, where rP is the rank of P's miner among
//     the deputies of the NEXT block's term, and rP = -1 at height 1 and at the first
//     block of a term ("from rank 0").
// ---------------------------------------------------------------------------------

// c13Ident is one identity able to mine (genesis deputy or later registered candidate).
type c13Ident struct {
	Idx    int // factory identity index (tag = factory tag + 1 + Idx)
	Node   *keyInfo
	Miner  *keyInfo
	Income *keyInfo
}

type c13Model struct {
	T, I    uint32 // TermDuration, InterimDuration
	SlotMs  int64
	MaxDep  int                   // configured deputy count
	Terms   [][]*types.DeputyNode // Terms[k] = deputy list of snapshot block k*T (rank order)
	Idents  []*c13Ident
	byMiner map[common.Address]*c13Ident
}

func (m *c13Model) termIndex(h uint32) int {
	if h < m.T+m.I+1 {
		return 0
	}
	return int((h - m.I - 1) / m.T)
}

// firstOfTerm: height 1 and the first block a new term is in charge of.
func (m *c13Model) firstOfTerm(h uint32) bool {
	if h == 1 {
		return true
	}
	return h >= m.T+m.I+1 && h%m.T == m.I+1
}

// active returns the deputies in charge of height h in rank order (nil if the term's
// snapshot is not known yet).
func (m *c13Model) active(h uint32) []*types.DeputyNode {
	k := m.termIndex(h)
	if k >= len(m.Terms) {
		return nil
	}
	l := m.Terms[k]
	if len(l) > m.MaxDep {
		l = l[:m.MaxDep]
	}
	return l
}

func rankOf(list []*types.DeputyNode, miner common.Address) int {
	for i, d := range list {
		if d.MinerAddress == miner {
			return i
		}
	}
	return -2
}

// parentRank is rP of the statement for a block at height h on a parent mined by pMiner:
// -1 at height 1 / first block of a term, else the parent miner's rank, -2 if it has none
// (cannot happen on a chain whose blocks were all mined in turn).
func (m *c13Model) parentRank(h uint32, pMiner common.Address) int {
	if m.firstOfTerm(h) {
		return -1
	}
	return rankOf(m.active(h), pMiner)
}

// entitled returns the rank of the deputy entitled to mine height h at instant tMs.
func (m *c13Model) entitled(h uint32, pMiner common.Address, pTimeMs, tMs int64) (rank int, ok bool) {
	n := len(m.active(h))
	rp := m.parentRank(h, pMiner)
	if n == 0 || rp == -2 || tMs < pTimeMs {
		return 0, false
	}
	return InTurnRank(rp, pTimeMs, tMs, m.SlotMs, n), true
}

// ownWindow is the earliest slot [from,to) of the deputy of rank r that has not ended at
// nowMs (all in milliseconds). Slots of r start at P + (k0 + j*n)*slot, j = 0,1,...
func (m *c13Model) ownWindow(h uint32, pMiner common.Address, pTimeMs, nowMs int64, r int) (from, to int64, ok bool) {
	n := int64(len(m.active(h)))
	rp := m.parentRank(h, pMiner)
	if n == 0 || rp == -2 {
		return 0, 0, false
	}
	k0 := ((int64(r)-int64(rp)-1)%n + n) % n
	from = pTimeMs + k0*m.SlotMs
	to = from + m.SlotMs
	if to <= nowMs {
		// number of whole rounds to skip so that the slot's end is after now
		round := n * m.SlotMs
		j := (nowMs-to)/round + 1
		from += j * round
		to += j * round
	}
	return from, to, true
}

func (m *c13Model) ident(miner common.Address) *c13Ident { return m.byMiner[miner] }

func (m *c13Model) addIdent(node, miner, income *keyInfo) *c13Ident {
	id := &c13Ident{Idx: len(m.Idents), Node: node, Miner: miner, Income: income}
	m.Idents = append(m.Idents, id)
	m.byMiner[miner.Addr] = id
	return id
}

// ---------------------------------------------------------------------------------
// chain driver shared by the C13 variants: a factory-made main chain with elections
// ---------------------------------------------------------------------------------

type c13Chain struct {
	c     *Ctx
	net   *Net
	f     *Factory
	m     *c13Model
	chain []*types.Block // chain[h]
	// planned transactions by height (election traffic)
	plan map[uint32][]func(ts uint32) *types.Transaction
}

// c13Params draws the chain parameters of a run (swarm).
func c13Params(c *Ctx, maxN int) ChainParams {
	p := defaultParams(c)
	p.NDeputies = 1 + c.Draw("gen", maxN)
	switch c.Draw("gen", 4) {
	case 0:
		p.DeputyCount = p.NDeputies
	case 1:
		p.DeputyCount = p.NDeputies + 2
	case 2:
		p.DeputyCount = 1 + c.Draw("gen", p.NDeputies) // <= n: some genesis candidates are not deputies
	default:
		p.DeputyCount = p.NDeputies
	}
	p.SlotMs = []uint64{3000, 1000, 2000, 10000}[c.Draw("gen", 4)]
	p.TermDuration = uint32(6 + c.Draw("gen", 7))
	p.InterimDuration = uint32(1 + c.Draw("gen", 3))
	return p
}

func newC13Chain(c *Ctx, p ChainParams, factoryTag int) *c13Chain {
	net := NewNet(c, p)
	m := &c13Model{T: p.TermDuration, I: p.InterimDuration, SlotMs: int64(p.SlotMs), MaxDep: p.DeputyCount, byMiner: map[common.Address]*c13Ident{}}
	for _, d := range net.Deputies {
		m.addIdent(d.Node, d.Miner, d.Income)
	}
	f := net.NewFactory(factoryTag)
	gen := f.Blocks[net.GenBlock.Hash()]
	m.Terms = append(m.Terms, gen.DeputyNodes)
	return &c13Chain{c: c, net: net, f: f, m: m, chain: []*types.Block{gen}, plan: map[uint32][]func(uint32) *types.Transaction{}}
}

func (ch *c13Chain) head() *types.Block { return ch.chain[len(ch.chain)-1] }

// addNewcomer creates a fresh identity able to register as a candidate.
func (ch *c13Chain) addNewcomer() *c13Ident {
	i := len(ch.m.Idents)
	id := ch.m.addIdent(detKey(fmt.Sprintf("xnode%d", i)), detKey(fmt.Sprintf("xminer%d", i)), detKey(fmt.Sprintf("xincome%d", i)))
	key := id.Node.Key
	ch.c.W.Do(ch.f.Tag+1+id.Idx, "factory.key", func() { deputynode.SetSelfNodeKey(key) })
	return id
}

const c13Gas = 2000000

var c13GasPrice = big.NewInt(1000000000)

func (ch *c13Chain) voteTx(from *keyInfo, cand common.Address, ts uint32, salt string) *types.Transaction {
	tx := types.NewTransaction(from.Addr, cand, new(big.Int), c13Gas, c13GasPrice, nil, params.VoteTx, ch.net.P.ChainID, uint64(ts)+600, "", salt)
	return signTx(tx, from)
}

func (ch *c13Chain) transferTx(from *keyInfo, to common.Address, lemo string, ts uint32, salt string) *types.Transaction {
	tx := types.NewTransaction(from.Addr, to, common.Lemo2Mo(lemo), c13Gas, c13GasPrice, nil, params.OrdinaryTx, ch.net.P.ChainID, uint64(ts)+600, "", salt)
	return signTx(tx, from)
}

func (ch *c13Chain) registerTx(id *c13Ident, ts uint32) *types.Transaction {
	profile := map[string]string{
		types.CandidateKeyNodeID:        common.ToHex(id.Node.NodeID),
		types.CandidateKeyHost:          "127.0.0.1",
		types.CandidateKeyPort:          fmt.Sprintf("%d", 7100+id.Idx),
		types.CandidateKeyIncomeAddress: id.Income.Addr.String(),
		types.CandidateKeyIntroduction:  fmt.Sprintf("newcomer %d", id.Idx),
	}
	data, _ := json.Marshal(profile)
	tx := types.NoReceiverTransaction(id.Miner.Addr, common.Lemo2Mo("5000000"), c13Gas, c13GasPrice, data, params.RegisterTx, ch.net.P.ChainID, uint64(ts)+600, "", "")
	return signTx(tx, id.Miner)
}

// planElection schedules, for the term whose snapshot block is at height snap, election
// traffic in the blocks (lo .. snap-1]: the founder votes for a candidate (re-ranking) and /
// or a newcomer is funded, registers and is voted for (set change). The txgen of the lead
// can later replace this with richer traffic; the chain driver only needs plan[h].
func (ch *c13Chain) planElection(lo, snap uint32) string {
	c := ch.c
	if snap <= lo+1 {
		return "none"
	}
	span := int(snap - lo - 1) // usable heights lo+1 .. snap-1
	founder := ch.net.Founder
	switch c.Draw("gen", 4) {
	case 0:
		return "none"
	case 1: // re-rank: founder votes for an existing identity (genesis candidate or earlier newcomer)
		id := ch.m.Idents[c.Draw("gen", len(ch.m.Idents))]
		h := lo + 1 + uint32(c.Draw("gen", span))
		ch.plan[h] = append(ch.plan[h], func(ts uint32) *types.Transaction {
			return ch.voteTx(founder, id.Miner.Addr, ts, fmt.Sprintf("v%d", h))
		})
		return fmt.Sprintf("vote(%d)@%d", id.Idx, h)
	default: // newcomer registers (needs 2 heights), optionally voted for
		if span < 2 || len(ch.m.Idents) >= 12 {
			return "none"
		}
		id := ch.addNewcomer()
		h1 := lo + 1 + uint32(c.Draw("gen", span-1))
		h2 := h1 + 1 + uint32(c.Draw("gen", int(snap-1-h1)))
		ch.plan[h1] = append(ch.plan[h1], func(ts uint32) *types.Transaction {
			return ch.transferTx(founder, id.Miner.Addr, "6000000", ts, fmt.Sprintf("f%d", h1))
		})
		ch.plan[h2] = append(ch.plan[h2], func(ts uint32) *types.Transaction { return ch.registerTx(id, ts) })
		desc := fmt.Sprintf("register(%d)@%d,%d", id.Idx, h1, h2)
		if c.Chance("gen", 2, 3) {
			h3 := h2 + uint32(c.Draw("gen", int(snap-h2)))
			ch.plan[h3] = append(ch.plan[h3], func(ts uint32) *types.Transaction {
				return ch.voteTx(founder, id.Miner.Addr, ts, fmt.Sprintf("v%d", h3))
			})
			desc += fmt.Sprintf("+vote@%d", h3)
		}
		return desc
	}
}

// extend mines the next main-chain block by the identity with miner address `miner` at
// timestamp ts (seconds) and maintains the model's term table from the block content.
func (ch *c13Chain) extend(miner common.Address, ts uint32) (*types.Block, error) {
	parent := ch.head()
	h := parent.Height() + 1
	id := ch.m.ident(miner)
	if id == nil {
		return nil, fmt.Errorf("no identity for miner %s", miner.String())
	}
	var txs types.Transactions
	for _, mk := range ch.plan[h] {
		txs = append(txs, mk(ts))
	}
	blk, invalid, err := ch.f.Mine(id.Idx, parent, ts, txs, "")
	if err != nil {
		return nil, err
	}
	if len(invalid) > 0 {
		ch.c.Probe("election_tx_discarded")
	}
	if len(blk.Txs) > 0 {
		ch.c.Probe("election_tx_mined")
	}
	if h%ch.m.T == 0 {
		if len(blk.DeputyNodes) == 0 {
			return nil, fmt.Errorf("snapshot block %d carries no deputy nodes", h)
		}
		ch.m.Terms = append(ch.m.Terms, blk.DeputyNodes)
	}
	ch.chain = append(ch.chain, blk)
	return blk, nil
}

// close shuts the factory's store down so that no goroutine outlives the bubble.
func (ch *c13Chain) close() {
	ch.c.W.Do(ch.f.Tag, "factory.close", func() { ch.f.DB.Close() })
	ch.c.W.Sleep(2 * time.Second)
}

// chainLoader serves the main chain to a freshly built deputynode.Manager (restart path).
type chainLoader struct{ ch *c13Chain }

func (l chainLoader) GetBlockByHeight(height uint32) (*types.Block, error) {
	if int(height) >= len(l.ch.chain) {
		return nil, store.ErrBlockNotExist
	}
	return l.ch.chain[height], nil
}
