package harness

import (
	"fmt"
	"math/big"
	"strings"

	"github.com/LemoFoundationLtd/lemochain-core/chain/vm"
	"github.com/LemoFoundationLtd/lemochain-core/common"
)

// evmgen — tape-driven generators of contract byte code (DESIGN §3.6):
//
//	(i)   random bytes
//	(ii)  grammar: straight-line, stack-balanced statements with valid pushes and jumps
//	(iii) templates composing CALL/CALLCODE/DELEGATECALL/STATICCALL/CREATE/SELFDESTRUCT/LOG/SSTORE/
//	      REVERT/out-of-gas at a chosen position, recursion towards the depth limit, precompile calls
//
// All choices come from c.Draw(label, ·). Value 0 of every choice is the plain option.

type easm struct {
	b    []byte
	desc []string
	plain bool // no boundary operands (pushOperand)
}

func (a *easm) op(ops ...vm.OpCode) *easm {
	for _, o := range ops {
		a.b = append(a.b, byte(o))
	}
	return a
}

// push emits the shortest PUSHn for v (PUSH1 0 for zero).
func (a *easm) push(v uint64) *easm {
	if v == 0 {
		a.b = append(a.b, byte(vm.PUSH1), 0)
		return a
	}
	var buf []byte
	for x := v; x > 0; x >>= 8 {
		buf = append([]byte{byte(x)}, buf...)
	}
	a.b = append(a.b, byte(vm.PUSH1)+byte(len(buf)-1))
	a.b = append(a.b, buf...)
	return a
}

func (a *easm) pushBytes(p []byte) *easm {
	if len(p) == 0 {
		return a.push(0)
	}
	if len(p) > 32 {
		p = p[:32]
	}
	a.b = append(a.b, byte(vm.PUSH1)+byte(len(p)-1))
	a.b = append(a.b, p...)
	return a
}

func (a *easm) pushAddr(addr common.Address) *easm { return a.pushBytes(addr[:]) }

// push2 emits PUSH2 with a fixed width (used for jump targets that are patched later).
func (a *easm) push2(v int) *easm {
	a.b = append(a.b, byte(vm.PUSH2), byte(v>>8), byte(v))
	return a
}

func (a *easm) pc() int { return len(a.b) }

func (a *easm) note(format string, args ...interface{}) { a.desc = append(a.desc, fmt.Sprintf(format, args...)) }

// evmEnv is what the generators know about the world they generate for.
type evmEnv struct {
	Contracts []common.Address // callable contract addresses (the contract being generated may be among them)
	Others    []common.Address // EOAs / empty addresses (call targets, beneficiaries)
	Precomp   []common.Address
	Self      int // index of the contract being generated in Contracts (-1: init code / none)
}

var evmArith2 = []vm.OpCode{vm.ADD, vm.MUL, vm.SUB, vm.DIV, vm.SDIV, vm.MOD, vm.SMOD, vm.EXP, vm.SIGNEXTEND, vm.LT, vm.GT, vm.SLT, vm.SGT, vm.EQ, vm.AND, vm.OR, vm.XOR, vm.BYTE, vm.SHL, vm.SHR, vm.SAR}
var evmEnv0 = []vm.OpCode{vm.ADDRESS, vm.ORIGIN, vm.CALLER, vm.CALLVALUE, vm.CALLDATASIZE, vm.CODESIZE, vm.GASPRICE, vm.RETURNDATASIZE, vm.COINBASE, vm.TIMESTAMP, vm.NUMBER, vm.DIFFICULTY, vm.GASLIMIT, vm.PC, vm.MSIZE, vm.GAS}

func drawWord(c *Ctx, label string) uint64 {
	switch c.Draw(label, 5) {
	case 0:
		return uint64(c.Draw(label, 4))
	case 1:
		return uint64(c.Draw(label, 256))
	case 2:
		return uint64(c.Draw(label, 1<<16))
	case 3:
		return ^uint64(0) >> uint(c.Draw(label, 64))
	}
	return uint64(1) << uint(c.Draw(label, 64))
}

// pushOperand pushes plain, or (one time in `rarity`) a boundary value of the operand widths the
// interpreter converts between: 2^64-1 and its neighbours (uint64 wrap-around of offset+length),
// 2^63, 2^32 +- 1, 2^31, 2^64 (first value that does not fit), 2^255, 2^256-1.
func pushOperand(c *Ctx, label string, a *easm, plain uint64, rarity int) bool {
	// its own stream (label+"e"): adding boundary operands did not shift the older choices of a tape
	if a.plain || c.Draw(label+"e", rarity) != rarity-1 {
		a.push(plain)
		return false
	}
	switch c.Draw(label+"e", 10) {
	case 0:
		a.pushBytes([]byte{0xff, 0xff, 0xff, 0xff, 0xff, 0xff, 0xff, 0xff}) // 2^64-1
	case 1:
		a.push(^uint64(0) - uint64(c.Draw(label+"e", 65))) // just below 2^64
	case 2:
		a.push(uint64(1) << 63)
	case 3:
		a.push(uint64(1)<<63 - 1)
	case 4:
		a.push(uint64(1) << 32)
	case 5:
		a.push(uint64(1)<<32 - 1)
	case 6:
		a.push(uint64(1) << 31)
	case 7:
		a.pushBytes([]byte{1, 0, 0, 0, 0, 0, 0, 0, 0}) // 2^64
	case 8:
		b := make([]byte, 32)
		b[0] = 0x80
		a.pushBytes(b) // 2^255
	default:
		b := make([]byte, 32)
		for i := range b {
			b[i] = 0xff
		}
		a.pushBytes(b) // 2^256-1
	}
	return true
}

func (e *evmEnv) drawTarget(c *Ctx, label string) (common.Address, string) {
	switch k := c.Draw(label, 10); {
	case k < 5 && len(e.Contracts) > 0:
		i := c.Draw(label, len(e.Contracts))
		if i == e.Self {
			return e.Contracts[i], "self"
		}
		return e.Contracts[i], fmt.Sprintf("C%d", i)
	case k < 8 && len(e.Precomp) > 0:
		i := c.Draw(label, len(e.Precomp))
		return e.Precomp[i], fmt.Sprintf("precompile%d", e.Precomp[i][19])
	case len(e.Others) > 0:
		i := c.Draw(label, len(e.Others))
		return e.Others[i], fmt.Sprintf("eoa%d", i)
	}
	return common.BytesToAddress([]byte{0xee, byte(c.Draw(label, 4))}), "nobody"
}

// genStatement appends one stack-balanced statement.
func genStatement(c *Ctx, label string, a *easm, e *evmEnv, allowNested bool) {
	switch k := c.Draw(label, 20); {
	case k < 3: // SSTORE small key, small value (0 deletes)
		key, val := uint64(c.Draw(label, 4)), uint64(c.Draw(label, 4))
		a.push(val).push(key).op(vm.SSTORE)
		a.note("sstore(%d,%d)", key, val)
	case k < 4:
		key := uint64(c.Draw(label, 4))
		a.push(key).op(vm.SLOAD, vm.POP)
		a.note("sload(%d)", key)
	case k < 6: // LOGn
		n := c.Draw(label, 5)
		for i := 0; i < n; i++ {
			a.push(uint64(c.Draw(label, 4)))
		}
		pushOperand(c, label, a, uint64(c.Draw(label, 40)), 12)
		pushOperand(c, label, a, uint64(c.Draw(label, 40)), 12)
		a.op(vm.LOG0 + vm.OpCode(n))
		a.note("log%d", n)
	case k < 7:
		a.push(drawWord(c, label))
		pushOperand(c, label, a, uint64(c.Draw(label, 96)), 10)
		a.op([]vm.OpCode{vm.MSTORE, vm.MSTORE8}[c.Draw(label, 2)])
		a.note("mstore")
	case k < 9:
		op := evmArith2[c.Draw(label, len(evmArith2))]
		a.push(drawWord(c, label)).push(drawWord(c, label)).op(op, vm.POP)
		a.note("%s", strings.ToLower(op.String()))
	case k < 10:
		switch c.Draw(label, 4) {
		case 0:
			a.push(drawWord(c, label)).push(drawWord(c, label)).push(drawWord(c, label)).op([]vm.OpCode{vm.ADDMOD, vm.MULMOD}[c.Draw(label, 2)], vm.POP)
		case 1:
			a.push(drawWord(c, label)).op([]vm.OpCode{vm.ISZERO, vm.NOT, vm.CALLDATALOAD, vm.MLOAD, vm.BLOCKHASH}[c.Draw(label, 5)], vm.POP)
		case 2:
			t, _ := e.drawTarget(c, label)
			a.pushAddr(t).op([]vm.OpCode{vm.BALANCE, vm.EXTCODESIZE}[c.Draw(label, 2)], vm.POP)
		default:
			pushOperand(c, label, a, uint64(c.Draw(label, 64)), 8)
			pushOperand(c, label, a, uint64(c.Draw(label, 64)), 8)
			a.op(vm.SHA3, vm.POP)
		}
		a.note("misc")
	case k < 11:
		a.op(evmEnv0[c.Draw(label, len(evmEnv0))], vm.POP)
		a.note("env")
	case k < 12: // copies, sometimes with absurd sizes (gas overflow / out of gas)
		size := uint64(c.Draw(label, 64))
		if c.Draw(label, 6) == 5 {
			size = drawWord(c, label)
		}
		// operands: size, source offset, memory offset; the source offset (and rarely the memory offset) takes
		// boundary values of the 64-bit conversion, with small sizes so that the memory gas stays affordable
		kind := c.Draw(label, 4)
		var target common.Address
		if kind == 2 {
			target, _ = e.drawTarget(c, label)
		}
		srcPlain := uint64(c.Draw(label, 64))
		if kind == 3 {
			srcPlain = srcPlain % 8
		}
		memPlain := uint64(c.Draw(label, 64))
		edge := false
		if !a.plain && c.Draw(label+"e", 5) == 4 {
			// wrap-around pair: source offset just below 2^64 and a size that carries offset+size to 0..2
			k := uint64(c.Draw(label+"e", 8))
			a.push(k + 1 + uint64(c.Draw(label+"e", 3))).push(^uint64(0) - k)
			edge = true
		} else {
			a.push(size)
			edge = pushOperand(c, label, a, srcPlain, 4)
		}
		edge = pushOperand(c, label, a, memPlain, 16) || edge
		switch kind {
		case 0:
			a.op(vm.CALLDATACOPY)
		case 1:
			a.op(vm.CODECOPY)
		case 2:
			a.pushAddr(target).op(vm.EXTCODECOPY)
		default:
			a.op(vm.RETURNDATACOPY)
		}
		if edge {
			a.note("copy#%d(edge operand)", kind)
		} else {
			a.note("copy")
		}
	case k < 13: // bounded countdown loop
		n := uint64(1 + c.Draw(label, 6))
		a.push(n)
		dest := a.pc()
		a.op(vm.JUMPDEST).push(1).op(vm.SWAP1, vm.SUB, vm.DUP1).push2(dest).op(vm.JUMPI, vm.POP)
		a.note("loop(%d)", n)
	case k < 14: // forward jump over a dead byte
		at := a.pc()
		a.push2(at + 5).op(vm.JUMP).op(vm.OpCode(0xfe)).op(vm.JUMPDEST)
		a.note("jump")
	case k < 18 && allowNested:
		genCall(c, label, a, e)
	case k < 19 && allowNested:
		genCreate(c, label, a, e)
	default:
		a.push(drawWord(c, label)).op(vm.POP)
		a.note("push/pop")
	}
}

// genCall appends a CALL-family statement (template iii).
func genCall(c *Ctx, label string, a *easm, e *evmEnv) {
	kind := []vm.OpCode{vm.CALL, vm.STATICCALL, vm.DELEGATECALL, vm.CALLCODE}[c.Draw(label, 4)]
	target, tname := e.drawTarget(c, label)
	inSize, inOff := uint64(c.Draw(label, 4))*32, uint64(c.Draw(label, 2))*32
	if c.Draw(label, 4) == 3 { // put something recognisable into the input region
		a.push(drawWord(c, label)).push(inOff).op(vm.MSTORE)
	}
	retSize, retOff := uint64(c.Draw(label, 3))*32, uint64(64+c.Draw(label, 2)*32)
	a.push(retSize).push(retOff).push(inSize).push(inOff)
	value := uint64(0)
	if kind == vm.CALL || kind == vm.CALLCODE {
		value = []uint64{0, 0, 1, 1000, 1 << 62}[c.Draw(label, 5)]
		a.push(value)
	}
	a.pushAddr(target)
	gasMode := c.Draw(label, 4)
	switch gasMode {
	case 0:
		a.op(vm.GAS)
	case 1:
		a.push(uint64(1 + c.Draw(label, 3000)))
	case 2:
		a.push(100000)
	default:
		a.push(^uint64(0))
	}
	a.op(kind)
	// keep the success flag: either drop it or record it in storage (so that state depends on it)
	if c.Draw(label, 3) == 1 {
		a.push(uint64(8 + c.Draw(label, 2))).op(vm.SSTORE)
	} else {
		a.op(vm.POP)
	}
	a.note("%s(%s,value=%d,gas#%d)", strings.ToLower(kind.String()), tname, value, gasMode)
}

// genCreate appends CREATE with a short init code (<= 32 bytes, placed in memory by one MSTORE).
func genCreate(c *Ctx, label string, a *easm, e *evmEnv) {
	init := &easm{}
	sub := &evmEnv{Contracts: e.Contracts, Others: e.Others, Precomp: e.Precomp, Self: -1}
	n := c.Draw(label, 3)
	for i := 0; i < n && init.pc() < 20; i++ {
		genStatement(c, label, init, sub, false)
	}
	genTerminator(c, label, init, sub)
	code := init.b
	if len(code) > 32 {
		code = code[:32]
	}
	a.pushBytes(code).push(0).op(vm.MSTORE)
	value := []uint64{0, 0, 1, 1 << 62}[c.Draw(label, 4)]
	a.push(uint64(len(code))).push(uint64(32 - len(code))).push(value).op(vm.CREATE)
	if c.Draw(label, 3) == 1 {
		a.push(10).op(vm.SSTORE)
	} else {
		a.op(vm.POP)
	}
	a.note("create(%x,value=%d)", code, value)
}

func genTerminator(c *Ctx, label string, a *easm, e *evmEnv) {
	switch c.Draw(label, 12) {
	case 0, 1, 2:
		a.op(vm.STOP)
		a.note("stop")
	case 3, 4:
		size := uint64(c.Draw(label, 3)) * 32
		if c.Draw(label+"e", 6) == 5 {
			// around the maximum contract code size (a creation that returns more fails AFTER its init code ran fine)
			size = []uint64{24576, 24577, 24577, 40000}[c.Draw(label+"e", 4)]
		}
		a.push(size)
		pushOperand(c, label, a, uint64(c.Draw(label, 3))*32, 16)
		a.op(vm.RETURN)
		a.note("return(%d)", size)
	case 5, 6:
		a.push(uint64(c.Draw(label, 3)) * 32).push(0).op(vm.REVERT)
		a.note("revert")
	case 7:
		a.op(vm.OpCode(0xfe))
		a.note("invalid")
	case 8:
		t, tn := e.drawTarget(c, label)
		a.pushAddr(t).op(vm.SELFDESTRUCT)
		a.note("selfdestruct(%s)", tn)
	case 9: // burn all gas
		d := a.pc()
		a.op(vm.JUMPDEST).push2(d).op(vm.JUMP)
		a.note("spin")
	case 10:
		a.op(vm.POP) // stack underflow
		a.note("underflow")
	default:
		a.note("falloff")
	}
}

// genCode draws the code of one contract. It returns the code and a one-line description.
func genCode(c *Ctx, label string, e *evmEnv) ([]byte, string) {
	switch k := c.Draw(label, 10); {
	case k == 7: // (i) random bytes
		n := 1 + c.Draw(label, 48)
		b := make([]byte, n)
		c.T.Bytes(label, b)
		return b, fmt.Sprintf("random(%d bytes)", n)
	case k == 8: // (i') random opcodes biased to valid ones with small pushes
		a := &easm{}
		n := 2 + c.Draw(label, 30)
		for i := 0; i < n; i++ {
			if c.Draw(label, 3) == 0 {
				a.push(uint64(c.Draw(label, 256)))
			} else {
				a.op(vm.OpCode(c.Draw(label, 256)))
			}
		}
		return a.b, fmt.Sprintf("randomops(%d)", n)
	case k == 9 && e.Self >= 0: // (iii) recursion towards the depth limit: optional write, then call self with all gas
		a := &easm{plain: true} // may run with an astronomic gas limit: no operand that makes gigabytes of memory affordable
		if c.Draw(label, 2) == 1 {
			a.push(1).push(0).op(vm.SSTORE)
		}
		kind := []vm.OpCode{vm.CALL, vm.DELEGATECALL, vm.CALLCODE, vm.STATICCALL}[c.Draw(label, 4)]
		a.push(0).push(0).push(0).push(0)
		if kind == vm.CALL || kind == vm.CALLCODE {
			a.push(0)
		}
		a.op(vm.ADDRESS, vm.GAS, kind)
		if c.Draw(label, 2) == 1 {
			a.push(1).op(vm.SSTORE) // slot 1 := success flag of the inner call
		} else {
			a.op(vm.POP)
		}
		genTerminator(c, label, a, e)
		return a.b, "recurse-" + strings.ToLower(kind.String()) + " " + a.desc[len(a.desc)-1]
	}
	// (ii)+(iii) statements
	a := &easm{}
	n := c.Draw(label, 7)
	for i := 0; i < n; i++ {
		genStatement(c, label, a, e, true)
	}
	genTerminator(c, label, a, e)
	return a.b, strings.Join(a.desc, "; ")
}

// genInput draws call data.
func genInput(c *Ctx, label string, target common.Address) []byte {
	// structured inputs for the precompiles that parse their input
	if target == common.BytesToAddress([]byte{9}) && c.Draw(label, 3) != 2 {
		term := c.Draw(label, 3)
		val := []string{"1000000000000000000", "0", "900000000000000000000000000", "-5", "x"}[c.Draw(label, 5)]
		return []byte(fmt.Sprintf(`{"term":"0x%x","value":"%s"}`, term, val))
	}
	if target == common.BytesToAddress([]byte{5}) && c.Draw(label, 2) == 0 { // modexp: three lengths then data
		out := make([]byte, 96)
		for i := 0; i < 3; i++ {
			l := new(big.Int).SetUint64(drawWord(c, label) % 70)
			if c.Draw(label, 8) == 7 {
				l.Lsh(l, uint(c.Draw(label, 200)))
			}
			lb := l.Bytes()
			copy(out[32*i+32-len(lb):32*i+32], lb)
		}
		tail := make([]byte, c.Draw(label, 100))
		c.T.Bytes(label, tail)
		return append(out, tail...)
	}
	n := []int{0, 4, 32, 36, 64, 68, 128, 192, 200}[c.Draw(label, 9)]
	b := make([]byte, n)
	switch c.Draw(label, 3) {
	case 0:
	case 1:
		for i := range b {
			b[i] = byte(c.Draw(label, 3))
		}
	default:
		c.T.Bytes(label, b)
	}
	return b
}
