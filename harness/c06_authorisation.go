package harness

import (
	"bytes"
	"encoding/json"
	"fmt"
	"math/big"
	"regexp"
	"strconv"
	"strings"
	"time"

	"github.com/LemoFoundationLtd/lemochain-core/chain/account"
	"github.com/LemoFoundationLtd/lemochain-core/chain/params"
	"github.com/LemoFoundationLtd/lemochain-core/chain/types"
	"github.com/LemoFoundationLtd/lemochain-core/common"
	"github.com/LemoFoundationLtd/lemochain-core/common/crypto"
)

// C06 Only authorised transactions change state. Honest clients sign transactions
// (plain, multi-signature, reimbursed-gas, box-wrapped); every signing act goes into a
// ledger keyed by CONTENT. An adversary who sees the signed transactions derives
// variants (tampered fields with the original signatures, dropped / repeated / foreign
// signatures, multisig subsets and multisets around weight 100, gas terms changed after
// the payer signed ...). Variants reach the chain through the honest miner (pool path)
// and, for signature-set variants, inside a Byzantine deputy's block given to a
// validator. Oracle: every transaction that became effective was authorised, per the
// ledger and the account's signer configuration in the parent state.

func contentKey(f types.VerifTxFields, withGasTerms bool) string {
	to, payer := "nil", "nil"
	if f.To != nil {
		to = f.To.Hex()
	}
	if f.GasPayer != nil {
		payer = f.GasPayer.Hex()
	}
	data := common.ToHex(f.Data)
	if f.Type == params.BoxTx {
		if box, err := types.GetBox(f.Data); err == nil {
			var subs []string
			for _, st := range box.SubTxList {
				sf := st.VerifFields()
				subs = append(subs, contentKey(sf, true)+"#"+sigsKey(sf.Sigs)+"#"+sigsKey(sf.GasPayerSigs))
			}
			data = "box[" + strings.Join(subs, "|") + "]"
		}
	}
	gas := "-"
	if withGasTerms {
		gas = fmt.Sprintf("%s/%d", f.GasPrice, f.GasLimit)
	}
	return fmt.Sprintf("%d/%d/%d/%s/%s/%s/%s/%s/%s/%s/%d/%s", f.Type, f.Version, f.ChainID, f.From.Hex(), payer, to, f.ToName, gas, f.Amount, data, f.Expiration, f.Message)
}

func sigsKey(sigs [][]byte) string {
	var s []string
	for _, x := range sigs {
		s = append(s, common.ToHex(x))
	}
	return strings.Join(s, ",")
}

func payerKey(f types.VerifTxFields) string {
	return fmt.Sprintf("%s/%s/%d", sigsKey(f.Sigs), f.GasPrice, f.GasLimit)
}

// c06Ledger records every honest signature: signature bytes -> who signed what in which role.
type c06Entry struct {
	Role   string
	Signer common.Address
	Key    string
}
type c06Ledger map[string]c06Entry

func (l c06Ledger) addSig(sig []byte, role string, signer common.Address, key string) {
	l[string(sig)] = c06Entry{role, signer, key}
}

var signerRe = regexp.MustCompile(`\{Addr: (0x[0-9a-fA-F]+), Weight: (\d+)\}`)

func parseSigners(s string) map[common.Address]int {
	out := map[common.Address]int{}
	for _, m := range signerRe.FindAllStringSubmatch(s, -1) {
		w, _ := strconv.Atoi(m[2])
		out[common.HexToAddress(m[1])] = w
	}
	return out
}

// authorised decides whether the signatures ATTACHED to a transaction are honest
// signatures of exactly this content by the account itself (plain account) or by distinct
// registered signers of total weight >= 100 (multi-signature account, configuration from
// the parent state). Unknown, foreign, repeated or re-purposed signatures add nothing.
func (l c06Ledger) authorised(sigs [][]byte, roles []string, keys []string, acct common.Address, cfg map[common.Address]int) (bool, string) {
	who := map[common.Address]bool{}
	for _, sig := range sigs {
		e, ok := l[string(sig)]
		if !ok {
			continue
		}
		for i, r := range roles {
			if e.Role == r && e.Key == keys[i] {
				who[e.Signer] = true
			}
		}
	}
	if len(cfg) == 0 {
		if who[acct] {
			return true, ""
		}
		return false, fmt.Sprintf("none of its %d signatures is a signature of plain account %s over this content", len(sigs), acct.Hex()[:12])
	}
	total := 0
	n := 0
	for a, w := range cfg {
		if who[a] {
			total += w
			n++
		}
	}
	if total >= 100 {
		return true, ""
	}
	return false, fmt.Sprintf("multi-signature account %s: its %d signatures come from %d distinct registered signers of this content, total weight %d < 100 (config %s)", acct.Hex()[:12], len(sigs), n, total, cfgString(cfg))
}

func cfgString(cfg map[common.Address]int) string {
	var parts []string
	for a, w := range cfg {
		parts = append(parts, fmt.Sprintf("%s:%d", a.Hex()[:10], w))
	}
	sortStrings(parts)
	return strings.Join(parts, " ")
}

type c06Variant struct {
	Tx    *types.Transaction
	Label string
	SigOnly bool
}

func c06Scenario(c *Ctx) {
	p := defaultParams(c)
	p.NDeputies = 1 + c.Draw("cfg", 3)
	p.DeputyCount = p.NDeputies
	p.NUsers = 6
	net := NewNet(c, p)
	f := net.NewFactory(40)
	nut := net.AddNode(1, "nut", detKey("observer1"))
	if !nut.StartNode() {
		c.Fail("C06/harness/start", "node did not start")
		return
	}
	ledger := c06Ledger{}
	outsider := detKey("c06-outsider")
	signer := types.MakeSigner()
	seq := 0
	msg := func() string { seq++; return fmt.Sprintf("c06-%d", seq) }
	U := net.Users
	// honest signing helpers (record every act)
	signDefault := func(tx *types.Transaction, ks ...*keyInfo) *types.Transaction {
		out := tx
		for _, k := range ks {
			s, err := signer.SignTx(out, k.Key)
			if err != nil {
				panic(err)
			}
			out = s
			ledger.addSig(out.Sigs()[len(out.Sigs())-1], "sender", k.Addr, contentKey(tx.VerifFields(), true))
		}
		return out
	}
	parent := f.Blocks[net.GenBlock.Hash()]
	mine := func(cands types.Transactions) (*types.Block, types.Transactions) {
		c.W.Sleep(time.Duration(p.SlotMs-300) * time.Millisecond)
		now := time.Now().Unix()
		d := net.nextDeputy(parent, now)
		blk, inv, err := f.Mine(d, parent, uint32(now), cands, "")
		if err != nil || blk == nil {
			return nil, nil
		}
		return blk, inv
	}
	// block 1: funding
	now := time.Now().Unix() + 3
	var fund types.Transactions
	for i, u := range U {
		tx := types.NewTransaction(net.Founder.Addr, u.Addr, lemo(int64(5000+i)), 100000, big.NewInt(1e9), nil, params.OrdinaryTx, p.ChainID, uint64(now+900), "", msg())
		fund = append(fund, signDefault(tx, net.Founder))
	}
	b1, _ := mine(fund)
	if b1 == nil {
		return
	}
	nut.InsertBlock(wireCopyBlock(b1))
	parent = b1
	// block 2: two multi-signature accounts (U0, U1) with tape-drawn configurations
	cfgs := [][]int{{50, 50, 34}, {60, 60}, {100, 1}, {34, 34, 34}, {99, 1, 1}, {50, 50}}
	msig := map[common.Address][]msigner{}
	now = time.Now().Unix() + 3
	var setup types.Transactions
	for a := 0; a < 2; a++ {
		cfg := cfgs[c.Draw("gen", len(cfgs))]
		var ss types.Signers
		var ms []msigner
		for i, w := range cfg {
			k := U[2+((a+i)%4)]
			ss = append(ss, types.SignAccount{Address: k.Addr, Weight: uint8(w)})
			ms = append(ms, msigner{k, uint8(w)})
		}
		data, _ := json.Marshal(map[string]interface{}{"signers": ss})
		tx := types.NewTransaction(U[a].Addr, U[a].Addr, big.NewInt(0), 300000, big.NewInt(1e9), data, params.ModifySignersTx, p.ChainID, uint64(now+900), "", msg())
		setup = append(setup, signDefault(tx, U[a]))
		msig[U[a].Addr] = ms
	}
	b2, inv2 := mine(setup)
	if b2 == nil || len(inv2) > 0 {
		c.Probe("multisig_setup_failed")
		return
	}
	nut.InsertBlock(wireCopyBlock(b2))
	parent = b2
	effective, variantsTried := 0, 0
	labelsEffective := map[string]int{}
	rounds := 2 + c.Draw("gen", 3)
	for r := 0; r < rounds && !c.Failed(); r++ {
		now = time.Now().Unix() + 3
		// honest transactions of this round
		var honest []*types.Transaction
		nh := 1 + c.Draw("gen", 2)
		for i := 0; i < nh; i++ {
			from := U[c.Draw("gen", len(U))]
			to := U[c.Draw("gen", len(U))].Addr
			amt := big.NewInt(int64(1000 + c.Draw("gen", 1000)))
			switch c.Draw("gen", 3) {
			case 0, 1: // default-form transfer (plain or multisig sender)
				tx := types.NewTransaction(from.Addr, to, amt, 100000, big.NewInt(1e9), nil, params.OrdinaryTx, p.ChainID, uint64(now+600), "", msg())
				if ms, ok := msig[from.Addr]; ok {
					var ks []*keyInfo
					tot := 0
					partial := c.Draw("gen", 3) == 0 // only some signers have signed so far
					for _, m := range ms {
						ks = append(ks, m.K)
						tot += int(m.W)
						if tot >= 100 || partial {
							break
						}
					}
					if partial {
						c.Fault("partially_signed_multisig_tx_in_circulation")
					}
					honest = append(honest, signDefault(tx, ks...))
				} else {
					honest = append(honest, signDefault(tx, from))
				}
			default: // reimbursed: plain sender, plain payer
				fi := c.Draw("gen", 4)
				from = U[2+fi]
				payer := U[2+(fi+1+c.Draw("gen", 3))%4] // usually someone else
				if c.Draw("selfpay", 5) == 4 {
					payer = from // the reimbursement flow used by the sender for itself: both roles signed by one key
					c.Fault("reimbursed_tx_paid_by_its_own_sender")
				}
				tx := types.NewReimbursementTransaction(from.Addr, to, payer.Addr, amt, nil, params.OrdinaryTx, p.ChainID, uint64(now+600), "", msg())
				s1, err := types.MakeReimbursementTxSigner().SignTx(tx, from.Key)
				if err != nil {
					panic(err)
				}
				ledger.addSig(s1.Sigs()[0], "sender-reimb", from.Addr, contentKey(tx.VerifFields(), false))
				s1 = types.GasPayerSignatureTx(s1, big.NewInt(1e9), 100000)
				s2, err := types.MakeGasPayerSigner().SignTx(s1, payer.Key)
				if err != nil {
					panic(err)
				}
				ledger.addSig(s2.GasPayerSigs()[0], "payer", payer.Addr, payerKey(s1.VerifFields()))
				honest = append(honest, s2)
			}
		}
		// the adversary's variants
		var vars []c06Variant
		for _, h := range honest {
			nv := 1 + c.Draw("gen", 3)
			for i := 0; i < nv; i++ {
				if v := c06Derive(c, net, h, outsider); v != nil {
					vars = append(vars, *v)
				}
			}
		}
		variantsTried += len(vars)
		// miner path: variants first (so that an accepted variant is not shadowed), honest ones sometimes
		var cands types.Transactions
		for _, v := range vars {
			cands = append(cands, v.Tx)
		}
		if c.Draw("gen", 2) == 0 {
			for _, h := range honest {
				cands = append(cands, h)
			}
		}
		// signer configuration in the parent state (before this block)
		cfgOf := map[common.Address]map[common.Address]int{}
		c.W.Do(f.Tag, "signers", func() {
			am := account.NewManager(parent.Hash(), f.DB)
			for _, u := range U {
				d := DumpAccount(f.DB, am, parent.Hash(), u.Addr, nil)
				cfgOf[u.Addr] = parseSigners(d["signers"])
			}
		})
		blk, _ := mine(cands)
		if blk == nil {
			continue
		}
		check := func(b *types.Block, how string) bool {
			_, txs := executedPayloads(b)
			for _, tx := range txs {
				fl := tx.VerifFields()
				effective++
				// which flow the statement's rules put this transaction in: with payer signatures attached the sender
				// authorises the content WITHOUT the gas terms (reimbursement hash) and the payer authorises the gas
				// terms, also when both are the same account; without them the sender authorises everything
				payerOther := fl.GasPayer != nil && *fl.GasPayer != fl.From
				reimbFlow := len(fl.GasPayerSigs) > 0
				roles := []string{"sender"}
				keys := []string{contentKey(fl, true)}
				if reimbFlow {
					roles = []string{"sender-reimb"}
					keys = []string{contentKey(fl, false)}
				} else if payerOther {
					roles = append(roles, "sender-reimb")
					keys = append(keys, contentKey(fl, false))
				}
				// "repeating one [signature] ... makes the transaction ineffective"
				seenSigner := map[common.Address]bool{}
				for _, sig := range fl.Sigs {
					if e, ok := ledger[string(sig)]; ok {
						if seenSigner[e.Signer] {
							lab := c06LabelOf(vars, tx)
							c.Fail("C06/repeated-signature-effective/"+lab, "%s block %d: transaction (from %s msg %q) took effect although it carries the signature of %s twice (%d signatures); variant: %s", how, b.Height(), fl.From.Hex()[:12], fl.Message, e.Signer.Hex()[:12], len(fl.Sigs), lab)
							return false
						}
						seenSigner[e.Signer] = true
					}
				}
				if ok, why := ledger.authorised(fl.Sigs, roles, keys, fl.From, cfgOf[fl.From]); !ok {
					lab := c06LabelOf(vars, tx)
					c.Fail("C06/unauthorised/sender/"+lab, "%s block %d: transaction (type %d from %s amount %s msg %q, %d sigs) took effect but %s; variant: %s", how, b.Height(), fl.Type, fl.From.Hex()[:12], fl.Amount, fl.Message, len(fl.Sigs), why, lab)
					return false
				}
				if payerOther || reimbFlow {
					payerAddr := fl.From
					if fl.GasPayer != nil {
						payerAddr = *fl.GasPayer
					}
					if ok, why := ledger.authorised(fl.GasPayerSigs, []string{"payer"}, []string{payerKey(fl)}, payerAddr, cfgOf[payerAddr]); !ok {
						lab := c06LabelOf(vars, tx)
						c.Fail("C06/unauthorised/gas-payer/"+lab, "%s block %d: transaction (from %s, gas payer %s, price %s limit %d) took effect but the payer did not authorise these gas terms: %s; variant: %s", how, b.Height(), fl.From.Hex()[:12], payerAddr.Hex()[:12], fl.GasPrice, fl.GasLimit, why, lab)
						return false
					}
				}
				if lab := c06LabelOf(vars, tx); lab != "honest" {
					labelsEffective[lab]++
				}
			}
			return true
		}
		if !check(blk, "honest miner's") {
			return
		}
		_, ierr := nut.InsertBlock(wireCopyBlock(blk))
		// validator path: swap an included honest transaction for a signature-set variant,
		// recompute the tx root and let the in-turn deputy sign it (Byzantine deputy)
		if ierr == nil && c.Draw("gen", 2) == 0 {
			for _, v := range vars {
				if !v.SigOnly {
					continue
				}
				for i, tx := range blk.Txs {
					if contentKey(tx.VerifFields(), true) == contentKey(v.Tx.VerifFields(), true) && tx.Hash() != v.Tx.Hash() {
						bz := wireCopyBlock(blk)
						vt := wireCopyTx(v.Tx)
						vt.SetGasUsed(tx.GasUsed())
						bz.Txs[i] = vt
						bz.Header.TxRoot = bz.Txs.MerkleRootSha()
						bz.Header.Extra = "byz"
						dep := net.DeputyByMiner(bz.MinerAddress())
						h := bz.Header.Hash()
						sig, _ := crypto.Sign(h[:], dep.Node.Key)
						bz.Header.SignData = sig
						c.Fault("byzantine_block_with_sig_variant")
						if _, err := nut.InsertBlock(bz); err == nil {
							if !check(bz, "validator-accepted Byzantine") {
								return
							}
						}
						break
					}
				}
			}
		}
		parent = blk
	}
	c.Nontrivial = variantsTried >= 2 && effective >= 2
	c.Sample = map[string]interface{}{"deputies": p.NDeputies, "rounds": rounds, "variants_offered": variantsTried, "effective_txs": effective, "effective_variants": labelsEffective}
}

func c06LabelOf(vars []c06Variant, tx *types.Transaction) string {
	for _, v := range vars {
		if v.Tx.Hash() == tx.Hash() {
			return v.Label
		}
	}
	return "honest"
}

// c06Derive makes one adversarial variant of an honestly signed transaction.
func c06Derive(c *Ctx, net *Net, h *types.Transaction, outsider *keyInfo) *c06Variant {
	f := h.VerifFields()
	other := net.Users[c.Draw("gen", len(net.Users))].Addr
	reimb := len(f.GasPayerSigs) > 0
	k := c.Draw("gen", 16)
	if c.Draw("nonce2", 8) == 7 {
		k = 100
	}
	if c.Draw("v27", 10) == 9 {
		k = 101
	}
	lab := ""
	sigOnly := false
	switch k {
	case 101:
		// the recovery byte written the Ethereum way (27/28 instead of 0/1): other bytes, other transaction hash
		if len(f.Sigs) == 0 || f.Sigs[0][64] > 1 {
			return nil
		}
		f.Sigs[0] = common.CopyBytes(f.Sigs[0])
		f.Sigs[0][64] += 27
		lab = "recovery-byte-plus-27"
		sigOnly = true
	case 100:
		// one signer signs the same content a second time with another nonce: other signature bytes, same
		// signer. Honest tooling never does it (signing is deterministic); the bytes are not a repeat.
		if len(f.Sigs) == 0 {
			return nil
		}
		i := c.Draw("nonce2", len(f.Sigs))
		var hash common.Hash
		if reimb {
			hash = types.MakeReimbursementTxSigner().Hash(h)
		} else {
			hash = types.MakeSigner().Hash(h)
		}
		pub, err := crypto.SigToPub(hash[:], f.Sigs[i])
		if err != nil {
			return nil
		}
		key := keyByAddress(crypto.PubkeyToAddress(*pub))
		if key == nil {
			return nil
		}
		var nb [32]byte
		c.T.Bytes("nonce2", nb[:])
		nb[31] |= 1
		sig2 := SignWithNonce(hash[:], key, new(big.Int).SetBytes(nb[:]))
		if sig2 == nil || bytes.Equal(sig2, f.Sigs[i]) {
			return nil
		}
		if len(f.Sigs) > 1 {
			j := (i + 1) % len(f.Sigs)
			f.Sigs[j] = sig2
			lab = "second-signature-of-one-signer-replacing-another"
		} else {
			f.Sigs = append(f.Sigs, sig2)
			lab = "second-signature-of-one-signer-appended"
		}
		sigOnly = true
	case 0:
		f.Amount = new(big.Int).Add(f.Amount, big.NewInt(1+int64(c.Draw("gen", 1e6))))
		lab = "tamper-amount"
	case 1:
		f.To = &other
		lab = "tamper-recipient"
	case 2:
		f.GasPrice = new(big.Int).Mul(f.GasPrice, big.NewInt(2))
		lab = "tamper-gas-price"
	case 3:
		f.GasLimit += 1 + uint64(c.Draw("gen", 100000))
		lab = "tamper-gas-limit"
	case 4:
		f.Expiration += 1 + uint64(c.Draw("gen", 100))
		lab = "tamper-expiration"
	case 5:
		f.Message += "x"
		lab = "tamper-message"
	case 6:
		f.Data = append(f.Data, 1)
		lab = "tamper-data"
	case 7:
		f.From = other
		lab = "tamper-from"
	case 8:
		if len(f.Sigs) == 0 {
			return nil
		}
		i := c.Draw("gen", len(f.Sigs))
		f.Sigs = append(f.Sigs[:i:i], f.Sigs[i+1:]...)
		lab = "drop-signature"
		sigOnly = true
	case 9:
		if len(f.Sigs) == 0 {
			return nil
		}
		// repeat signatures: fewer distinct signers, same count (or more)
		i := c.Draw("gen", len(f.Sigs))
		if len(f.Sigs) > 1 {
			j := (i + 1) % len(f.Sigs)
			f.Sigs[j] = common.CopyBytes(f.Sigs[i])
			lab = "repeat-signature-replacing-another"
		} else {
			f.Sigs = append(f.Sigs, common.CopyBytes(f.Sigs[i]))
			lab = "repeat-signature-appended"
		}
		sigOnly = true
	case 10:
		if len(f.Sigs) < 2 {
			return nil
		}
		// keep one signer, fill the rest with copies (multiset reaching the count)
		for j := 1; j < len(f.Sigs); j++ {
			f.Sigs[j] = common.CopyBytes(f.Sigs[0])
		}
		f.Sigs = append(f.Sigs, common.CopyBytes(f.Sigs[0]))
		lab = "multiset-of-one-signer"
		sigOnly = true
	case 11:
		// foreign key signs the same content
		f.Sigs = nil
		f.GasPayerSigs = nil
		base := types.VerifNewTx(f)
		var s *types.Transaction
		var err error
		if reimb {
			s, err = types.MakeReimbursementTxSigner().SignTx(base, outsider.Key)
		} else {
			s, err = types.MakeSigner().SignTx(base, outsider.Key)
		}
		if err != nil {
			return nil
		}
		nf := s.VerifFields()
		nf.GasPayerSigs = h.VerifFields().GasPayerSigs
		f = nf
		lab = "foreign-key-signature"
		sigOnly = !reimb
	case 12:
		if !reimb {
			return nil
		}
		f.GasLimit *= 3
		f.GasPrice = new(big.Int).Mul(f.GasPrice, big.NewInt(5))
		lab = "gas-terms-changed-after-payer-signed"
	case 13:
		if !reimb {
			return nil
		}
		f.GasPayerSigs = nil
		lab = "payer-signature-removed"
	case 14:
		if !reimb {
			// make someone else pay without asking
			f.GasPayer = &other
			lab = "gas-payer-set-to-victim"
		} else {
			base := types.VerifNewTx(f)
			base2 := base.VerifFields()
			base2.GasPayerSigs = nil
			s, err := types.MakeGasPayerSigner().SignTx(types.VerifNewTx(base2), outsider.Key)
			if err != nil {
				return nil
			}
			f = s.VerifFields()
			lab = "payer-signature-by-foreign-key"
		}
	default:
		if len(f.Sigs) == 0 {
			return nil
		}
		f.Sigs[0] = ReencodeSig(f.Sigs[0])
		lab = "re-encoded-signature"
		sigOnly = true
	}
	c.Fault("variant_" + lab)
	return &c06Variant{Tx: types.VerifNewTx(f), Label: lab, SigOnly: sigOnly}
}

func init() {
	Register(&PropDef{
		ID: "C06", Variants: []string{"mixed"}, Scenario: c06Scenario,
		Rule: "setup blocks fund 6 accounts and turn two of them into multi-signature accounts with tape-drawn weight configurations ({50,50,34},{60,60},{100,1},{34,34,34},{99,1,1},{50,50}); then 2-4 rounds: 1-2 honestly signed transfers (plain, multisig, reimbursed-gas) each with 1-3 adversarial variants out of 16 operators (tamper amount/recipient/gas price/gas limit/expiration/message/data/from; drop, repeat, multiset, foreign-key or re-encoded signatures; gas terms changed after the payer signed; payer signature removed or foreign; victim set as gas payer); variants go to the honest miner ahead of the originals and, for signature-set variants, into a re-signed Byzantine block given to a validator; non-trivial = >=2 variants offered and >=2 transactions effective; distinct = event-log digests",
		Real: []string{"chain/transaction.TxProcessor (verifyTransactionSigs, checkSignersWeight)", "chain/types (three signing hashes, VerifyTxBody)", "chain/consensus", "chain/account", "store"},
		Stub: []string{"clients and adversary = harness; Byzantine deputy re-signs a modified honest block"},
		Assumptions: []string{"authorisation = ledger of honest signing acts keyed by content; signer configuration read from the parent block's state", "an input-sampling property made multi-party by the adversary; no schedule dimension"},
	})
}
