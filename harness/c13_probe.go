package harness

import (
	"fmt"
	"hash/fnv"

	"github.com/LemoFoundationLtd/lemochain-core/chain/consensus"
	"github.com/LemoFoundationLtd/lemochain-core/chain/deputynode"
	"github.com/LemoFoundationLtd/lemochain-core/chain/types"
	"github.com/LemoFoundationLtd/lemochain-core/common"

	"verif/simrt"
)

// C13 variant "probe": a factory-made chain over one or two term changes (elections that
// re-rank deputies and replace deputies); after every block the real scheduling functions
// are probed with that block as parent at tape-chosen instants and compared with the
// reference slot rule of c13_model.go.

type c13Prober struct {
	c   *Ctx
	ch  *c13Chain
	m   *c13Model
	dms []*deputynode.Manager // managers under test (factory's live one, reloaded ones)
	val []*consensus.Validator

	nProbes   int
	nBoundary int
	samples   []string
}

var c13Deltas = []int64{0, 1, -1, 1000, -1000, 999, 500, -500, 1001, -999}

// drawInstant draws an instant (ms) at or after the parent time pMs, biased to slot
// boundaries +-1 ms / +-1 s, after any number of elapsed rounds.
func (p *c13Prober) drawInstant(pMs int64, n int) (t int64, boundary bool) {
	c := p.c
	slot := p.m.SlotMs
	var q int64
	switch c.Draw("op", 6) {
	case 0:
		q = int64(c.Draw("op", n+1)) // first round and the start of the second
	case 1:
		q = int64(c.Draw("op", 3*n+2))
	case 2:
		q = int64(n) * int64(1+c.Draw("op", 5)) // exact round multiples
	case 3:
		q = int64(n)*int64(c.Draw("op", 1000)) + int64(c.Draw("op", n))
	case 4:
		q = int64(c.Draw("op", 1<<20)) // very late
	default:
		q = 1
	}
	var d int64
	if c.Chance("op", 1, 5) {
		d = int64(c.Draw("op", int(slot)))
	} else {
		d = c13Deltas[c.Draw("op", len(c13Deltas))]
		boundary = true
	}
	t = pMs + q*slot + d
	if t < pMs {
		t = pMs
	}
	return t, boundary
}

func probeHeader(parent *types.Header, miner common.Address, ts uint32) *types.Header {
	return &types.Header{ParentHash: parent.Hash(), MinerAddress: miner, Height: parent.Height + 1, Time: ts, GasLimit: parent.GasLimit}
}

// verifySet returns the ranks (and outsiders, as negative numbers) whose header stamped ts
// passes VerifyMiner on parent.
func (p *c13Prober) verifySet(v *consensus.Validator, parent *types.Header, ts uint32, act []*types.DeputyNode, outsiders []common.Address) (acc []int) {
	for r, d := range act {
		if v.VerifyMiner(probeHeader(parent, d.MinerAddress, ts), parent) == nil {
			acc = append(acc, r)
		}
	}
	for i, o := range outsiders {
		if v.VerifyMiner(probeHeader(parent, o, ts), parent) == nil {
			acc = append(acc, -1-i)
		}
	}
	return
}

func (p *c13Prober) outsiders(h uint32) []common.Address {
	out := []common.Address{p.ch.net.Founder.Addr, {}}
	act := p.m.active(h)
	// identities that exist but are not deputies of this term (cut off by DeputyCount or voted out)
	for _, id := range p.m.Idents {
		if rankOf(act, id.Miner.Addr) < 0 {
			out = append(out, id.Miner.Addr)
			if len(out) >= 4 {
				break
			}
		}
	}
	return out
}

// probeParent runs all oracles with `parent` as the parent block. It must run inside a task.
func (p *c13Prober) probeParent(parent *types.Header, synthetic bool) {
	c, m := p.c, p.m
	h := parent.Height + 1
	act := m.active(h)
	n := len(act)
	if n == 0 {
		return
	}
	pMs := int64(parent.Time) * 1000
	slot := m.SlotMs
	rp := m.parentRank(h, parent.MinerAddress)
	if rp == -2 {
		// a parent whose miner is not a deputy of the next block's term, away from a term start:
		// the statement defines no rank for it; only reachable with synthetic parents.
		c.Probe("parent_rank_undefined_skipped")
		return
	}
	if m.firstOfTerm(h) {
		if h == 1 {
			c.Probe("height_1")
		} else {
			c.Probe("reward_height")
			if rankOf(act, parent.MinerAddress) < 0 {
				c.Probe("parent_miner_not_deputy_at_term_start")
			} else if rankOf(m.active(h-1), parent.MinerAddress) != rankOf(act, parent.MinerAddress) {
				c.Probe("parent_miner_rank_changed_at_term_start")
			}
		}
	}
	which := c.Draw("op", len(p.dms))
	dm, val := p.dms[which], p.val[which]
	outs := p.outsiders(h)

	k := 1 + c.Draw("op", 3)
	for i := 0; i < k; i++ {
		t, boundary := p.drawInstant(pMs, n)
		p.nProbes++
		if boundary {
			p.nBoundary++
		}
		if (t-pMs)/slot >= int64(n) {
			c.Probe("elapsed_rounds>=1")
		}
		st := fnv.New64a()
		fmt.Fprintf(st, "%d/%d/%v/%d/%d/%d", n, slot, m.firstOfTerm(h), rp, ((t-pMs)/slot)%int64(n), (t-pMs)%slot)
		c.State(st.Sum64())
		simrt.Log("c13.probe", t-pMs, int64(h)<<8|int64(n), "")

		want, _ := m.entitled(h, parent.MinerAddress, pMs, t)
		ctx := func() string {
			return fmt.Sprintf("n=%d slot=%dms height=%d firstOfTerm=%v parentRank=%d parentTime=%d t=parent+%dms (slot #%d, %d ms into it) dm=%d synthetic=%v",
				n, slot, h, m.firstOfTerm(h), rp, parent.Time, t-pMs, (t-pMs)/slot, (t-pMs)%slot, which, synthetic)
		}

		// ---- GetCorrectMiner at millisecond granularity
		got, err := consensus.GetCorrectMiner(parent, t, slot, dm)
		if err != nil {
			c.Fail("C13/correct-miner/error", "GetCorrectMiner failed (%v) although rank %d is entitled: %s", err, want, ctx())
		} else if got != act[want].MinerAddress {
			c.Fail("C13/correct-miner/mismatch", "GetCorrectMiner names rank %d, the slot rule entitles rank %d: %s", rankOf(act, got), want, ctx())
		}

		// ---- oracle (i): exactly one deputy passes verification for a block stamped at that second
		ts := uint32(t / 1000)
		wantS, _ := m.entitled(h, parent.MinerAddress, pMs, int64(ts)*1000)
		acc := p.verifySet(val, parent, ts, act, outs)
		p.judgeAccepted(acc, wantS, "verify", fmt.Sprintf("stamp=%d (parent+%ds) %s", ts, ts-parent.Time, ctx()))

		// ---- oracle (ii): the window a deputy computes for itself
		r := c.Draw("op", n)
		me := act[r].MinerAddress
		now := t
		if c.Chance("op", 1, 12) {
			now = pMs - int64(1+c.Draw("op", 1000)) // own clock slightly behind the parent stamp
			c.Probe("now_before_parent_time")
		}
		dist, err := dm.GetMinerDistance(h, parent.MinerAddress, me)
		if err != nil {
			c.Fail("C13/window/distance-error", "GetMinerDistance failed (%v) for deputy rank %d: %s", err, r, ctx())
			continue
		}
		back, err := dm.GetDeputyByDistance(h, parent.MinerAddress, dist)
		if err != nil || back.MinerAddress != me {
			c.Fail("C13/agree/distance-roundtrip", "miner side GetMinerDistance(rank %d)=%d but verifier side GetDeputyByDistance(%d) gives rank %d (err %v): %s",
				r, dist, dist, rankOf(act, minerOf(back)), err, ctx())
		}
		from, to := consensus.GetNextMineWindow(h, dist, pMs, now, slot, dm)
		wf, wt, _ := m.ownWindow(h, parent.MinerAddress, pMs, now, r)
		if (wf-pMs)/(slot*int64(n)) >= 1 {
			c.Probe("window_in_later_round")
		}
		if from != wf || to != wt {
			sub := "misaligned"
			switch {
			case to <= now:
				sub = "already-ended"
			case to-from != slot:
				sub = "wrong-length"
			case from > wf:
				sub = "skips-an-open-slot"
			}
			c.Fail("C13/window/"+sub, "deputy rank %d computes window [parent+%d, parent+%d) at now=parent+%d ms (distance %d); its earliest slot that has not ended is [parent+%d, parent+%d): %s",
				r, from-pMs, to-pMs, now-pMs, dist, wf-pMs, wt-pMs, ctx())
			continue
		}
		// ---- oracle (iii): instants inside the window, stamped like PrepareHeader
		ins := []int64{from, from + 1, from + 999, from + slot/2, to - 1000, to - 1}
		x := from + int64(c.Draw("op", int(slot)))
		ins = append(ins, x)
		for _, u := range ins {
			if u < from || u >= to {
				continue
			}
			stamp := uint32(u / 1000)
			if stamp < parent.Time {
				stamp = parent.Time
			}
			acc := p.verifySet(val, parent, stamp, act, outs)
			p.judgeAccepted(acc, r, "window", fmt.Sprintf("own window [parent+%d,parent+%d) of rank %d, instant parent+%d ms stamped %d: %s", from-pMs, to-pMs, r, u-pMs, stamp, ctx()))
		}
		if len(p.samples) < 3 {
			p.samples = append(p.samples, fmt.Sprintf("h=%d n=%d slot=%ds rP=%d t=+%dms -> rank %d; rank %d window [+%d,+%d)", h, n, slot/1000, rp, t-pMs, want, r, from-pMs, to-pMs))
		}
	}
}

func minerOf(d *types.DeputyNode) common.Address {
	if d == nil {
		return common.Address{}
	}
	return d.MinerAddress
}

// judgeAccepted compares the set of accepted miners with the single entitled rank.
func (p *c13Prober) judgeAccepted(acc []int, want int, class, ctx string) {
	c := p.c
	okWant := false
	for _, a := range acc {
		switch {
		case a == want:
			okWant = true
		case a < 0:
			c.Fail("C13/"+class+"/outsider-accepted", "a miner that is not a deputy of the term passes VerifyMiner (outsider #%d); entitled rank %d; accepted %v: %s", -1-a, want, acc, ctx)
		default:
			c.Fail("C13/"+class+"/other-deputy-accepted", "deputy rank %d passes VerifyMiner although rank %d is entitled; accepted %v: %s", a, want, acc, ctx)
		}
	}
	if !okWant {
		c.Fail("C13/"+class+"/entitled-deputy-rejected", "the entitled deputy rank %d is rejected by VerifyMiner; accepted %v: %s", want, acc, ctx)
	}
}

func c13ProbeScenario(c *Ctx) {
	params := c13Params(c, 7)
	ch := newC13Chain(c, params, 40)
	m := ch.m
	p := &c13Prober{c: c, ch: ch, m: m}
	// managers under test: the factory's live manager (fed by SaveSnapshot as blocks are mined)
	p.dms = append(p.dms, ch.f.DM)
	p.val = append(p.val, consensus.NewValidator(uint64(m.SlotMs), nil, ch.f.DM, nil, nil))

	// how far the chain goes: into term 1 always, into term 2 sometimes
	length := int(m.T + m.I + 1 + uint32(c.Draw("gen", 4)))
	if c.Chance("gen", 1, 3) {
		length = int(2*m.T + m.I + 1 + uint32(c.Draw("gen", 3)))
	}
	el := []string{ch.planElection(0, m.T)}
	if length > int(2*m.T) {
		el = append(el, ch.planElection(m.T, 2*m.T))
	}

	c.W.Do(40, "probe", func() { p.probeParent(ch.head().Header, false) })
	for len(ch.chain) <= length && !c.Failed() {
		parent := ch.head()
		h := parent.Height() + 1
		act := m.active(h)
		if len(act) == 0 {
			c.Fail("C13/harness/no-term", "no deputies known for height %d", h)
			return
		}
		// next block: time gap and miner. Mostly in turn by the rule (a chain honest nodes would
		// accept), sometimes any deputy of the term ("all parent miners").
		pMs := int64(parent.Time()) * 1000
		var gap int64
		switch c.Draw("gen", 5) {
		case 0:
			gap = 0
		case 1:
			gap = int64(c.Draw("gen", int(m.SlotMs/1000)))
		case 2:
			gap = (m.SlotMs / 1000) * int64(c.Draw("gen", 2*len(act)+1))
		default:
			gap = int64(c.Draw("gen", int(m.SlotMs/1000)*(len(act)+1)))
		}
		ts := parent.Time() + uint32(gap)
		r, _ := m.entitled(h, parent.MinerAddress(), pMs, int64(ts)*1000)
		if c.Chance("gen", 1, 4) {
			r = c.Draw("gen", len(act))
			c.Probe("parent_mined_out_of_turn")
		}
		blk, err := ch.extend(act[r].MinerAddress, ts)
		if err != nil {
			c.Fail("C13/harness/mine", "factory could not mine height %d by rank %d: %v", h, r, err)
			return
		}
		if blk.Height()%m.T == 0 {
			// a node restarted now loads its terms from the chain: probe such a manager too
			c.W.Do(40, "reload-dm", func() {
				// managers reloaded earlier learn the new term as a running node does
				for _, old := range p.dms[1:] {
					old.SaveSnapshot(blk.Height(), blk.DeputyNodes)
				}
				dm2 := deputynode.NewManager(params.DeputyCount, chainLoader{ch})
				p.dms = append(p.dms, dm2)
				p.val = append(p.val, consensus.NewValidator(uint64(m.SlotMs), nil, dm2, nil, nil))
			})
			k := len(m.Terms) - 1
			if len(m.Terms[k]) != len(m.Terms[k-1]) {
				c.Probe("deputy_list_size_changed")
			}
			if fmt.Sprint(minersOf(m.active(blk.Height()+m.I+1))) != fmt.Sprint(minersOf(m.active(blk.Height()))) {
				c.Probe("deputy_set_or_order_changed")
			}
		}
		c.W.Do(40, "probe", func() {
			p.probeParent(blk.Header, false)
			// synthetic variation of the same parent: any deputy of the parent's term as its miner,
			// shifted timestamp (the probed functions read only height, time and miner of the parent)
			if c.Chance("op", 1, 2) {
				pa := m.active(blk.Height())
				syn := *blk.Header
				syn.MinerAddress = pa[c.Draw("op", len(pa))].MinerAddress
				syn.Time = blk.Time() + uint32(c.Draw("op", 3))
				p.probeParent(&syn, true)
			}
		})
	}
	ch.close()
	c.Nontrivial = p.nProbes >= 10 && p.nBoundary >= 1 && len(m.Terms) >= 2
	c.Sample = map[string]interface{}{
		"n": params.NDeputies, "deputyCount": params.DeputyCount, "slot_s": params.SlotMs / 1000, "term": params.TermDuration, "interim": params.InterimDuration,
		"blocks": len(ch.chain) - 1, "elections": el, "probes": p.nProbes, "examples": p.samples,
	}
}

func minersOf(l []*types.DeputyNode) []string {
	out := make([]string, len(l))
	for i, d := range l {
		out[i] = d.MinerAddress.Hex()[:10]
	}
	return out
}
