package harness

import (
	"fmt"
	"math/big"
	"strings"
	"time"

	"github.com/LemoFoundationLtd/lemochain-core/chain/params"
	"github.com/LemoFoundationLtd/lemochain-core/chain/types"
	"github.com/LemoFoundationLtd/lemochain-core/common"
)

// C04 Replay protection. The same signed payload is offered standalone, inside boxes,
// twice in a block, across blocks and forks, and with a re-encoded signature, in blocks
// fabricated by a (possibly Byzantine) deputy and through the client submit path of a
// mining node; block timestamps sweep the expiration window; stable advances prune the
// replay cache; the node restarts. Oracle: on the ancestor path of every block the node
// accepted or mined no authorisation payload is executed twice and every executed
// transaction satisfies block.time <= expiration <= block.time + 30 min.

// payloadKey identifies what the sender authorised: every signed field, no signatures.
func payloadKey(tx *types.Transaction) string {
	to := "nil"
	if tx.To() != nil {
		to = tx.To().Hex()
	}
	data := common.ToHex(tx.Data())
	if tx.Type() == params.BoxTx {
		if box, err := types.GetBox(tx.Data()); err == nil {
			var subs []string
			for _, st := range box.SubTxList {
				subs = append(subs, payloadKey(st))
			}
			data = "box[" + strings.Join(subs, "|") + "]"
		}
	}
	return fmt.Sprintf("%d/%d/%d/%s/%s/%s/%s/%s/%d/%s/%s/%d/%s", tx.Type(), tx.Version(), tx.ChainID(), tx.From().Hex(), tx.GasPayer().Hex(), to, tx.ToName(),
		tx.GasPrice(), tx.GasLimit(), tx.Amount(), data, tx.Expiration(), tx.Message())
}

// executedPayloads lists the payloads a block executes (standalone and box sub-transactions).
func executedPayloads(b *types.Block) (keys []string, txs []*types.Transaction) {
	keys, txs, _ = executedPayloadsAt(b)
	return
}

// executedPayloadsAt also tells in which top-level entry each payload sits (-1-i = inside box entry i).
func executedPayloadsAt(b *types.Block) (keys []string, txs []*types.Transaction, at []int) {
	for i, tx := range b.Txs {
		if tx.Type() == params.BoxTx {
			if box, err := types.GetBox(tx.Data()); err == nil {
				for _, st := range box.SubTxList {
					keys = append(keys, payloadKey(st))
					txs = append(txs, st)
					at = append(at, -1-i)
				}
			}
		}
		keys = append(keys, payloadKey(tx))
		txs = append(txs, tx)
		at = append(at, i)
	}
	return
}

func reencodeTx(tx *types.Transaction) *types.Transaction {
	// rebuild the same transaction with the other encoding of its (first) signature
	buf, err := rlpEncode(tx)
	if err != nil {
		panic(err)
	}
	sig := tx.Sigs()[0]
	alt := ReencodeSig(sig)
	idx := strings.Index(string(buf), string(sig))
	if idx < 0 {
		return nil
	}
	nb := append([]byte{}, buf...)
	copy(nb[idx:], alt)
	var out types.Transaction
	if err := rlpDecode(nb, &out); err != nil {
		return nil
	}
	return &out
}

type c04World struct {
	kind   map[common.Hash]string // how each non-original transaction hash was derived
	c      *Ctx
	net    *Net
	blocks map[common.Hash]*types.Block // every block the NUT accepted or mined
	events []string
}

// checkBlock evaluates the oracle for one block the node accepted or mined.
func (w *c04World) checkBlock(b *types.Block, how string) bool {
	c := w.c
	w.blocks[b.Hash()] = b
	keys, txs, at := executedPayloadsAt(b)
	for _, tx := range txs {
		bt := uint64(b.Time())
		if tx.Expiration() < bt {
			c.Fail("C04/expiry/executed-after-expiration", "%s block %d (time %d) executes a transaction that expired at %d; events: %v", how, b.Height(), bt, tx.Expiration(), w.events)
			return false
		}
		if tx.Expiration() > bt+1800 {
			c.Fail("C04/expiry/executed-too-early", "%s block %d (time %d) executes a transaction whose expiration %d is more than 30 minutes ahead; events: %v", how, b.Height(), bt, tx.Expiration(), w.events)
			return false
		}
	}
	seen := map[string]string{}
	seenHash := map[string]common.Hash{}
	seenAt := map[string]int{}
	place := func(k string, where string, tx *types.Transaction, pos int) bool {
		if prev, dup := seen[k]; dup {
			sub := "across-blocks"
			if strings.HasPrefix(prev, fmt.Sprintf("block %d ", b.Height())) {
				sub = "within-one-block"
			}
			if seenHash[k] == tx.Hash() {
				sub += "/same-tx-hash"
			} else {
				via := w.kind[tx.Hash()]
				if via == "" {
					via = w.kind[seenHash[k]]
				}
				if via == "" {
					via = "unknown"
				}
				sub += "/other-tx-hash-via-" + via
			}
			a, bb := seenAt[k], pos
			switch {
			case a >= 0 && bb >= 0:
				sub += "/standalone+standalone"
			case a < 0 && bb < 0 && a == bb && sub[:6] == "within":
				sub += "/twice-in-one-box"
			case a < 0 && bb < 0:
				sub += "/box+box"
			default:
				sub += "/standalone+box"
			}
			c.Fail("C04/replay/"+sub, "%s block %d: the payload of a signed transaction (type %d from %s amount %s msg %q) is executed twice on one branch: %s and %s; events: %v",
				how, b.Height(), tx.Type(), tx.From().Hex()[:10], tx.Amount(), tx.Message(), prev, where, w.events)
			return false
		}
		seen[k] = where
		seenHash[k] = tx.Hash()
		seenAt[k] = pos
		return true
	}
	for i, k := range keys {
		if !place(k, fmt.Sprintf("block %d entry %d (hash %s)", b.Height(), i, txs[i].Hash().Hex()[:10]), txs[i], at[i]) {
			return false
		}
	}
	// ancestors
	cur := b
	for cur.Height() > 0 {
		p, ok := w.blocks[cur.ParentHash()]
		if !ok {
			break // genesis or an ancestor accepted before we tracked (cannot happen: all go through here)
		}
		pk, ptx, pat := executedPayloadsAt(p)
		for i, k := range pk {
			if !place(k, fmt.Sprintf("block %d entry %d (hash %s)", p.Height(), i, ptx[i].Hash().Hex()[:10]), ptx[i], pat[i]) {
				return false
			}
		}
		cur = p
	}
	return true
}

func c04Scenario(c *Ctx) {
	minerMode := c.Var == "miner"
	p := defaultParams(c)
	if minerMode {
		p.NDeputies = 1
	} else {
		p.NDeputies = 1 + c.Draw("cfg", 4)
	}
	p.DeputyCount = p.NDeputies
	p.SlotMs = 3000
	net := NewNet(c, p)
	f := net.NewFactory(40)
	self := detKey("observer1")
	if minerMode {
		self = net.Deputies[0].Node
	}
	nut := net.AddNode(1, "nut", self)
	if !nut.StartNode() {
		c.Fail("C04/harness/start", "node did not start")
		return
	}
	gen := f.Blocks[net.GenBlock.Hash()]
	w := &c04World{c: c, net: net, blocks: map[common.Hash]*types.Block{gen.Hash(): gen}, kind: map[common.Hash]string{}}
	// base transactions: transfers from the founder (always funded), expirations set relative
	// to the time they will first be used
	var pool []*types.Transaction // every variant ever created
	mk := func(now int64) *types.Transaction {
		var exp int64
		switch c.Draw("gen", 8) {
		case 0:
			exp = now - 1
		case 1:
			exp = now
		case 2:
			exp = now + 1800
		case 3:
			exp = now + 1801
		case 4:
			exp = now + 1799
		default:
			exp = now + 30 + int64(c.Draw("gen", 1700))
		}
		if c.Draw("far", 6) == 5 {
			exp = now + 1801 + int64(c.Draw("far", 1800)) // lives up to an hour: only acceptable later, never now
		}
		tx := net.SignedTransfer(net.Founder, net.Users[c.Draw("gen", len(net.Users))].Addr, big.NewInt(int64(1+c.Draw("gen", 1000))), uint64(exp), fmt.Sprintf("c04-%d", len(pool)))
		return tx
	}
	variant := func(now int64) *types.Transaction {
		if len(pool) == 0 || c.Draw("gen", 3) == 0 {
			tx := mk(now)
			pool = append(pool, tx)
			return tx
		}
		base := pool[c.Draw("gen", len(pool))]
		if c.Draw("v27", 8) == 7 && base.Type() != params.BoxTx && len(base.Sigs()) == 1 && base.Sigs()[0][64] <= 1 {
			// the same signature with the recovery byte written the Ethereum way (27/28): other hash, same payload
			fl := base.VerifFields()
			fl.Sigs = [][]byte{common.CopyBytes(fl.Sigs[0])}
			fl.Sigs[0][64] += 27
			v := types.VerifNewTx(fl)
			pool = append(pool, v)
			c.Fault("recovery_byte_plus_27")
			w.kind[v.Hash()] = "recovery-byte+27"
			return v
		}
		switch c.Draw("gen", 6) {
		case 5:
			// the same authorised content with one more signature appended by a bystander:
			// another transaction hash, same payload
			if base.Type() != params.BoxTx {
				fl := base.VerifFields()
				fl.Sigs = nil
				un := types.VerifNewTx(fl)
				if s2, err := types.MakeSigner().SignTx(un, detKey("c04-bystander").Key); err == nil {
					fl2 := base.VerifFields()
					fl2.Sigs = append(fl2.Sigs, s2.Sigs()[0])
					v := types.VerifNewTx(fl2)
					pool = append(pool, v)
					c.Fault("foreign_signature_appended")
					w.kind[v.Hash()] = "foreign-signature-appended"
					return v
				}
			}
			return wireCopyTx(base)
		case 0, 1:
			c.Fault("same_tx_again")
			return wireCopyTx(base)
		case 2:
			if base.Type() != params.BoxTx {
				if re := reencodeTx(base); re != nil {
					c.Fault("reencoded_signature")
					pool = append(pool, re)
					if w.kind[base.Hash()] != "" {
						w.kind[re.Hash()] = w.kind[base.Hash()] + "+reencoded"
					} else {
						w.kind[re.Hash()] = "reencoded-signature"
					}
					return re
				}
			}
			return wireCopyTx(base)
		default:
			if base.Type() == params.BoxTx {
				return wireCopyTx(base)
			}
			subs := types.Transactions{wireCopyTx(base)}
			if c.Draw("gen", 3) == 0 {
				subs = append(subs, wireCopyTx(base))
				c.Fault("same_tx_twice_in_box")
			}
			data, err := types.MarshalBoxData(subs)
			if err != nil {
				panic(err)
			}
			// the box usually expires with its content; sometimes it has a lifetime of its own (every sub-transaction
			// must still be inside ITS window at the block's time, whatever the box says)
			boxExp := base.Expiration()
			switch c.Draw("boxexp", 5) {
			case 1:
				boxExp = uint64(now + 30)
			case 2:
				boxExp = uint64(now + 1800)
			case 3:
				boxExp = base.Expiration() + 900
			case 4:
				boxExp = uint64(now + 1 + int64(c.Draw("boxexp", 1800)))
			}
			if boxExp != base.Expiration() {
				c.Fault("box_lifetime_differs_from_content")
			}
			box := types.NoReceiverTransaction(net.Founder.Addr, big.NewInt(0), 2000000, big.NewInt(1e9), data, params.BoxTx, net.P.ChainID, boxExp, "", fmt.Sprintf("c04-box-%d", len(pool)))
			sb := signTx(box, net.Founder)
			pool = append(pool, sb)
			c.Fault("wrapped_in_box")
			return sb
		}
	}
	var fab []*types.Block
	fab = append(fab, gen)
	accepted := 0
	steps := 5 + c.Draw("gen", 9)
	for s := 0; s < steps && !c.Failed(); s++ {
		// clock: usually a slot, sometimes a jump beyond the lifetime window
		if c.Draw("gen", 8) == 0 {
			c.W.Sleep(time.Duration(1700+c.Draw("gen", 400)) * time.Second)
			c.Fault("clock_jump_30min")
		} else {
			c.W.Sleep(time.Duration(1000+c.Draw("gen", 5000)) * time.Millisecond)
		}
		now := time.Now().Unix()
		switch k := c.Draw("op", 10); {
		case k < 7:
			n := 1 + c.Draw("op", 3)
			var txs types.Transactions
			for i := 0; i < n; i++ {
				txs = append(txs, variant(now))
			}
			if minerMode {
				// client submit path = the calls of PublicTxAPI.SendTx
				added := 0
				nut.Do("submit", func() {
					for _, tx := range txs {
						if err := tx.VerifyTxBody(net.P.ChainID, uint64(time.Now().Unix()), false); err != nil {
							continue
						}
						cur := nut.BC.CurrentBlock()
						if nut.BC.TxGuard().ExistTx(cur.Hash(), tx) {
							continue
						}
						if nut.Pool.AddTx(tx) == nil {
							added++
						}
					}
				})
				blk, err := nut.MineBlock()
				w.events = append(w.events, fmt.Sprintf("submit %d (pool took %d), mine -> err=%v", len(txs), added, err != nil))
				if err == nil && blk != nil {
					accepted++
					if !w.checkBlock(blk, "mined") {
						return
					}
				}
				continue
			}
			par := fab[len(fab)-1]
			if c.Draw("op", 5) == 0 {
				par = fab[c.Draw("op", len(fab))]
				c.Fault("fork")
			}
			if now < int64(par.Time()) {
				continue
			}
			d := net.nextDeputy(par, now)
			blk, _, err := f.Mine(d, par, uint32(now), txs, fmt.Sprintf("s%d", s))
			if err != nil || blk == nil {
				c.Probe("fabricate_failed")
				continue
			}
			_, ierr := nut.InsertBlock(wireCopyBlock(blk))
			w.events = append(w.events, fmt.Sprintf("block[%d] t=+%d txs=%d on [%d] -> accepted=%v", blk.Height(), int64(blk.Time())-int64(net.GenesisT), len(blk.Txs), par.Height(), ierr == nil))
			if ierr == nil {
				accepted++
				fab = append(fab, blk)
				if !w.checkBlock(blk, "accepted") {
					return
				}
				// confirmations: stable follows, the guard is pruned by stable time
				if c.Draw("op", 3) != 0 {
					var sigs []types.SignData
					for k := range net.Deputies {
						if k != d {
							sigs = append(sigs, net.Confirm(k, blk.Hash()))
						}
					}
					if len(sigs) > 0 {
						nut.InsertConfirms(blk.Height(), blk.Hash(), sigs)
					}
				}
			} else {
				c.Probe("block_rejected")
			}
		default:
			nut.StopNode()
			if !nut.StartNode() {
				c.Fail("C04/restart/failed", "node did not restart")
				return
			}
			c.Fault("clean_restart")
			w.events = append(w.events, "restart")
			if !minerMode {
				// re-feed forgotten unstable blocks
				st := nut.BC.StableBlock().Height()
				for _, b := range fab {
					if b.Height() > st {
						nut.InsertBlock(wireCopyBlock(b))
					}
				}
			}
		}
		if len(w.events) > 24 {
			w.events = w.events[len(w.events)-24:]
		}
	}
	c.Nontrivial = accepted >= 2
	c.Sample = map[string]interface{}{"mode": c.Var, "deputies": p.NDeputies, "accepted_or_mined": accepted, "events": w.events}
}

func init() {
	Register(&PropDef{
		ID: "C04", Variants: []string{"validator", "miner", "validator"}, Scenario: c04Scenario,
		Rule: "5-13 tape-chosen steps: blocks (1-3 entries each) built from a growing pool of signed transfers and their variants - the identical transaction again, the same payload with the other ECDSA encoding of its signature, wrapped in a box, twice in one box - by a deputy that does not care (validator variant: factory = Byzantine deputy, forks onto older parents) or submitted through the client path of a single mining deputy (miner variant); expirations at -1/0/+1799/+1800/+1801 s around first use; clock steps of 1-6 s with occasional jumps of ~30 min; confirmations advance stable (pruning the replay cache); clean restarts; oracle on every accepted/mined block over its whole ancestor path; non-trivial = >=2 blocks accepted or mined; distinct = event-log digests",
		Real: []string{"chain/consensus (validator verifyTxs, DPoVP.MineBlock/InsertBlock)", "chain/txpool (TxGuard, TxPool)", "chain/types (VerifyTxBody, tx hash/signing)", "chain/transaction", "store"},
		Stub: []string{"client RPC layer: the harness performs the calls of PublicTxAPI.SendTx", "Byzantine deputy = factory mining whatever it is given"},
		Assumptions: []string{"identity of an authorisation = all signed fields (content), not the transaction hash"},
	})
}
