package harness

import (
	"crypto/ecdsa"
	"crypto/sha256"
	"fmt"
	"math/big"
	"sort"
	"sync"
	"time"

	"github.com/LemoFoundationLtd/lemochain-core/chain"
	"github.com/LemoFoundationLtd/lemochain-core/chain/account"
	"github.com/LemoFoundationLtd/lemochain-core/chain/consensus"
	"github.com/LemoFoundationLtd/lemochain-core/chain/deputynode"
	"github.com/LemoFoundationLtd/lemochain-core/chain/params"
	"github.com/LemoFoundationLtd/lemochain-core/chain/transaction"
	"github.com/LemoFoundationLtd/lemochain-core/chain/txpool"
	"github.com/LemoFoundationLtd/lemochain-core/chain/types"
	"github.com/LemoFoundationLtd/lemochain-core/common"
	"github.com/LemoFoundationLtd/lemochain-core/common/crypto"
	"github.com/LemoFoundationLtd/lemochain-core/common/flag"
	"github.com/LemoFoundationLtd/lemochain-core/common/subscribe"
	"github.com/LemoFoundationLtd/lemochain-core/store"
)

// ---------- deterministic keys ----------

type keyInfo struct {
	Key    *ecdsa.PrivateKey
	Addr   common.Address
	NodeID []byte
}

var (
	keyMu    sync.Mutex
	keyCache = map[string]*keyInfo{}
)

func detKey(name string) *keyInfo {
	keyMu.Lock()
	defer keyMu.Unlock()
	if k := keyCache[name]; k != nil {
		return k
	}
	for ctr := 0; ; ctr++ {
		h := sha256.Sum256([]byte(fmt.Sprintf("verif-key/%s/%d", name, ctr)))
		k, err := crypto.ToECDSA(h[:])
		if err != nil {
			continue
		}
		ki := &keyInfo{Key: k, Addr: crypto.PubkeyToAddress(k.PublicKey), NodeID: crypto.PrivateKeyToNodeID(k)}
		keyCache[name] = ki
		return ki
	}
}

// ---------- chain parameters ----------

type ChainParams struct {
	NDeputies       int
	DeputyCount     int // configured maximum
	SlotMs          uint64
	TermDuration    uint32
	InterimDuration uint32
	ChainID         uint16
	NUsers          int
	MaxCandidates   int
	MinDepositLemo  int64
}

type Deputy struct {
	Node   *keyInfo // node key (signs blocks/confirms)
	Miner  *keyInfo // miner account
	Income *keyInfo // income account
	Rank   int
}

// Net is one simulated chain universe: parameters, identities, genesis, nodes.
type Net struct {
	C        *Ctx
	P        ChainParams
	Deputies []*Deputy
	Elected  []*Deputy // users elected into a later term (Factory.TermMiners), slot = len(Deputies)+index
	Founder  *keyInfo
	Users    []*keyInfo
	GenesisT uint32
	Nodes    map[int]*Node
	factories []*Factory
	genesis  *chain.Genesis
	GenBlock *types.Block
}

func defaultParams(c *Ctx) ChainParams {
	return ChainParams{NDeputies: 3, DeputyCount: 5, SlotMs: 3000, TermDuration: 1000000, InterimDuration: 1000, ChainID: 200, NUsers: 6, MaxCandidates: 20, MinDepositLemo: 300}
}

// applyGlobals installs the process-wide protocol parameters for this run.
func (p ChainParams) applyGlobals() {
	params.TermDuration = p.TermDuration
	params.InterimDuration = p.InterimDuration
	store.VerifSetMaxCandidateCount(p.MaxCandidates)
	if p.MinDepositLemo > 0 {
		params.MinCandidateDeposit = new(big.Int).Mul(big.NewInt(p.MinDepositLemo), big.NewInt(1e18))
	}
}

func NewNet(c *Ctx, p ChainParams) *Net {
	p.applyGlobals()
	n := &Net{C: c, P: p, Nodes: map[int]*Node{}}
	n.Founder = detKey("founder")
	for i := 0; i < p.NDeputies; i++ {
		n.Deputies = append(n.Deputies, &Deputy{Node: detKey(fmt.Sprintf("dnode%d", i)), Miner: detKey(fmt.Sprintf("dminer%d", i)), Income: detKey(fmt.Sprintf("dincome%d", i)), Rank: i})
	}
	for i := 0; i < p.NUsers; i++ {
		n.Users = append(n.Users, detKey(fmt.Sprintf("user%d", i)))
	}
	n.GenesisT = uint32(time.Now().Unix())
	infos := make([]*chain.CandidateInfo, 0, p.NDeputies)
	for i, d := range n.Deputies {
		infos = append(infos, &chain.CandidateInfo{
			MinerAddress: d.Miner.Addr, IncomeAddress: d.Income.Addr, NodeID: d.Node.NodeID,
			Host: "127.0.0.1", Port: fmt.Sprintf("%d", 7001+i), Introduction: fmt.Sprintf("deputy %d", i),
		})
	}
	c.Cleanups = append(c.Cleanups, n.Shutdown)
	n.genesis = &chain.Genesis{Time: n.GenesisT, ExtraData: "verif", GasLimit: params.GenesisGasLimit, Founder: n.Founder.Addr, DeputyNodesInfo: infos}
	return n
}

// Shutdown closes every store of the net so that their goroutines exit before the bubble ends.
func (n *Net) Shutdown() {
	tags := make([]int, 0, len(n.Nodes))
	for t := range n.Nodes {
		tags = append(tags, t)
	}
	sort.Ints(tags)
	for _, t := range tags {
		nd := n.Nodes[t]
		if nd.Alive {
			n.C.W.Do(nd.Tag, nd.Name+".shutdown", func() {
				defer func() { recover() }() // the scenario may have closed it already
				if nd.BC != nil {
					nd.BC.Stop()
				}
				if nd.DB != nil {
					nd.DB.Close()
				}
			})
			nd.Alive = false
		}
	}
	for _, f := range n.factories {
		f := f
		n.C.W.Do(f.Tag, "factory.shutdown", func() {
			defer func() { recover() }() // the scenario may have closed it already
			if f.DB != nil {
				f.DB.Close()
			}
		})
	}
	n.C.W.Sleep(2 * time.Second)
}

// DeputyByMiner returns the deputy with the given miner address (nil if none).
func (n *Net) DeputyByMiner(a common.Address) *Deputy {
	for _, d := range n.Deputies {
		if d.Miner.Addr == a {
			return d
		}
	}
	return nil
}

func (n *Net) DeputyByNodeID(id []byte) *Deputy {
	for _, d := range n.Deputies {
		if string(d.Node.NodeID) == string(id) {
			return d
		}
	}
	return nil
}

// InTurnRank is the reference slot rule taken from the property statement (C13): after
// parent P (miner rank rP; -1 at height 1 / first block of a term) the deputy entitled at
// instant tMs >= P.time is rank (rP + 1 + floor((tMs - P.timeMs)/slot)) mod n.
func InTurnRank(parentRank int, parentTimeMs, tMs int64, slotMs int64, n int) int {
	k := (tMs - parentTimeMs) / slotMs
	return int(((int64(parentRank)+1+k)%int64(n) + int64(n)) % int64(n))
}

// ---------- nodes ----------

type Node struct {
	Net   *Net
	Tag   int
	Name  string
	Self  *keyInfo
	Home  string
	DB    *store.ChainDatabase
	DM    *deputynode.Manager
	Pool  *txpool.TxPool
	BC    *chain.BlockChain
	Eng   *consensus.DPoVP
	Alive bool
	Starts int
}

// AddNode registers a node (not started). self may be a deputy's node key or an observer key.
func (n *Net) AddNode(tag int, name string, self *keyInfo) *Node {
	nd := &Node{Net: n, Tag: tag, Name: name, Self: self, Home: fmt.Sprintf("/sim/%s/chaindata", name)}
	n.Nodes[tag] = nd
	return nd
}

// Start builds the node the way main/node.New does, on whatever its disk holds.
// It must run in a task tagged with the node (use StartNode from the world).
func (nd *Node) start() {
	// a fresh process has an empty event bus: drop the subscriptions of a dead incarnation
	// (this also creates the node-local bus in the start task, ahead of all its goroutines)
	subscribe.ClearSub()
	deputynode.SetSelfNodeKey(nd.Self.Key)
	nd.DB = store.NewChainDataBase(nd.Home)
	if _, err := nd.DB.GetBlockByHeight(0); err != nil {
		if err != store.ErrBlockNotExist {
			panic(fmt.Sprintf("can't get genesis block. err: %v", err))
		}
		chain.SetupGenesisBlock(nd.DB, nd.Net.genesis)
	}
	nd.DM = deputynode.NewManager(nd.Net.P.DeputyCount, nd.DB)
	nd.Pool = txpool.NewTxPool()
	bc, err := chain.NewBlockChain(chain.Config{ChainID: nd.Net.P.ChainID, MineTimeout: nd.Net.P.SlotMs}, nd.DM, nd.DB, flag.CmdFlags{}, nd.Pool)
	if err != nil {
		panic("new block chain failed: " + err.Error())
	}
	nd.BC = bc
	nd.Eng = bc.VerifEngine()
	nd.Alive = true
	nd.Starts++
}

func (nd *Node) StartNode() bool {
	t := nd.Net.C.W.Do(nd.Tag, nd.Name+".start", nd.start)
	if nd.Net.GenBlock == nil && nd.BC != nil {
		nd.Net.GenBlock = nd.BC.Genesis()
	}
	return t.Finished
}

// StopNode performs the clean shutdown of main/node.stopChain.
func (nd *Node) StopNode() {
	nd.Net.C.W.Do(nd.Tag, nd.Name+".stop", func() {
		if nd.BC != nil {
			nd.BC.Stop()
		}
		if nd.DB != nil {
			nd.DB.Close()
		}
	})
	nd.Alive = false
	// let goleveldb's background goroutines wind down
	nd.Net.C.W.Sleep(2 * time.Second)
}

// Crash kills the node's tasks without any shutdown work; only the simulated disk survives.
func (nd *Node) Crash() {
	w := nd.Net.C.W
	w.S.Kill(nd.Tag)
	// free goroutines blocked in native receives; they die at their next yield / I/O
	func() {
		defer func() { recover() }()
		if nd.DB != nil && nd.DB.Beansdb != nil && nd.DB.Beansdb.Queue != nil {
			close(nd.DB.Beansdb.Queue.Quit)
		}
	}()
	func() {
		defer func() { recover() }()
		if nd.BC != nil {
			nd.BC.Stop()
		}
	}()
	w.Settle()
	func() {
		defer func() { recover() }()
		if nd.DB != nil && nd.DB.LevelDB != nil {
			nd.DB.LevelDB.LDB().Close()
		}
	}()
	nd.Alive = false
	nd.DB, nd.BC, nd.Eng, nd.DM, nd.Pool = nil, nil, nil, nil, nil
	w.Sleep(2 * time.Second)
	w.S.Revive(nd.Tag)
}

// Do runs f as a task of the node and settles.
func (nd *Node) Do(name string, f func()) bool {
	return nd.Net.C.W.Do(nd.Tag, nd.Name+"."+name, f).Finished
}

func (nd *Node) InsertBlock(b *types.Block) (out *types.Block, err error) {
	done := nd.Do("insert", func() { out, err = nd.Eng.InsertBlock(b) })
	if !done && err == nil {
		err = fmt.Errorf("harness: InsertBlock did not return")
	}
	return
}

func (nd *Node) InsertConfirms(height uint32, hash common.Hash, sigs []types.SignData) (err error) {
	nd.Do("confirms", func() { err = nd.Eng.InsertConfirms(height, hash, sigs) })
	return
}

func (nd *Node) MineBlock() (b *types.Block, err error) {
	nd.Do("mine", func() { b, err = nd.Eng.MineBlock(10000) })
	return
}

// ---------- wire ----------

// wireCopy pushes a block through the real RLP codec, as the network would.
func wireCopyBlock(b *types.Block) *types.Block {
	buf, err := rlpEncode(b)
	if err != nil {
		panic(fmt.Sprintf("block does not encode: %v", err))
	}
	var out types.Block
	if err := rlpDecode(buf, &out); err != nil {
		panic(fmt.Sprintf("block does not decode: %v", err))
	}
	return &out
}

// ---------- factory ----------

// Factory fabricates valid blocks on any known parent at any timestamp under any
// deputy's key, using the real TxProcessor/BlockAssembler (the honest miner's code) on
// its own store. It never stabilises anything except genesis, so any fork tree can be built.
type Factory struct {
	Net    *Net
	Tag    int // base tag; deputy d fabricates under tag Tag+1+d
	DB     *store.ChainDatabase
	DM     *deputynode.Manager
	AM     *account.Manager
	DP     *consensus.DPoVP
	Asm    *consensus.BlockAssembler
	Blocks map[common.Hash]*types.Block
	Kids   map[common.Hash][]common.Hash
	GasLimitOverride uint64 // when non-zero the next Mine uses this header gas limit
}

type factoryLoader struct{ db *store.ChainDatabase }

func (t *factoryLoader) GetParentByHeight(height uint32, sonBlockHash common.Hash) *types.Block {
	block, err := t.db.GetUnConfirmByHeight(height, sonBlockHash)
	if err == store.ErrBlockNotExist {
		block, err = t.db.GetBlockByHeight(height)
	}
	if err != nil {
		return nil
	}
	return block
}

func (n *Net) NewFactory(tag int) *Factory {
	f := &Factory{Net: n, Tag: tag, Blocks: map[common.Hash]*types.Block{}, Kids: map[common.Hash][]common.Hash{}}
	n.factories = append(n.factories, f)
	n.C.W.Do(tag, "factory.start", func() {
		f.DB = store.NewChainDataBase(fmt.Sprintf("/sim/factory%d/chaindata", tag))
		gen := chain.SetupGenesisBlock(f.DB, n.genesis)
		f.Blocks[gen.Hash()] = gen
		if n.GenBlock == nil {
			n.GenBlock = gen
		}
		f.DM = deputynode.NewManager(n.P.DeputyCount, f.DB)
		f.AM = account.NewManager(gen.Hash(), f.DB)
		guard := txpool.NewTxGuard(gen.Time())
		f.DP = consensus.NewDPoVP(consensus.Config{ChainID: n.P.ChainID, MineTimeout: n.P.SlotMs, RewardManager: n.Founder.Addr}, f.DB, f.DM, f.AM, &factoryLoader{f.DB}, txpool.NewTxPool(), guard)
		f.Asm = consensus.NewBlockAssembler(f.AM, f.DM, f.DP.TxProcessor(), f.DP)
	})
	for d, dep := range n.Deputies {
		dep := dep
		n.C.W.Do(tag+1+d, "factory.key", func() { deputynode.SetSelfNodeKey(dep.Node.Key) })
	}
	return f
}

// Mine fabricates a block by deputy d on parent at timestamp ts (seconds) with the given
// candidate transactions (invalid ones are discarded as the miner does) and stores it in
// the factory's own store so that children can be mined on it.
func (f *Factory) Mine(d int, parent *types.Block, ts uint32, txs types.Transactions, extra string) (blk *types.Block, invalid types.Transactions, err error) {
	var key *keyInfo
	if d >= len(f.Net.Deputies) && d < len(f.Net.Deputies)+len(f.Net.Elected) {
		if d >= 9 {
			return nil, nil, fmt.Errorf("no miner slot %d", d)
		}
		key = f.Net.signerKey(d) // an elected user (TermMiners); other worlds (C13) set the keys of their own slots
	}
	task := f.Net.C.W.Do(f.Tag+1+d, "factory.mine", func() {
		if key != nil {
			deputynode.SetSelfNodeKey(key.Key) // node-local: slot d is "the process of that deputy"
		}
		var header *types.Header
		header, err = f.Asm.PrepareHeader(parent.Header, extra)
		if err != nil {
			return
		}
		header.Time = ts
		if f.GasLimitOverride != 0 {
			header.GasLimit = f.GasLimitOverride
		}
		blk, invalid, err = f.Asm.MineBlock(header, txs, 10000)
		if err != nil {
			return
		}
		if e := f.DB.SetBlock(blk.Hash(), blk); e != nil {
			if e == store.ErrExist {
				return
			}
			err = e
			return
		}
		if e := f.AM.Save(blk.Hash()); e != nil {
			err = e
			return
		}
		if deputynode.IsSnapshotBlock(blk.Height()) {
			f.DM.SaveSnapshot(blk.Height(), blk.DeputyNodes)
		}
	})
	if !task.Finished {
		return nil, nil, fmt.Errorf("miner task did not finish (panic: %v)", task.Panic)
	}
	if err == nil && blk != nil {
		f.Blocks[blk.Hash()] = blk
		f.Kids[parent.Hash()] = append(f.Kids[parent.Hash()], blk.Hash())
	}
	return
}

// TermMiners returns who governs height h according to the factory's own deputy manager (the real
// election code, checked against the statement's model by C10/C13), in rank order, with the keys
// the harness holds for them: genesis deputies, or users elected in a later term (their node key
// is the deterministic one the transaction generator registered them with). The slot of a Deputy
// is its index in Net.Deputies, or len(Net.Deputies)+k for the k-th elected user of this net.
func (f *Factory) TermMiners(h uint32) (miners []*Deputy, slots []int, err error) {
	var nodes types.DeputyNodes
	f.Net.C.W.Do(f.Tag, "factory.term", func() { nodes = f.DM.GetDeputiesByHeight(h, true) })
	if len(nodes) == 0 {
		return nil, nil, fmt.Errorf("no deputies known for height %d", h)
	}
	byRank := make([]*types.DeputyNode, len(nodes))
	for _, dn := range nodes {
		if int(dn.Rank) >= len(nodes) || byRank[dn.Rank] != nil {
			return nil, nil, fmt.Errorf("deputy ranks of height %d are not 0..n-1", h)
		}
		byRank[dn.Rank] = dn
	}
	for _, dn := range byRank {
		slot := -1
		var who *Deputy
		for i, d := range f.Net.Deputies {
			if string(d.Node.NodeID) == string(dn.NodeID) && d.Miner.Addr == dn.MinerAddress {
				slot, who = i, d
			}
		}
		if who == nil {
			for k, d := range f.Net.Elected {
				if d.Miner.Addr == dn.MinerAddress {
					slot, who = len(f.Net.Deputies)+k, d
				}
			}
		}
		if who == nil {
			node := detKey("candnode-" + dn.MinerAddress.Hex())
			if string(node.NodeID) != string(dn.NodeID) {
				return nil, nil, fmt.Errorf("elected deputy %s has a node id the harness holds no key for", dn.MinerAddress.Hex())
			}
			// income address: the candidate profile's, filled in by chainRun from the state dump (default: the miner account)
			who = &Deputy{Node: node, Miner: &keyInfo{Addr: dn.MinerAddress}, Income: &keyInfo{Addr: dn.MinerAddress}, Rank: int(dn.Rank)}
			f.Net.Elected = append(f.Net.Elected, who)
			slot = len(f.Net.Deputies) + len(f.Net.Elected) - 1
		}
		if who.Rank != int(dn.Rank) {
			who = &Deputy{Node: who.Node, Miner: who.Miner, Income: who.Income, Rank: int(dn.Rank)} // rank of this term
		}
		miners = append(miners, who)
		slots = append(slots, slot)
	}
	return miners, slots, nil
}

// InTurn applies the reference slot rule (InTurnRank) to the deputies that govern the child of
// parent: the miner entitled at nowSec, its slot (for Mine) and the whole term (for confirmations).
func (f *Factory) InTurn(parent *types.Block, nowSec int64) (who *Deputy, slot int, term []*Deputy, err error) {
	h := parent.Height() + 1
	term, slots, err := f.TermMiners(h)
	if err != nil {
		return nil, 0, nil, err
	}
	prank := -1
	if h != 1 && !deputynode.IsRewardBlock(h) {
		for _, d := range term {
			if d.Miner.Addr == parent.MinerAddress() {
				prank = d.Rank
			}
		}
	}
	r := InTurnRank(prank, int64(parent.Time())*1000, nowSec*1000, int64(f.Net.P.SlotMs), len(term))
	return term[r], slots[r], term, nil
}

// signerKey returns the node key of slot d (genesis deputy or elected user).
func (n *Net) signerKey(d int) *keyInfo {
	if d < len(n.Deputies) {
		return n.Deputies[d].Node
	}
	return n.Elected[d-len(n.Deputies)].Node
}

// ConfirmBy signs block hash h with the node key of who.
func (n *Net) ConfirmBy(who *Deputy, h common.Hash) types.SignData {
	sig, err := crypto.Sign(h[:], who.Node.Key)
	if err != nil {
		panic(err)
	}
	return types.BytesToSignData(sig)
}

// Stabilise makes blk the stable block of the factory's own store (as the confirmations of the
// other deputies would on a real miner): siblings of the stable chain are pruned there, the
// "canonical" account records the node reads straight from disk move forward.
func (f *Factory) Stabilise(blk *types.Block) error {
	var err error
	task := f.Net.C.W.Do(f.Tag, "factory.stable", func() {
		if cur, e := f.DB.LoadLatestBlock(); e == nil && cur.Height() >= blk.Height() {
			return
		}
		_, err = f.DB.SetStableBlock(blk.Hash())
	})
	if !task.Finished {
		return fmt.Errorf("stabilise task did not finish (panic: %v)", task.Panic)
	}
	return err
}

// Confirm signs block hash h with deputy d's node key (not through the engine).
func (n *Net) Confirm(d int, h common.Hash) types.SignData {
	sig, err := crypto.Sign(h[:], n.Deputies[d].Node.Key)
	if err != nil {
		panic(err)
	}
	return types.BytesToSignData(sig)
}

// keyByAddress finds the deterministic key (detKey) that owns addr among the keys made so far.
func keyByAddress(addr common.Address) *keyInfo {
	keyMu.Lock()
	defer keyMu.Unlock()
	var names []string
	for n := range keyCache {
		names = append(names, n)
	}
	sort.Strings(names)
	for _, n := range names {
		if keyCache[n].Addr == addr {
			return keyCache[n]
		}
	}
	return nil
}

// SignWithNonce makes a canonical (low-s) secp256k1 signature [r|s|v] over hash with the caller's
// nonce k instead of the deterministic RFC 6979 one: a SECOND valid signature of the same signer
// over the same content with other bytes. Returns nil if the result does not recover to the key.
func SignWithNonce(hash []byte, key *keyInfo, k *big.Int) []byte {
	curve := crypto.S256()
	n := curve.Params().N
	k = new(big.Int).Mod(k, n)
	if k.Sign() == 0 {
		return nil
	}
	rx, ry := curve.ScalarBaseMult(k.Bytes())
	r := new(big.Int).Mod(rx, n)
	if r.Sign() == 0 || rx.Cmp(n) >= 0 {
		return nil
	}
	e := new(big.Int).SetBytes(hash)
	sv := new(big.Int).Mul(r, key.Key.D)
	sv.Add(sv, e)
	sv.Mul(sv, new(big.Int).ModInverse(k, n))
	sv.Mod(sv, n)
	if sv.Sign() == 0 {
		return nil
	}
	v := byte(ry.Bit(0))
	if sv.Cmp(new(big.Int).Rsh(n, 1)) > 0 {
		sv.Sub(n, sv)
		v ^= 1
	}
	sig := make([]byte, 65)
	rb, sb := r.Bytes(), sv.Bytes()
	copy(sig[32-len(rb):32], rb)
	copy(sig[64-len(sb):64], sb)
	sig[64] = v
	pub, err := crypto.SigToPub(hash, sig)
	if err != nil || crypto.PubkeyToAddress(*pub) != key.Addr {
		return nil
	}
	return sig
}

// ReencodeSig returns the other valid encoding (r, n-s, v^1) of an ECDSA signature.
func ReencodeSig(sig []byte) []byte {
	out := make([]byte, len(sig))
	copy(out, sig)
	nOrder, _ := new(big.Int).SetString("fffffffffffffffffffffffffffffffebaaedce6af48a03bbfd25e8cd0364141", 16)
	s := new(big.Int).SetBytes(sig[32:64])
	s.Sub(nOrder, s)
	sb := s.Bytes()
	for i := 32; i < 64; i++ {
		out[i] = 0
	}
	copy(out[64-len(sb):64], sb)
	out[64] ^= 1
	return out
}

// ---------- transactions ----------

var txSeq uint64

// SignedTransfer builds and signs an ordinary transfer.
func (n *Net) SignedTransfer(from *keyInfo, to common.Address, amount *big.Int, exp uint64, msg string) *types.Transaction {
	tx := types.NewTransaction(from.Addr, to, amount, 100000, big.NewInt(1000000000), nil, params.OrdinaryTx, n.P.ChainID, exp, "", msg)
	return signTx(tx, from)
}

func signTx(tx *types.Transaction, k *keyInfo) *types.Transaction {
	out, err := types.MakeSigner().SignTx(tx, k.Key)
	if err != nil {
		panic(err)
	}
	return out
}

var _ = transaction.SignerWeightThreshold
