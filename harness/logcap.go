package harness

import (
	"fmt"
	"strings"
	"sync"

	"github.com/LemoFoundationLtd/lemochain-core/common/log"
	"github.com/inconshreveable/log15"

	"verif/simrt"
)

// error-level log capture per node tag (classification only)
var (
	logMu   sync.Mutex
	logBuf  = map[int][]string{}
	logOnce sync.Once
)

func setupLogging() {
	logOnce.Do(func() {
		log.VerifSetHandler(log15.FuncHandler(func(r *log15.Record) error {
			if r.Lvl > log15.LvlError && !(r.Lvl <= log15.LvlInfo && (strings.HasPrefix(r.Msg, "Invalid transaction") || strings.HasPrefix(r.Msg, "VerifyTxBeforeApply") || strings.HasPrefix(r.Msg, "Term is not stable"))) {
				return nil
			}
			node := simrt.CurrentNode()
			var b strings.Builder
			b.WriteString(r.Msg)
			for i := 0; i+1 < len(r.Ctx); i += 2 {
				if i >= 8 {
					break
				}
				fmt.Fprintf(&b, " %v=%v", r.Ctx[i], r.Ctx[i+1])
			}
			s := b.String()
			if strings.HasPrefix(s, "Local logs:") || strings.HasPrefix(s, "nodes in body:") {
				if len(s) > 8000 { // what the validator computed itself: kept for the violation message
					s = s[:8000]
				}
			} else if len(s) > 300 {
				s = s[:300]
			}
			simrt.RaceOff() // the capture buffer's lock is harness bookkeeping, not program synchronisation
			logMu.Lock()
			l := logBuf[node]
			if len(l) > 64 {
				l = l[len(l)-32:]
			}
			logBuf[node] = append(l, s)
			logMu.Unlock()
			simrt.RaceOn()
			return nil
		}))
	})
}

// takeErrors returns and clears the captured error lines of a node tag.
func takeErrors(node int) []string {
	logMu.Lock()
	defer logMu.Unlock()
	l := logBuf[node]
	delete(logBuf, node)
	return l
}

func resetLogCapture() {
	logMu.Lock()
	logBuf = map[int][]string{}
	logMu.Unlock()
}

// classifyRejection turns captured error lines into a short stable reason.
func classifyRejection(lines []string) string {
	for _, l := range lines {
		if strings.HasPrefix(l, "Consensus verify fail: ") {
			r := strings.TrimPrefix(l, "Consensus verify fail: ")
			if i := strings.IndexAny(r, " "); i > 0 {
				// keep the words up to the first key=value
				parts := strings.Fields(r)
				var keep []string
				for _, p := range parts {
					if strings.Contains(p, "=") || strings.Contains(p, "0x") || strings.HasSuffix(p, ":") || strings.HasSuffix(p, ".") {
						// a key=value, a hash / node id, or "nodeID:" introducing one: the stable part ends here
						if t := strings.TrimRight(p, ":."); t != "" && !strings.Contains(t, "=") && !strings.Contains(t, "0x") {
							keep = append(keep, t)
						}
						break
					}
					keep = append(keep, p)
				}
				r = strings.Join(keep, "-")
			}
			return sanitize(r)
		}
	}
	for _, l := range lines {
		for _, k := range []string{"verify block error", "Transaction gas used not equal", "VerifyTxBeforeApply fail", "Apply transaction failure", "Term is not stable", "block verify failed"} {
			if strings.Contains(l, k) {
				return sanitize(k)
			}
		}
	}
	if len(lines) > 0 {
		w := strings.Fields(lines[0])
		if len(w) > 4 {
			w = w[:4]
		}
		return sanitize(strings.Join(w, "-"))
	}
	return "unknown"
}
