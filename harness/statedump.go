package harness

import (
	"fmt"
	"math/big"
	"sort"
	"strings"

	"github.com/LemoFoundationLtd/lemochain-core/chain/account"
	"github.com/LemoFoundationLtd/lemochain-core/chain/params"
	"github.com/LemoFoundationLtd/lemochain-core/chain/types"
	"github.com/LemoFoundationLtd/lemochain-core/common"
	"github.com/LemoFoundationLtd/lemochain-core/store/protocol"
)

// AcctDump is every observable attribute of one account at one block, as strings.
type AcctDump map[string]string

// DumpKeys says which trie entries to look up (tries are compared by content, not only by root).
type DumpKeys struct {
	Slots      []common.Hash // contract storage keys
	AssetCodes []common.Hash
	AssetIds   []common.Hash
}

func profileString(p types.Profile) string {
	keys := make([]string, 0, len(p))
	for k := range p {
		keys = append(keys, k)
	}
	sort.Strings(keys)
	var b strings.Builder
	for _, k := range keys {
		fmt.Fprintf(&b, "%s=%s;", k, p[k])
	}
	return b.String()
}

// DumpAccount reads one account through the view of blockHash. Must run in a node task.
func DumpAccount(db protocol.ChainDB, am *account.Manager, blockHash common.Hash, addr common.Address, keys *DumpKeys) AcctDump {
	d := AcctDump{}
	actDb, err := db.GetActDatabase(blockHash)
	if err != nil {
		d["err"] = err.Error()
		return d
	}
	raw, _ := actDb.Get(addr)
	if raw == nil {
		d["exists"] = "false"
	} else {
		d["exists"] = "true"
		d["balance"] = raw.Balance.String()
		d["codeHash"] = raw.CodeHash.Hex()
		d["storageRoot"] = raw.StorageRoot.Hex()
		d["assetCodeRoot"] = raw.AssetCodeRoot.Hex()
		d["assetIdRoot"] = raw.AssetIdRoot.Hex()
		d["equityRoot"] = raw.EquityRoot.Hex()
		d["voteFor"] = raw.VoteFor.Hex()
		if raw.Candidate.Votes != nil {
			d["votes"] = raw.Candidate.Votes.String()
		}
		d["profile"] = profileString(raw.Candidate.Profile)
		d["signers"] = raw.Signers.String()
		var recs []string
		for lt, r := range raw.NewestRecords {
			recs = append(recs, fmt.Sprintf("%d:v%d@%d", lt, r.Version, r.Height))
		}
		sort.Strings(recs)
		d["records"] = strings.Join(recs, ",")
	}
	acc := am.GetAccount(addr)
	d["a.balance"] = acc.GetBalance().String()
	d["a.suicide"] = fmt.Sprint(acc.GetSuicide())
	if code, err := acc.GetCode(); err == nil {
		d["a.code"] = common.ToHex(code)
	} else {
		d["a.code"] = "err:" + err.Error()
	}
	if keys != nil {
		for _, k := range keys.Slots {
			v, err := acc.GetStorageState(k)
			if err != nil {
				d[slotKey(k)] = "err:" + err.Error()
			} else if len(v) > 0 {
				d[slotKey(k)] = common.ToHex(v)
			}
		}
		for _, c := range keys.AssetCodes {
			as, err := acc.GetAssetCode(c)
			if err == nil && as != nil {
				d["asset."+c.Hex()[:10]] = fmt.Sprintf("cat=%d div=%v dec=%d supply=%v repl=%v issuer=%s prof=%s", as.Category, as.IsDivisible, as.Decimal, as.TotalSupply, as.IsReplenishable, as.Issuer.Hex(), profileString(as.Profile))
			}
		}
		for _, id := range keys.AssetIds {
			eq, err := acc.GetEquityState(id)
			if err == nil && eq != nil {
				d["equity."+id.Hex()[:10]] = fmt.Sprintf("code=%s eq=%v", eq.AssetCode.Hex()[:10], eq.Equity)
			}
			if s, err := acc.GetAssetIdState(id); err == nil && s != "" {
				d["assetid."+id.Hex()[:10]] = s
			}
		}
	}
	return d
}

// slotKey names a storage slot in a dump: small slot numbers by value, hashes by their first bytes.
func slotKey(k common.Hash) string {
	t := strings.TrimLeft(k.Hex()[2:], "0")
	if len(t) > 10 {
		t = k.Hex()[:10]
	}
	if t == "" {
		t = "0"
	}
	return "slot." + t
}

// StateDump is the dump of a set of accounts at one block.
type StateDump map[common.Address]AcctDump

func DumpState(db protocol.ChainDB, blockHash common.Hash, addrs []common.Address, keys *DumpKeys) StateDump {
	am := account.NewManager(blockHash, db)
	out := StateDump{}
	for _, a := range addrs {
		out[a] = DumpAccount(db, am, blockHash, a, keys)
	}
	return out
}

// DiffState returns a description of the first differences between two dumps ("" if equal).
func DiffState(a, b StateDump) string {
	addrs := map[common.Address]bool{}
	for k := range a {
		addrs[k] = true
	}
	for k := range b {
		addrs[k] = true
	}
	var list []string
	for k := range addrs {
		list = append(list, k.Hex())
	}
	sort.Strings(list)
	var diffs []string
	for _, h := range list {
		k := common.HexToAddress(h)
		da, db := a[k], b[k]
		fields := map[string]bool{}
		for f := range da {
			fields[f] = true
		}
		for f := range db {
			fields[f] = true
		}
		var fl []string
		for f := range fields {
			fl = append(fl, f)
		}
		sort.Strings(fl)
		for _, f := range fl {
			if da[f] != db[f] {
				diffs = append(diffs, fmt.Sprintf("%s.%s: %q vs %q", h[:12], f, da[f], db[f]))
				if len(diffs) >= 6 {
					return strings.Join(diffs, "; ")
				}
			}
		}
	}
	return strings.Join(diffs, "; ")
}

func (d AcctDump) big(field string) *big.Int {
	v, ok := new(big.Int).SetString(d[field], 10)
	if !ok {
		return new(big.Int)
	}
	return v
}

// Universe returns the account universe of a net plus everything the generator touched
// and every address named in a block's change logs.
func (n *Net) Universe(g *TxGen, blocks ...*types.Block) []common.Address {
	seen := map[common.Address]bool{}
	var out []common.Address
	add := func(a common.Address) {
		if !seen[a] {
			seen[a] = true
			out = append(out, a)
		}
	}
	add(n.Founder.Addr)
	for _, u := range n.Users {
		add(u.Addr)
	}
	for _, d := range n.Deputies {
		add(d.Miner.Addr)
		add(d.Income.Addr)
	}
	add(params.DepositPoolAddress)
	add(params.TermRewardContract)
	add(common.Address{})
	for i := 1; i <= 9; i++ {
		add(common.BytesToAddress([]byte{byte(i)}))
	}
	for i := 0; i < 4; i++ {
		add(common.HexToAddress(fmt.Sprintf("0x0100%04x", i)))
	}
	if g != nil {
		for _, c := range g.Contracts {
			add(c)
		}
		for _, c := range g.Candidates {
			add(c)
		}
	}
	for _, b := range blocks {
		if b == nil {
			continue
		}
		for _, cl := range b.ChangeLogs {
			add(cl.Address)
		}
		for _, tx := range b.Txs {
			add(tx.From())
			if tx.To() != nil {
				add(*tx.To())
			}
			add(tx.GasPayer())
		}
	}
	sort.Slice(out, func(i, j int) bool { return out[i].Hex() < out[j].Hex() })
	return out
}

func (g *TxGen) DumpKeys() *DumpKeys {
	k := &DumpKeys{}
	for i := 0; i < 4; i++ {
		k.Slots = append(k.Slots, common.BigToHash(big.NewInt(int64(i))))
	}
	k.Slots = append(k.Slots, params.TermRewardContract.Hash())
	for _, i := range []int64{0x11, 0x12, 0x13, 0x14, 0x20, 0x21} { // the block-context recorder contract (txgen, stream envc)
		k.Slots = append(k.Slots, common.BigToHash(big.NewInt(i)))
	}
	for _, a := range g.Assets {
		k.AssetCodes = append(k.AssetCodes, a.Code)
		k.AssetIds = append(k.AssetIds, a.Ids...)
	}
	return k
}
