package harness

import (
	"fmt"
	"math/big"
	"strings"
	"time"

	"github.com/LemoFoundationLtd/lemochain-core/chain"
	"github.com/LemoFoundationLtd/lemochain-core/chain/account"
	"github.com/LemoFoundationLtd/lemochain-core/chain/types"
	"github.com/LemoFoundationLtd/lemochain-core/common"
	"github.com/LemoFoundationLtd/lemochain-core/common/crypto"
	"github.com/LemoFoundationLtd/lemochain-core/store"

	"verif/simrt"
)

// C07 — change journal. Four variants (round robin over run indices):
//
//	paths   unit world, operation sequences restricted to what the transaction paths can produce
//	        (caller-side preconditions of asset_tx.go / evm.go hold), one Merge+Finalise at the end
//	wild    unit world, EVERY setter with arbitrary generated arguments, Merge/Finalise anywhere
//	redo    blocks fabricated by the real miner code; RebuildAll on the parent vs executed state
//	discard miner-side discards: block mined from valid+invalid txs vs block mined from the valid ones
//
// The component is sequential: the "schedule" dimension of this check is only the POSITION of
// the abort (= which live snapshot is reverted to, after which operation).

// ---------- the unit world: one store with genesis (+ an optional committed block 1) ----------

type acctWorld struct {
	c    *Ctx
	net  *Net
	tag  int
	home string
	db   *store.ChainDatabase
	gen  *types.Block
	base *types.Block // block the managers under test sit on
}

func newAcctWorld(c *Ctx, net *Net, tag int, home string) *acctWorld {
	w := &acctWorld{c: c, net: net, tag: tag, home: home}
	c.W.Do(tag, "acctworld.start", func() {
		w.db = store.NewChainDataBase(home)
		w.gen = chain.SetupGenesisBlock(w.db, net.genesis)
		w.base = w.gen
	})
	return w
}

// commit turns the manager's pending state into block height+1 on top of base (the way the
// assembler does: merge, finalise, seal, store, save) so that later managers read it from disk.
func (w *acctWorld) commit(am *account.Manager) (err error) {
	w.c.W.Do(w.tag, "acctworld.commit", func() {
		am.MergeChangeLogs()
		if err = am.Finalise(); err != nil {
			return
		}
		var blk *types.Block
		if blk, err = w.sealAndSave(am, "c07"); err == nil {
			w.base = blk
		}
	})
	return
}

// sealAndSave stores the manager's finalised state as a child block of base (header fields as the
// assembler's Seal fills them) and saves the accounts under its hash. Must run inside a task.
func (w *acctWorld) sealAndSave(am *account.Manager, extra string) (*types.Block, error) {
	logs := am.GetChangeLogs()
	h := &types.Header{ParentHash: w.base.Hash(), MinerAddress: w.net.Founder.Addr, VersionRoot: am.GetVersionRoot(),
		TxRoot: (types.Transactions{}).MerkleRootSha(), LogRoot: logs.MerkleRootSha(), Height: w.base.Height() + 1,
		GasLimit: w.base.Header.GasLimit, Time: w.base.Header.Time + 3, Extra: extra}
	blk := types.NewBlock(h, nil, logs)
	if err := w.db.SetBlock(blk.Hash(), blk); err != nil {
		return nil, err
	}
	if err := am.Save(blk.Hash()); err != nil {
		return nil, err
	}
	return blk, nil
}

func (w *acctWorld) close() {
	w.c.W.Do(w.tag, "acctworld.stop", func() {
		if w.db != nil {
			w.db.Close()
		}
	})
	w.c.W.Sleep(2 * time.Second)
}

// ---------- operations ----------

type jop struct {
	K    string // kind
	A    int    // account index
	I    int    // key index (storage key / asset code / asset id / equity id / profile key)
	Big  *big.Int
	B    []byte
	S    string
	Prof types.Profile
	As   *types.Asset
	Eq   *types.AssetEquity
	Sig  types.Signers
	Ev   *types.Event
	Addr common.Address
	Flag bool
	Rev  int // revert: index into the live snapshot stack counted from the innermost
}

func (o *jop) String() string {
	switch o.K {
	case "snapshot", "merge", "finalise", "nop":
		return o.K
	case "revert":
		return fmt.Sprintf("revert(live[-%d])", o.Rev+1)
	case "setBalance", "setVotes":
		return fmt.Sprintf("%s(a%d,%s)", o.K, o.A, o.Big)
	case "setCode":
		return fmt.Sprintf("setCode(a%d,%x)", o.A, o.B)
	case "setStorage":
		return fmt.Sprintf("setStorage(a%d,k%d,%x)", o.A, o.I, o.B)
	case "setVoteFor":
		return fmt.Sprintf("setVoteFor(a%d,%x)", o.A, o.Addr[:3])
	case "setCandidate":
		return fmt.Sprintf("setCandidate(a%d,{%s})", o.A, fmtProfile(o.Prof))
	case "setCandidateState":
		return fmt.Sprintf("setCandidateState(a%d,p%d,%q)", o.A, o.I, o.S)
	case "setAssetCode":
		return fmt.Sprintf("setAssetCode(a%d,c%d,%s)", o.A, o.I, fmtAsset(o.As))
	case "setAssetCodeState":
		return fmt.Sprintf("setAssetCodeState(a%d,c%d,%q,%q)", o.A, o.I, o.Prof["k"], o.S)
	case "setTotalSupply":
		return fmt.Sprintf("setAssetCodeTotalSupply(a%d,c%d,%s)", o.A, o.I, o.Big)
	case "setAssetId":
		return fmt.Sprintf("setAssetIdState(a%d,i%d,%q)", o.A, o.I, o.S)
	case "setEquity":
		return fmt.Sprintf("setEquityState(a%d,e%d,%s)", o.A, o.I, fmtEquity(o.Eq))
	case "setSigners":
		return fmt.Sprintf("setSigners(a%d,[%s])", o.A, fmtSigners(o.Sig))
	case "setSuicide":
		return fmt.Sprintf("setSuicide(a%d,%v)", o.A, o.Flag)
	case "addEvent":
		return fmt.Sprintf("addEvent(a%d,%s)", o.A, fmtEvent(o.Ev))
	case "read":
		return fmt.Sprintf("read(a%d,%s,%d)", o.A, o.S, o.I)
	}
	return o.K
}

var c07ProfileKeys = []string{types.CandidateKeyIsCandidate, types.CandidateKeyHost, types.CandidateKeyPort, types.CandidateKeyDepositAmount, types.AssetFreeze, "x"}
var c07ProfileVals = []string{"", "true", "false", "7001", "a-longer-value-0123456789", "0"}
var c07ReadKinds = []string{"balance", "code", "storage", "assetCode", "assetCodeState", "totalSupply", "assetId", "equity", "candidate", "candidateState", "votes", "voteFor", "signers", "suicide", "roots", "isEmpty"}

type c07U struct {
	c     *Ctx
	wild  bool
	w     *acctWorld
	addrs []common.Address
	skeys []common.Hash
	ckeys []common.Hash
	ikeys []common.Hash
	ekeys []common.Hash
	base0 *stateDump // dump of a fresh manager at the base block, taken before the run
	polluted bool
	run   *amRun
}

// classOf says whether a violation observed on the accounts of ds needed a call that no transaction
// path produces: "" (no) or "/wild". Used as signature suffix so that API-level findings of variant
// wild never hide findings reachable through transactions.
func (u *c07U) classOf(ds []attrDiff) string {
	if u.run == nil {
		return ""
	}
	if u.run.all {
		return "/wild"
	}
	for _, d := range ds {
		if d.Attr == "json" && len(ds) > 1 {
			continue
		}
		for i, a := range u.addrs {
			if a == d.Addr && u.run.taint[i] {
				return "/wild"
			}
		}
		break // the signature names the first difference only
	}
	return ""
}

// fail reports a violation of C07. C07 quantifies over mutation sequences "as produced by nested
// contract calls, asset transactions, box transactions and miner-side discards": a difference
// that needed an API-level call no transaction path makes (class "/wild") is outside the
// statement. It is counted as a probe, never reported, and ends the run.
func (u *c07U) fail(sig, class, format string, args ...interface{}) {
	if class != "" {
		u.c.Probe("outside_quantifier/" + strings.TrimPrefix(strings.TrimPrefix(sig, "C07/"), "C17/"))
		if u.run != nil && u.run.dead == "" {
			u.run.dead = "difference after an API-level call that no transaction path makes"
		}
		return
	}
	u.c.Fail(sig, format, args...)
}

func (u *c07U) classAny() string {
	if u.run != nil && (u.run.all || len(u.run.taint) > 0) {
		return "/wild"
	}
	return ""
}

// checkBase: uncommitted writes of one manager (reverted or not) must not change what a fresh
// manager at the same block reads; otherwise discarded work leaves a trace in the shared parent
// state (and the twin photographs are meaningless). Must run inside a task.
func (u *c07U) checkBase(where string, ops []*jop, upto int, results []string) bool {
	if u.polluted {
		return true
	}
	now := dumpState(account.NewManager(u.w.base.Hash(), u.w.db), u.addrs, u.keysFor)
	gating, _ := splitGating(diffAccounts(u.base0, now))
	if len(gating) > 0 {
		u.polluted = true
		u.fail("C07/base-polluted/"+sigAttr(gating), u.classOf(gating), "a FRESH manager at the base block reads different state after another manager's uncommitted operations (%s):%s\nvariant=%s ops:%s",
			where, diffStrings(gating, 12), u.c.Var, opsString(ops, upto, results))
	}
	return u.polluted
}

func (u *c07U) keysFor(common.Address) keySets {
	return keySets{Storage: u.skeys, AssetCode: u.ckeys, AssetId: u.ikeys, Equity: u.ekeys}
}

func hashN(tag string, n int) []common.Hash {
	out := make([]common.Hash, n)
	for i := range out {
		switch i {
		case 0:
			out[i] = common.BytesToHash([]byte{byte(1)})
		default:
			out[i] = crypto.Keccak256Hash([]byte(fmt.Sprintf("c07/%s/%d", tag, i)))
		}
	}
	return out
}

func (u *c07U) genBig(label string) *big.Int {
	switch u.c.Draw(label, 5) {
	case 0:
		return big.NewInt(0)
	case 1:
		return big.NewInt(int64(1 + u.c.Draw(label, 9)))
	case 2:
		return new(big.Int).Mul(big.NewInt(int64(1+u.c.Draw(label, 1000))), big.NewInt(1e18))
	case 3:
		return new(big.Int).Lsh(big.NewInt(1), uint(8*(1+u.c.Draw(label, 31))))
	}
	return big.NewInt(int64(u.c.Draw(label, 1<<20)))
}

func (u *c07U) genBytes(label string) []byte {
	n := []int{0, 1, 2, 5, 31, 32, 33, 40}[u.c.Draw(label, 8)]
	b := make([]byte, n)
	switch u.c.Draw(label, 3) {
	case 0: // small number, no leading zero
		for i := range b {
			b[i] = byte(1 + u.c.Draw(label, 3))
		}
	case 1: // leading zeros
		if n > 0 {
			b[n-1] = byte(u.c.Draw(label, 256))
		}
	default:
		u.c.T.Bytes(label, b)
	}
	return b
}

func (u *c07U) genProfile(label string) types.Profile {
	p := types.Profile{}
	n := u.c.Draw(label, 4)
	for i := 0; i < n; i++ {
		p[c07ProfileKeys[u.c.Draw(label, len(c07ProfileKeys))]] = c07ProfileVals[u.c.Draw(label, len(c07ProfileVals))]
	}
	return p
}

func (u *c07U) genAsset(label string, code common.Hash, issuer common.Address) *types.Asset {
	a := &types.Asset{Category: uint32(1 + u.c.Draw(label, 3)), IsDivisible: u.c.Draw(label, 2) == 0, AssetCode: code,
		Decimal: uint32(u.c.Draw(label, 19)), TotalSupply: u.genBig(label), IsReplenishable: u.c.Draw(label, 2) == 0, Issuer: issuer, Profile: u.genProfile(label)}
	return a
}

// genOp draws one operation. depth = current number of live snapshots (harness model).
func (u *c07U) genOp(label string, depth int, allowSnap bool) *jop {
	c := u.c
	r := c.Draw(label, 100)
	switch {
	case r < 2:
		return &jop{K: "nop"} // tape value 0 = nothing happens (what shrinking reduces operations to)
	case r < 18:
		o := &jop{K: "read", A: c.Draw(label, len(u.addrs)), S: c07ReadKinds[c.Draw(label, len(c07ReadKinds))]}
		o.I = c.Draw(label, 4)
		return o
	case allowSnap && r >= 72 && r < 86 && depth < 8:
		return &jop{K: "snapshot"}
	case allowSnap && r >= 86 && r < 98 && depth > 0:
		rev := 0
		if c.Draw(label, 3) == 1 { // mostly the innermost one, sometimes any live id
			rev = c.Draw(label, depth)
		}
		return &jop{K: "revert", Rev: rev}
	case allowSnap && u.wild && r >= 98:
		return &jop{K: []string{"merge", "finalise"}[c.Draw(label, 2)]}
	}
	o := &jop{A: c.Draw(label, len(u.addrs))}
	switch c.Draw(label, 16) {
	case 0, 1:
		o.K, o.Big = "setBalance", u.genBig(label)
	case 2:
		o.K, o.B = "setCode", u.genBytes(label)
	case 3, 4, 5:
		o.K, o.I, o.B = "setStorage", c.Draw(label, len(u.skeys)), u.genBytes(label)
	case 6:
		o.K, o.Addr = "setVoteFor", u.addrs[c.Draw(label, len(u.addrs))]
		if c.Draw(label, 4) == 1 {
			o.Addr = common.Address{}
		}
	case 7:
		o.K, o.Big = "setVotes", u.genBig(label)
	case 8:
		o.K, o.Prof = "setCandidate", u.genProfile(label)
	case 9:
		o.K, o.I, o.S = "setCandidateState", c.Draw(label, len(c07ProfileKeys)), c07ProfileVals[c.Draw(label, len(c07ProfileVals))]
	case 10:
		o.K, o.I = "setAssetCode", c.Draw(label, len(u.ckeys))
		if !(u.wild && c.Draw(label, 4) == 1) { // nil = delete, only in wild
			o.As = u.genAsset(label, u.ckeys[o.I], u.addrs[o.A])
		}
	case 11:
		o.K, o.I, o.S = "setAssetCodeState", c.Draw(label, len(u.ckeys)), c07ProfileVals[c.Draw(label, len(c07ProfileVals))]
		o.Prof = types.Profile{"k": c07ProfileKeys[c.Draw(label, len(c07ProfileKeys))]}
	case 12:
		o.K, o.I, o.Big = "setTotalSupply", c.Draw(label, len(u.ckeys)), u.genBig(label)
		o.Flag = c.Draw(label, 8) == 1 // wild: also call it for an asset that does not exist (the setter panics on that: rare on purpose)
	case 13:
		o.K, o.I, o.S = "setAssetId", c.Draw(label, len(u.ikeys)), c07ProfileVals[c.Draw(label, len(c07ProfileVals))]
	case 14:
		o.K, o.I = "setEquity", c.Draw(label, len(u.ekeys))
		if !(u.wild && c.Draw(label, 4) == 1) {
			o.Eq = &types.AssetEquity{AssetCode: u.ckeys[c.Draw(label, len(u.ckeys))], AssetId: u.ekeys[o.I], Equity: u.genBig(label)}
		}
	default:
		switch c.Draw(label, 4) {
		case 0, 1:
			o.K = "setSigners"
			n := c.Draw(label, 4)
			for i := 0; i < n; i++ {
				o.Sig = append(o.Sig, types.SignAccount{Address: u.addrs[c.Draw(label, len(u.addrs))], Weight: uint8(1 + c.Draw(label, 100))})
			}
			if n > 0 && c.Draw(label, 2) == 0 {
				o.Sig[n-1].Weight = 100
			}
		case 2:
			o.K, o.Flag = "setSuicide", true
			if u.wild && c.Draw(label, 3) == 1 {
				o.Flag = false
			}
		default:
			o.K = "addEvent"
			o.Ev = &types.Event{Address: u.addrs[o.A], Topics: []common.Hash{common.BytesToHash([]byte{byte(c.Draw(label, 4))})}, Data: u.genBytes(label)}
		}
	}
	return o
}

// ---------- applying operations to a manager ----------

type snapRec struct {
	id    int
	opIdx int
	photo *stateDump
}

type amRun struct {
	am    *account.Manager
	taint map[int]bool // accounts that received a call no transaction path produces (variant wild)
	all   bool         // Merge/Finalise happened inside the sequence (variant wild)
	stack []snapRec
	dead  string // non-empty: a setter panicked (sequence stops; nothing after it is judged)
}

// apply executes one non-snapshot/revert operation. It returns a short result string (value read
// or error returned), and (panicked) whether the call panicked.
func (u *c07U) apply(r *amRun, o *jop) (res string, panicked bool) {
	defer func() {
		if p := recover(); p != nil {
			res, panicked = fmt.Sprintf("PANIC(%v)", p), true
		}
	}()
	am := r.am
	errs := func(err error) string {
		if err != nil {
			return "err:" + err.Error()
		}
		return "ok"
	}
	switch o.K {
	case "nop":
		return "", false
	case "merge":
		am.MergeChangeLogs()
		return "ok", false
	case "finalise":
		return errs(am.Finalise()), false
	case "addEvent":
		am.AddEvent(o.Ev)
		return "ok", false
	}
	acc := am.GetAccount(u.addrs[o.A])
	// guard(ok): ok = the caller-side precondition under which the transaction paths make this call
	// holds. Variant paths skips the call otherwise; variant wild makes it and marks the account, so
	// that a later violation on this account is classified ".../wild" (needs an API-level call that
	// no transaction path produces).
	guard := func(ok bool) (skip bool) {
		if ok {
			return false
		}
		if !u.wild {
			return true
		}
		r.taint[o.A] = true
		return false
	}
	switch o.K {
	case "setBalance":
		acc.SetBalance(o.Big)
	case "setCode":
		// evm.Create sets code whenever IsEmpty() holds, i.e. no COMMITTED version record: a second CREATE by
		// the same contract in the same transaction derives the same address and overwrites uncommitted code
		if guard(acc.IsEmpty()) {
			return "skip", false
		}
		acc.SetCode(types.Code(o.B))
	case "setStorage":
		// SSTORE writes big.Int.Bytes() (no leading zero), the reward precompile writes JSON
		if guard(len(o.B) == 0 || o.B[0] != 0) {
			return "skip", false
		}
		return errs(acc.SetStorageState(u.skeys[o.I], o.B)), false
	case "setVoteFor":
		acc.SetVoteFor(o.Addr)
	case "setVotes":
		acc.SetVotes(o.Big)
	case "setCandidate":
		// registerCandidate / modifyCandidateInfo always pass a profile with isCandidate, host, port ...
		if guard(len(o.Prof) > 0) {
			return "skip", false
		}
		acc.SetCandidate(o.Prof)
	case "setCandidateState":
		// unRegisterCandidate / Refund only overwrite keys of an existing candidate profile
		_, has := acc.GetCandidate()[c07ProfileKeys[o.I]]
		if guard(has) {
			return "skip", false
		}
		acc.SetCandidateState(c07ProfileKeys[o.I], o.S)
	case "setAssetCode":
		// CreateAssetTx: asset code = tx hash, always fresh, asset never nil
		_, err := acc.GetAssetCode(u.ckeys[o.I])
		if guard(err == types.ErrAssetNotExist && o.As != nil) {
			return "skip", false
		}
		return errs(acc.SetAssetCode(u.ckeys[o.I], o.As)), false
	case "setAssetCodeState":
		// ModifyAssetProfileTx / Issue / Replenish read the asset first and return if it is missing
		_, err := acc.GetAssetCode(u.ckeys[o.I])
		if guard(err == nil) {
			return "skip", false
		}
		return errs(acc.SetAssetCodeState(u.ckeys[o.I], o.Prof["k"], o.S)), false
	case "setTotalSupply":
		_, err := acc.GetAssetCode(u.ckeys[o.I])
		if err != nil && !o.Flag {
			return "skip", false
		}
		if guard(err == nil) {
			return "skip", false
		}
		return errs(acc.SetAssetCodeTotalSupply(u.ckeys[o.I], o.Big)), false
	case "setAssetId":
		return errs(acc.SetAssetIdState(u.ikeys[o.I], o.S)), false
	case "setEquity":
		// IssueAssetTx / ReplenishAssetTx / TransferAssetTx never pass nil
		if guard(o.Eq != nil) {
			return "skip", false
		}
		return errs(acc.SetEquityState(u.ekeys[o.I], o.Eq)), false
	case "setSigners":
		// ModifyMultisigTx: distinct addresses, weights 1..100, total weight >= 100 (hence never empty)
		total, seen, dup := 0, map[common.Address]bool{}, false
		for _, x := range o.Sig {
			if seen[x.Address] {
				dup = true
			}
			seen[x.Address] = true
			total += int(x.Weight)
		}
		if guard(!dup && total >= 100) {
			return "skip", false
		}
		return errs(acc.SetSingers(o.Sig)), false
	case "setSuicide":
		// SELFDESTRUCT: only a contract (an account with code) that is not already destroyed. Contract
		// accounts have no key, so they never issue assets (no asset-code / asset-id entries).
		code, err := acc.GetCode()
		ks := cachedKeys(am, u.addrs[o.A])
		if guard(o.Flag && err == nil && len(code) != 0 && !acc.GetSuicide() && acc.GetAssetCodeRoot() == (common.Hash{}) && acc.GetAssetIdRoot() == (common.Hash{}) &&
			len(ks.AssetCode) == 0 && len(ks.AssetId) == 0) {
			return "skip", false
		}
		acc.SetSuicide(o.Flag)
	case "read":
		return u.read(acc, o), false
	}
	return "ok", false
}

func (u *c07U) read(acc types.AccountAccessor, o *jop) string {
	es := func(v interface{}, err error) string {
		if err != nil {
			return "err:" + err.Error()
		}
		return fmt.Sprint(v)
	}
	switch o.S {
	case "balance":
		return acc.GetBalance().String()
	case "code":
		code, err := acc.GetCode()
		return es(fmt.Sprintf("%x", []byte(code)), err)
	case "storage":
		v, err := acc.GetStorageState(u.skeys[o.I%len(u.skeys)])
		return es(fmt.Sprintf("%x", v), err)
	case "assetCode":
		a, err := acc.GetAssetCode(u.ckeys[o.I%len(u.ckeys)])
		return es(fmtAsset(a), err)
	case "assetCodeState":
		v, err := acc.GetAssetCodeState(u.ckeys[o.I%len(u.ckeys)], c07ProfileKeys[o.I%len(c07ProfileKeys)])
		return es(v, err)
	case "totalSupply":
		v, err := acc.GetAssetCodeTotalSupply(u.ckeys[o.I%len(u.ckeys)])
		return es(v, err)
	case "assetId":
		v, err := acc.GetAssetIdState(u.ikeys[o.I%len(u.ikeys)])
		return es(v, err)
	case "equity":
		e, err := acc.GetEquityState(u.ekeys[o.I%len(u.ekeys)])
		return es(fmtEquity(e), err)
	case "candidate":
		return fmtProfile(acc.GetCandidate())
	case "candidateState":
		return acc.GetCandidateState(c07ProfileKeys[o.I%len(c07ProfileKeys)])
	case "votes":
		return acc.GetVotes().String()
	case "voteFor":
		return acc.GetVoteFor().Hex()
	case "signers":
		return fmtSigners(acc.GetSigners())
	case "suicide":
		return fmt.Sprint(acc.GetSuicide())
	case "roots":
		return fmt.Sprintf("%x %x %x %x", acc.GetStorageRoot(), acc.GetAssetCodeRoot(), acc.GetAssetIdRoot(), acc.GetEquityRoot())
	}
	return fmt.Sprint(acc.IsEmpty())
}

// replay runs ops[0:n] on a fresh manager (no observation) and returns it: the twin used as the
// "photograph" of a snapshot in twin mode, so that taking the photograph does not touch the
// caches of the manager under test.
func (u *c07U) replay(ops []*jop, n int) *amRun {
	r := &amRun{am: account.NewManager(u.w.base.Hash(), u.w.db), taint: map[int]bool{}}
	for i := 0; i < n; i++ {
		o := ops[i]
		switch o.K {
		case "snapshot":
			r.stack = append(r.stack, snapRec{id: r.am.Snapshot(), opIdx: i})
		case "revert":
			if len(r.stack) == 0 {
				continue
			}
			idx := len(r.stack) - 1 - o.Rev%len(r.stack)
			func() {
				defer func() {
					if p := recover(); p != nil {
						r.dead = fmt.Sprint(p)
					}
				}()
				r.am.RevertToSnapshot(r.stack[idx].id)
			}()
			r.stack = r.stack[:idx]
		default:
			if _, pan := u.apply(r, o); pan {
				r.dead = "setter panic"
			}
			if o.K == "merge" || o.K == "finalise" {
				r.stack = nil
			}
		}
		if r.dead != "" {
			break
		}
	}
	return r
}

func sigAttr(ds []attrDiff) string {
	for _, d := range ds {
		if d.Attr != "json" {
			return attrClass(d.Attr)
		}
	}
	return "json"
}

func sanitizeErr(v interface{}) string {
	s := fmt.Sprint(v)
	if i := strings.IndexByte(s, '\n'); i >= 0 {
		s = s[:i]
	}
	if strings.Contains(s, "nil pointer dereference") {
		return "nil-deref"
	}
	if strings.Contains(s, "index out of range") || strings.Contains(s, "slice bounds out of range") {
		return "index-out-of-range"
	}
	s = strings.Map(func(r rune) rune {
		if (r >= 'a' && r <= 'z') || (r >= 'A' && r <= 'Z') {
			return r
		}
		if r == ' ' || r == '-' || r == '_' {
			return '-'
		}
		return -1
	}, s)
	if len(s) > 60 {
		s = s[:60]
	}
	return s
}

func opsString(ops []*jop, upto int, results []string) string {
	var b strings.Builder
	for i := 0; i <= upto && i < len(ops); i++ {
		if ops[i].K == "nop" {
			continue
		}
		fmt.Fprintf(&b, "\n  %2d %s", i, ops[i])
		if i < len(results) && results[i] != "" && results[i] != "ok" {
			fmt.Fprintf(&b, "  -> %s", clip(results[i], 80))
		}
	}
	return b.String()
}

func c07Unit(c *Ctx) {
	u := &c07U{c: c, wild: c.Var == "wild"}
	net := NewNet(c, defaultParams(c))
	u.w = newAcctWorld(c, net, 1, "/sim/c07/chaindata")
	defer u.w.close()
	// universe: <=5 accounts (fresh ones, the founder who holds the genesis supply, a genesis candidate)
	nAcc := 2 + c.Draw("gen", 4)
	pool := []common.Address{common.HexToAddress("0xc07a000000000000000000000000000000000001"), net.Founder.Addr,
		common.HexToAddress("0xc07a000000000000000000000000000000000002"), net.Deputies[0].Miner.Addr, common.HexToAddress("0xc07a000000000000000000000000000000000003")}
	u.addrs = pool[:nAcc]
	u.skeys, u.ckeys, u.ikeys, u.ekeys = hashN("s", 4), hashN("c", 3), hashN("i", 3), hashN("e", 3)

	// optional committed prefix (block 1): accounts get non-zero versions, stored code, trie-backed entries
	nPre := []int{0, 0, 6, 14}[c.Draw("gen", 4)]
	preTaint := map[int]bool{}
	if nPre > 0 {
		pre := &amRun{am: account.NewManager(u.w.base.Hash(), u.w.db), taint: map[int]bool{}}
		var done []string
		ok := true
		c.W.Do(1, "c07.prefix", func() {
			for i := 0; i < nPre; i++ {
				o := u.genOp("pre", 0, false)
				if o.K == "read" {
					continue
				}
				res, pan := u.apply(pre, o)
				done = append(done, o.String()+"->"+res)
				if pan {
					ok = false // a panicking setter in the prefix: state undefined, use plain genesis instead
					return
				}
			}
		})
		if ok {
			if err := u.w.commit(pre.am); err != nil {
				// the assembler would have failed to produce this block; run on genesis
				c.Probe("prefix_commit_failed")
			} else {
				c.Probe("prefix_committed")
				preTaint = pre.taint
			}
		} else {
			c.Probe("prefix_setter_panic")
		}
	}

	// what a fresh manager reads at the base block before anything happens
	c.W.Do(1, "c07.base0", func() { u.base0 = dumpState(account.NewManager(u.w.base.Hash(), u.w.db), u.addrs, u.keysFor) })

	// generate the whole sequence up front (operations do not depend on results)
	nOps := 8 + c.Draw("gen", 53)
	twin := c.Draw("gen", 2) == 1
	var ops []*jop
	depth := 0
	for i := 0; i < nOps; i++ {
		o := u.genOp("op", depth, true)
		switch o.K {
		case "snapshot":
			depth++
		case "revert":
			depth -= 1 + o.Rev%depth // resolved against the live stack when applied
		case "merge", "finalise":
			depth = 0
		}
		ops = append(ops, o)
	}

	run := &amRun{am: account.NewManager(u.w.base.Hash(), u.w.db), taint: map[int]bool{}}
	for k := range preTaint {
		run.taint[k] = true
	}
	u.run = run
	results := make([]string, len(ops))
	maxDepth, reverts, writesAfterRevert, revertedLogs := 0, 0, 0, 0
	sawRevert := false
	blockShaped := true // no merge/finalise inside the sequence
	kinds := map[string]bool{}
	body := func() {
		for i, o := range ops {
			if run.dead != "" {
				return
			}
			switch o.K {
			case "snapshot":
				rec := snapRec{opIdx: i}
				if !twin {
					rec.photo = dumpState(run.am, u.addrs, u.keysFor)
					c.State(hashDump(rec.photo))
				}
				rec.id = run.am.Snapshot()
				run.stack = append(run.stack, rec)
				if len(run.stack) > maxDepth {
					maxDepth = len(run.stack)
				}
				results[i] = fmt.Sprintf("id=%d", rec.id)
			case "revert":
				if len(run.stack) == 0 {
					results[i] = "skip"
					continue
				}
				idx := len(run.stack) - 1 - o.Rev%len(run.stack)
				rec := run.stack[idx]
				before := len(run.am.GetChangeLogs())
				var pan interface{}
				func() {
					defer func() { pan = recover() }()
					run.am.RevertToSnapshot(rec.id)
				}()
				if pan != nil {
					u.fail("C07/revert/panic/"+sanitizeErr(pan), u.classAny(), "RevertToSnapshot(%d) (snapshot taken at op %d, %d live snapshots) failed: %v\nvariant=%s ops:%s",
						rec.id, rec.opIdx, len(run.stack), pan, c.Var, opsString(ops, i, results))
					run.dead = "revert panic"
					return
				}
				c.Fault("revert")
				reverts++
				sawRevert = true
				if idx < len(run.stack)-1 {
					c.Fault("revert_outer")
				}
				run.stack = run.stack[:idx]
				photo := rec.photo
				if photo == nil { // twin mode: replay the same history up to the snapshot on a fresh manager
					if u.checkBase("before building a twin", ops, i, results) {
						results[i] = "base-polluted"
						continue
					}
					t := u.replay(ops, rec.opIdx)
					if t.dead != "" {
						results[i] = "twin-dead"
						continue
					}
					photo = dumpState(t.am, u.addrs, u.keysFor)
					c.Probe("twin_photo")
				}
				now := dumpState(run.am, u.addrs, u.keysFor)
				c.State(hashDump(now))
				revertedLogs += before - now.LogLen
				gating, other := splitGating(diffAccounts(photo, now))
				if len(other) > 0 {
					c.Probe("events_list_not_restored_by_revert")
				}
				if len(gating) > 0 {
					u.fail("C07/revert/"+sigAttr(gating), u.classOf(gating), "state after RevertToSnapshot(%d) differs from the state when the snapshot was taken (op %d):%s\nvariant=%s twin=%v ops:%s",
						rec.id, rec.opIdx, diffStrings(gating, 12), c.Var, twin, opsString(ops, i, results))
				}
				if now.LogLen != photo.LogLen {
					c.Fail("C07/revert/journal-length", "journal has %d entries after RevertToSnapshot(%d), had %d when the snapshot was taken (op %d)\nops:%s",
						now.LogLen, rec.id, photo.LogLen, rec.opIdx, opsString(ops, i, results))
				} else {
					for k := range photo.Logs {
						if photo.Logs[k] != now.Logs[k] {
							c.Fail("C07/revert/journal-content", "journal entry %d changed across snapshot(op %d)/revert: %s -> %s\nops:%s", k, rec.opIdx, clip(photo.Logs[k], 160), clip(now.Logs[k], 160), opsString(ops, i, results))
							break
						}
					}
				}
				results[i] = fmt.Sprintf("to id=%d logs %d->%d", rec.id, before, now.LogLen)
			default:
				res, pan := u.apply(run, o)
				results[i] = res
				if pan {
					// no clause of C07 speaks about setters rejecting arguments by panicking; count and stop
					c.Probe("setter_panic/" + o.K)
					run.dead = "setter panic"
					return
				}
				if o.K != "read" && o.K != "nop" && res != "skip" {
					kinds[o.K] = true
					if sawRevert {
						writesAfterRevert++
					}
				}
				if strings.HasPrefix(res, "err:") {
					if o.K == "read" {
						c.Probe("read_returned_error")
					} else {
						c.Probe("setter_error/" + o.K)
					}
				}
				if o.K == "merge" || o.K == "finalise" {
					// journal compaction / end of block: older snapshot ids are not live any more
					run.stack = nil
					run.all = true
					blockShaped = false
				}
			}
			simrt.Log("c07.op", int64(i), 0, o.K+"="+clip(results[i], 60))
		}
	}
	c.W.Do(1, "c07.ops", body)
	c.W.Do(1, "c07.base1", func() { u.checkBase("end of sequence", ops, len(ops), results) })
	if maxDepth >= 3 {
		c.Probe("nesting>=3")
	}
	if maxDepth >= 6 {
		c.Probe("nesting>=6")
	}
	if writesAfterRevert > 0 && reverts >= 2 {
		c.Probe("write_after_revert_then_revert")
	}
	c.Nontrivial = reverts >= 1 && revertedLogs >= 1
	c.Sample = map[string]interface{}{"variant": c.Var, "accounts": nAcc, "committed_prefix_ops": nPre, "twin": twin, "ops": len(ops), "reverts": reverts, "max_depth": maxDepth,
		"reverted_logs": revertedLogs, "first_ops": strings.Split(strings.TrimSpace(opsString(ops, 11, results)), "\n")}

	// ---- redo at unit level: the published (merged, RLP round-tripped) journal replayed on the parent ----
	if run.dead != "" || c.Failed() || !blockShaped {
		return
	}
	c.W.Do(1, "c07.redo", func() { u.unitRedo(run, ops, results) })
}

// unitRedo ends the block the way the assembler does (merge, finalise), publishes the journal
// (RLP round trip: OldVal is not transmitted), replays it with RebuildAll on a fresh manager at
// the same parent, saves both as sibling blocks and compares what fresh managers read from the
// two. Statement: "replaying a block's published change logs onto its parent state yields the
// same state as executing the block".
func (u *c07U) unitRedo(run *amRun, ops []*jop, results []string) {
	c := u.c
	var pan interface{}
	var ferr error
	func() {
		defer func() { pan = recover() }()
		run.am.MergeChangeLogs()
		ferr = run.am.Finalise()
	}()
	if pan != nil {
		c.Fail("C07/finalise/panic/"+sanitizeErr(pan), "MergeChangeLogs/Finalise panicked at the end of the sequence: %v\nops:%s", pan, opsString(ops, len(ops), results))
		return
	}
	if ferr != nil {
		c.Probe("finalise_error")
		return
	}
	logs := run.am.GetChangeLogs()
	var published types.ChangeLogSlice
	for i, l := range logs {
		b, err := rlpEncode(l)
		if err != nil {
			// a block with this journal cannot be published at all
			c.Probe("journal_entry_does_not_encode")
			return
		}
		out := new(types.ChangeLog)
		if err := rlpDecode(b, out); err != nil {
			c.Fail("C07/redo/journal-decode", "published change log %d (%s) does not decode: %v", i, l.String(), err)
			return
		}
		published = append(published, out)
	}
	blk := types.NewBlock(&types.Header{ParentHash: u.w.base.Hash(), Height: u.w.base.Height() + 1}, nil, published)
	re := account.NewManager(u.w.base.Hash(), u.w.db)
	var rerr error
	func() {
		defer func() { pan = recover() }()
		rerr = re.RebuildAll(blk)
		if rerr == nil {
			rerr = re.Finalise()
		}
	}()
	if pan != nil {
		u.fail("C07/redo/panic/"+sanitizeErr(pan), u.classAny(), "RebuildAll of the published journal panicked: %v\njournal:%s\nops:%s", pan, logsString(logs), opsString(ops, len(ops), results))
		return
	}
	if rerr != nil {
		u.fail("C07/redo/error/"+sanitizeErr(rerr), u.classAny(), "RebuildAll of the published journal failed: %v\njournal:%s\nops:%s", rerr, logsString(logs), opsString(ops, len(ops), results))
		return
	}
	c.Fault("redo")
	if len(logs) > 0 {
		c.Probe("unit_redo_nonempty")
	}
	// in-memory views (caches of the two managers): informative only, the redo side executes nothing further
	memWant := dumpState(run.am, u.addrs, u.keysFor)
	memGot := dumpState(re, u.addrs, u.keysFor)
	if g, _ := splitGating(diffAccounts(memWant, memGot)); len(g) > 0 {
		c.Probe("redo_inmemory_view_differs/" + sigAttr(g))
	}
	vrA, vrB := run.am.GetVersionRoot(), re.GetVersionRoot()
	blkA, errA := u.w.sealAndSave(run.am, "executed")
	if errA != nil {
		c.Probe("save_error_executed")
		return
	}
	blkB, errB := u.w.sealAndSave(re, "rebuilt")
	if errB != nil {
		c.Fail("C07/redo/save-error", "the executed state was saved, the state rebuilt from its journal cannot be saved: %v\njournal:%s\nops:%s", errB, logsString(logs), opsString(ops, len(ops), results))
		return
	}
	want := dumpState(account.NewManager(blkA.Hash(), u.w.db), u.addrs, u.keysFor)
	got := dumpState(account.NewManager(blkB.Hash(), u.w.db), u.addrs, u.keysFor)
	c.State(hashDump(want))
	if c.Prop == "C17" {
		// C17: "a committed trie reopened from the database by root has the same content": what a fresh manager
		// reads from the saved block (the four per-account tries reopened by the roots in the account record)
		// against what the executing manager held in memory when it saved
		g, _ := splitGating(diffAccounts(memWant, want))
		var pers []attrDiff
		for _, d := range g {
			if d.Attr != "suicide" { // the self-destruct flag lives in memory for the rest of the block only
				pers = append(pers, d)
			}
		}
		if g = pers; len(g) > 0 {
			u.fail("C17/account/reopened-differs/"+sigAttr(g), u.classOf(g), "the state a fresh manager reads from the saved block differs from the state the saving manager held (account tries reopened by root):%s\nvariant=%s journal:%s\nops:%s",
				diffStrings(g, 12), c.Var, logsString(logs), opsString(ops, len(ops), results))
		}
		return
	}
	gating, _ := splitGating(diffAccounts(want, got))
	if len(gating) > 0 {
		u.fail("C07/redo/"+sigAttr(gating), u.classOf(gating), "saved state rebuilt from the published journal differs from the saved executed state:%s\nvariant=%s journal:%s\nops:%s",
			diffStrings(gating, 12), c.Var, logsString(logs), opsString(ops, len(ops), results))
	} else if vrA != vrB {
		c.Fail("C07/redo/version-root", "version root after RebuildAll+Finalise is %x, the executed block's is %x\njournal:%s\nops:%s", vrB, vrA, logsString(logs), opsString(ops, len(ops), results))
	}
}

func logsString(logs types.ChangeLogSlice) string {
	var b strings.Builder
	for i, l := range logs {
		if i >= 40 {
			fmt.Fprintf(&b, "\n  ... %d more", len(logs)-40)
			break
		}
		fmt.Fprintf(&b, "\n  %s", clip(l.String(), 220))
	}
	return b.String()
}

// c07Calls decides the clause "a failed contract call leaves [no trace] beyond the failure event the
// platform deliberately records" on the EVM world of C16 (generated contracts, Call/Create entries,
// out-of-gas sweep, nested failures): only the failed-call clauses of that scenario count here, under
// C07 signatures; everything else it checks is C16's business and is dropped.
func c07Calls(c *Ctx) {
	c16Scenario(c)
	var keep []Violation
	for _, v := range c.Violations {
		for _, pre := range []string{"C16/failed-", "C16/nested-failed-", "C16/nested-failure/", "C16/out-of-gas/"} {
			if strings.HasPrefix(v.Sig, pre) {
				v.Sig = "C07/failed-call/" + strings.TrimPrefix(v.Sig, "C16/")
				keep = append(keep, v)
				break
			}
		}
	}
	c.Violations = keep
}

// c07Twin decides "a transaction the miner discards leaves no trace at all" on the chain world of C01: a twin
// miner that is offered only the transactions the first miner packaged (same parent, instant, gas limit) must
// produce the same block, whatever the first miner discarded or left out for lack of block gas (also in the
// middle of a box). Only the twin clauses of that scenario count here, under C07 signatures.
func c07Twin(c *Ctx) {
	c.Var = "mixed"
	c01Scenario(c)
	c.Var = "twin"
	var keep []Violation
	for _, v := range c.Violations {
		if strings.HasPrefix(v.Sig, "C01/twin/") {
			v.Sig = "C07/discard/twin/" + strings.TrimPrefix(v.Sig, "C01/twin/")
			keep = append(keep, v)
		}
	}
	c.Violations = keep
}

func c07Scenario(c *Ctx) {
	switch c.Var {
	case "twin":
		c07Twin(c)
	case "redo":
		c07Redo(c)
	case "discard":
		c07Discard(c)
	case "calls":
		c07Calls(c)
	default:
		c07Unit(c)
	}
}

func init() {
	Register(&PropDef{
		ID:       "C07",
		Variants: []string{"paths", "wild", "paths", "redo", "wild", "discard", "calls", "twin"},
		Scenario: c07Scenario,
		Rule: "unit variants (paths/wild): 8-60 tape-generated operations on 2-5 accounts of a real account.Manager over the real store (genesis, optionally a committed block 1 " +
			"built from 6-14 generated setters): every SafeAccount setter, Manager.AddEvent, interleaved getters, Snapshot (depth <= 8), RevertToSnapshot(innermost or any live id), " +
			"writes after revert, (wild) Merge/Finalise anywhere; the photograph of a snapshot is either a full dump taken on the manager itself or the dump of a twin manager that " +
			"replayed the same history; after the sequence the merged journal is RLP round-tripped and replayed with RebuildAll on the parent. A unit run is non-trivial when >=1 revert " +
			"undid >=1 journal entry. redo variant: 1-3 blocks mined by the real assembler/tx processor, non-trivial when >=1 block with >=1 transaction was rebuilt. discard variant: " +
			"non-trivial when the miner discarded >=1 transaction and packaged >=1. calls variant: the EVM world of C16 (see there), only its failed-call clauses. twin variant: the chain world of C01 (see there), only its twin-miner clauses. distinct = distinct event-log digests (operations and their results are logged)",
		Real: []string{"chain/account (Manager, SafeAccount, Account, LogProcessor, change logs, log merging)", "chain/types change-log codec", "store (ChainDatabase, tries) on the simulated disk",
			"redo/discard: chain/consensus BlockAssembler + chain/transaction TxProcessor + chain/vm via the block factory"},
		Stub: []string{"callers of the account layer (operation sequences generated from the tape)"},
		Assumptions: []string{
			"snapshot ids taken before MergeChangeLogs/Finalise are not considered live afterwards (journal compaction rewrites the entries they point into); in the node both calls end the block",
			"variant paths restricts arguments to what the transaction paths produce (code only set on code-less accounts, asset state only on existing assets, self-destruct only on contracts without issuer entries); variant wild does not",
			"a setter that panics on its arguments ends the run and is counted as probe setter_panic/<kind>, because no clause of the statement covers it",
			"the per-account list behind GetEvents() is dumped but does not gate (not named by the statement; events are published through AddEventLog journal entries, which are compared)",
		},
	})
}
