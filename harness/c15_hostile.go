package harness

// C15 - "No bytes from the network can crash a node or make it allocate without bound".
//
// World: netsim, byte level. One full node (observer) with the real p2p.Server event loop,
// real p2p.Peer (DoHandshake, Run: readLoop + heartbeatLoop), real ProtocolManager and chain.
// An attacker opens 1-3 simulated TCP connections one after the other and sends
//   - before / during the handshake: garbage, truncated or oversized or zero-length handshake
//     frames, ECIES-encrypted but meaningless requests, a mutated copy of a genuine request,
//     nothing at all (silence, half-open);
//   - after a genuine handshake (the repo's own client code, deterministic key; the session
//     key is read through the verif hook): encrypted frames of every length class (not a
//     block multiple, one block, padding only, < 4 bytes of plaintext), raw garbage,
//     truncated frames, absurd length fields, and well-framed messages with every code
//     0..0x1F and codes above, carrying empty / random / valid / mutated-valid / deeply nested /
//     type-confused / extreme-value payloads (requests with extreme ranges, decodable but
//     absurd blocks, confirmations and transactions that reach the chain and the pool).
// The node end of a connection splits reads at tape-chosen offsets.
//
// Oracles (from the statement):
//   1. no panic in any node task (recorded by the framework: C15/panic/<pkg.func>);
//   2. no unbounded work on bounded input: the run's step budget is never exhausted;
//   3. memory: TotalAlloc delta of the process while one attack connection is served
//      <= 64 x bytes the attacker sent on it + 32 MiB;
//   4. no deadlock: after the attack an honest peer completes handshake, protocol handshake,
//      one block request and one block delivery within 60 simulated seconds.

import (
	"encoding/binary"
	"fmt"
	"math/big"
	"runtime"
	"sort"
	"strings"
	"time"

	"github.com/LemoFoundationLtd/lemochain-core/chain/params"
	"github.com/LemoFoundationLtd/lemochain-core/chain/types"
	"github.com/LemoFoundationLtd/lemochain-core/common"
	"github.com/LemoFoundationLtd/lemochain-core/common/crypto"
	"github.com/LemoFoundationLtd/lemochain-core/common/crypto/ecies"
	"github.com/LemoFoundationLtd/lemochain-core/common/rlp"
	"github.com/LemoFoundationLtd/lemochain-core/network"
	"github.com/LemoFoundationLtd/lemochain-core/network/p2p"

	crand "crypto/rand"

	"verif/simrt"
)

const (
	c15AllocFactor = 64
	c15AllocSlack  = 32 << 20
)

type c15Env struct {
	c         *Ctx
	net       *Net
	f         *Factory
	nn        *NetNode
	blks      []*types.Block // 0 genesis, 1..2 on the node, 3 attacker's valid sample, 4 reserved for the honest peer
	conf      [][]types.SignData
	tx        *types.Transaction
	nodeID    p2p.NodeID
	signedSibling bool // the attack contained a block at a probe height signed by that block's rightful miner
	conns     []*simConn
	log       []string
	sentTotal int64
	nodeAlloc int64
	nConn     int
	cur       string           // stable class of the bytes sent last (for attributing allocations)
	allocBy   map[string]int64 // node-side allocation per class within the current connection
	deep      bool             // this session sends only decodable payloads under defined codes (they reach the handlers' logic)
	down      bool             // shutdown has run
}

func (e *c15Env) logf(format string, a ...interface{}) {
	if len(e.log) < 200 {
		e.log = append(e.log, fmt.Sprintf("+%.1fs ", time.Since(time.Unix(int64(e.net.GenesisT), 0)).Seconds())+fmt.Sprintf(format, a...))
	}
}

func (e *c15Env) trace() string { return "attack trace:\n  " + strings.Join(e.log, "\n  ") }

func totalAlloc() uint64 {
	var ms runtime.MemStats
	runtime.ReadMemStats(&ms)
	return ms.TotalAlloc
}

// panicked reports that the simulated process is dead: a node task panicked, or the step
// budget is exhausted (every further scheduling point would abort its task).
func (e *c15Env) panicked() bool { return len(e.c.W.Panics()) > 0 || e.c.W.S.Overrun }

// settle / sleep hand control to the node (and to the attacker's handshake task). Only
// during these intervals node code runs, so the TotalAlloc deltas accumulated here are the
// node's allocations; buffers the attacker builds in between are not counted.
func (e *c15Env) settle() {
	a := totalAlloc()
	e.c.W.Settle()
	e.account(int64(totalAlloc() - a))
}

func (e *c15Env) sleep(d time.Duration) {
	a := totalAlloc()
	e.c.W.Sleep(d)
	e.account(int64(totalAlloc() - a))
}

func (e *c15Env) account(d int64) {
	if d > 4<<20 {
		e.logf("   (node allocated %d MiB in this interval)", d>>20)
	}
	e.nodeAlloc += d
	if e.allocBy != nil {
		e.allocBy[e.cur] += d
	}
}

// ---------- payload generators ----------

func be32(v uint32) []byte {
	b := make([]byte, 4)
	binary.BigEndian.PutUint32(b, v)
	return b
}

func (e *c15Env) randBytes(label string, n int) []byte {
	b := make([]byte, n)
	// cheap: 8 tape bytes expanded by splitmix (long tape streams make shrinking slow)
	seed := uint64(0)
	for i := 0; i < 4; i++ {
		seed = seed<<8 | uint64(e.c.Draw("b:"+label, 256))
	}
	x := seed
	for i := range b {
		x += 0x9e3779b97f4a7c15
		z := x
		z = (z ^ (z >> 30)) * 0xbf58476d1ce4e5b9
		z = (z ^ (z >> 27)) * 0x94d049bb133111eb
		b[i] = byte((z ^ (z >> 31)) >> 16)
	}
	return b
}

func rlpListHeader(n int) []byte {
	if n < 56 {
		return []byte{0xc0 + byte(n)}
	}
	var l []byte
	for x := n; x > 0; x >>= 8 {
		l = append([]byte{byte(x)}, l...)
	}
	return append([]byte{0xf7 + byte(len(l))}, l...)
}

// rlpNest returns depth lists nested in each other around an empty list (linear time).
func rlpNest(depth int) []byte {
	hdrs := make([][]byte, depth)
	size := 1
	for i := 0; i < depth; i++ {
		hdrs[i] = rlpListHeader(size)
		size += len(hdrs[i])
	}
	out := make([]byte, 0, size)
	for i := depth - 1; i >= 0; i-- {
		out = append(out, hdrs[i]...)
	}
	return append(out, 0xc0)
}

// rlpItem is one item of an encoded RLP value.
type rlpItem struct {
	off, hdr, size int // offset of the header, header length, payload length
	list           bool
	kids           []*rlpItem
}

func rlpParse(b []byte, off int) *rlpItem {
	if off >= len(b) {
		return nil
	}
	t := b[off]
	it := &rlpItem{off: off}
	switch {
	case t < 0x80:
		it.hdr, it.size = 0, 1
	case t < 0xb8:
		it.hdr, it.size = 1, int(t-0x80)
	case t < 0xc0:
		n := int(t - 0xb7)
		if off+1+n > len(b) || n > 4 {
			return nil
		}
		it.hdr = 1 + n
		for _, x := range b[off+1 : off+1+n] {
			it.size = it.size<<8 | int(x)
		}
	case t < 0xf8:
		it.hdr, it.size, it.list = 1, int(t-0xc0), true
	default:
		n := int(t - 0xf7)
		if off+1+n > len(b) || n > 4 {
			return nil
		}
		it.hdr, it.list = 1+n, true
		for _, x := range b[off+1 : off+1+n] {
			it.size = it.size<<8 | int(x)
		}
	}
	if off+it.hdr+it.size > len(b) {
		return nil
	}
	if it.list {
		for p := off + it.hdr; p < off+it.hdr+it.size; {
			k := rlpParse(b, p)
			if k == nil {
				return nil
			}
			it.kids = append(it.kids, k)
			p += k.hdr + k.size
		}
	}
	return it
}

func (it *rlpItem) strings(out *[]*rlpItem) {
	if !it.list {
		*out = append(*out, it)
		return
	}
	for _, k := range it.kids {
		k.strings(out)
	}
}

func (it *rlpItem) contains(t *rlpItem) bool {
	if it == t {
		return true
	}
	for _, k := range it.kids {
		if k.contains(t) {
			return true
		}
	}
	return false
}

// rlpInflate rewrites a valid encoding so that one string item and every list around it
// announce `claim` bytes; the encoding ends inside that string. A decoder that bounds sizes by
// the bytes actually received rejects it at the first header.
func rlpInflate(b []byte, root, target *rlpItem, claim uint32) []byte {
	depth := 0
	for it := root; it != target; {
		depth++
		for _, k := range it.kids {
			if k.contains(target) {
				it = k
				break
			}
		}
	}
	var out []byte
	var walk func(it *rlpItem, level int)
	walk = func(it *rlpItem, level int) {
		if it == target {
			out = append(out, 0xbb)
			out = append(out, be32(claim)...)
			end := it.off + it.hdr + it.size
			if end > it.off+it.hdr+8 {
				end = it.off + it.hdr + 8
			}
			out = append(out, b[it.off+it.hdr:end]...)
			return
		}
		// every list around the target announces a little more than what it contains
		out = append(out, 0xfb)
		out = append(out, be32(claim+uint32(level)<<20)...)
		for _, k := range it.kids {
			if k.contains(target) {
				walk(k, level-1)
				return
			}
			out = append(out, b[k.off:k.off+k.hdr+k.size]...)
		}
	}
	walk(root, depth)
	return out
}

func (e *c15Env) status(kind int) network.LatestStatus {
	b := e.blks
	switch kind {
	case 1: // ahead of the node: announces the attacker's sample block
		return network.LatestStatus{CurHeight: 3, CurHash: b[3].Hash(), StaHeight: 2, StaHash: b[2].Hash()}
	case 2:
		return network.LatestStatus{CurHeight: ^uint32(0), CurHash: common.HexToHash("0x01"), StaHeight: 0, StaHash: b[0].Hash()}
	case 3:
		return network.LatestStatus{CurHeight: 1, CurHash: b[1].Hash(), StaHeight: 9, StaHash: common.HexToHash("0x02")}
	case 4:
		return network.LatestStatus{CurHeight: ^uint32(0), CurHash: common.Hash{}, StaHeight: ^uint32(0), StaHash: common.Hash{}}
	case 5: // unknown stable block below the node's stable height (fork claim)
		return network.LatestStatus{CurHeight: 50, CurHash: common.HexToHash("0x03"), StaHeight: 1, StaHash: common.HexToHash("0x04")}
	}
	return network.LatestStatus{CurHeight: 2, CurHash: b[2].Hash(), StaHeight: 2, StaHash: b[2].Hash()}
}

// validPayload is what an honest peer could send under this code.
func (e *c15Env) validPayload(code uint32) []byte {
	b := e.blks
	switch code {
	case 0x02:
		return encHandshake(e.net.P.ChainID, b[0].Hash(), e.status(0))
	case 0x03:
		st := e.status(1)
		return mustRlp(&st)
	case 0x04:
		return mustRlp(&network.GetLatestStatus{})
	case 0x05:
		return mustRlp(&network.BlockHashData{Height: 3, Hash: b[3].Hash()})
	case 0x06:
		return mustRlp(&types.Transactions{e.tx})
	case 0x07, 0x0e:
		return mustRlp(&network.GetBlocksData{From: 1, To: 2})
	case 0x08:
		return encBlocks(e.wire(3))
	case 0x09:
		return mustRlp(&network.BlockConfirmData{Hash: b[2].Hash(), Height: 2, SignInfo: e.conf[2][0]})
	case 0x0a:
		return mustRlp(&network.GetConfirmInfo{Height: 2, Hash: b[2].Hash()})
	case 0x0b:
		return mustRlp(&network.BlockConfirms{Height: 2, Hash: b[2].Hash(), Pack: e.conf[2]})
	case 0x0c:
		return mustRlp(&network.DiscoverReqData{Sequence: 1})
	case 0x0d:
		return mustRlp(&network.DiscoverResData{Sequence: 1, Nodes: []string{fmt.Sprintf("%x@10.1.2.3:7001", detKey("somebody").NodeID)}})
	}
	return nil
}

func (e *c15Env) wire(i int) *types.Block {
	b := wireCopyBlock(e.blks[i])
	b.ChangeLogs = nil
	b.Confirms = append([]types.SignData(nil), e.conf[i]...)
	return b
}

func pick32(c *Ctx, label string) uint32 {
	return []uint32{0, 1, 2, 3, 4, 100, 1 << 20, 1<<31 - 1, 1 << 31, ^uint32(0) - 1, ^uint32(0)}[c.Draw(label, 11)]
}

func (e *c15Env) pickHash(label string) common.Hash {
	switch k := e.c.Draw(label, 7); k {
	case 0, 1, 2, 3, 4:
		return e.blks[k].Hash()
	case 5:
		return common.Hash{}
	}
	return common.BytesToHash(e.randBytes("hash", 32))
}

func (e *c15Env) pickSig(label string, h common.Hash) types.SignData {
	switch e.c.Draw(label, 5) {
	case 0:
		return types.SignData{}
	case 1:
		return types.BytesToSignData(e.randBytes("sig", 65))
	case 2:
		return e.net.Confirm(0, h) // a real deputy's signature over that hash
	case 3:
		s := e.net.Confirm(1, h)
		s[64] = byte(e.c.Draw(label, 256)) // recovery id out of range
		return s
	}
	return e.conf[2][0]
}

var jsonShapes = []string{`null`, `{}`, `[]`, `""`, `0`, `{"subTxList":null}`, `{"subTxList":[]}`, `{"subTxList":[null]}`, `{"subTxList":[{}]}`,
	`{"subTxList":[null,null,null]}`, `{"subTxList":{}}`, `{"subTxList":[[]]}`, `{"category":1,"decimal":-1,"totalSupply":"-1","isReplenishable":true,"isDivisible":true,"profile":null}`,
	`{"signers":[null]}`, `{"assetCode":"0x00","assetId":"0x","transferAmount":"-5","input":null}`, `{"a":{"a":{"a":{"a":{"a":{"a":{"a":{"a":null}}}}}}}}`}

// absurdTx starts from a valid signed transfer and makes 1-3 aspects absurd, so that the
// later validation steps are reached too.
func (e *c15Env) absurdTx() *types.Transaction {
	c := e.c
	now := uint64(time.Now().Unix())
	typ := params.OrdinaryTx
	var data []byte
	amount := big.NewInt(5)
	gasLimit := uint64(100000)
	gasPrice := big.NewInt(1000000000)
	exp := now + 600
	chain := e.net.P.ChainID
	toName, msg := "", "m"
	creation := false
	jsonData := func() []byte {
		switch c.Draw("tx", 6) {
		case 0, 1:
			return []byte(jsonShapes[c.Draw("tx", len(jsonShapes))])
		case 2:
			return e.randBytes("txdata", 1+c.Draw("tx", 300))
		case 3:
			return []byte(strings.Repeat("[", 2000) + strings.Repeat("]", 2000))
		case 4:
			return make([]byte, 200000)
		}
		// a box holding a valid transaction, an expired one, or another box
		sub := e.tx
		if c.Chance("tx", 1, 2) {
			sub = e.net.SignedTransfer(e.net.Users[0], e.net.Users[1].Addr, big.NewInt(1), now-5, "old")
		}
		d, _ := types.MarshalBoxData(types.Transactions{sub})
		if c.Chance("tx", 1, 3) {
			inner := types.NewContractCreation(e.net.Users[0].Addr, big.NewInt(0), 100000, big.NewInt(1000000000), d, params.BoxTx, e.net.P.ChainID, now+600, "", "inner box")
			d, _ = types.MarshalBoxData(types.Transactions{inner})
		}
		return d
	}
	n := 1 + c.Draw("tx", 3)
	for i := 0; i < n; i++ {
		switch []int{0, 0, 1, 1, 1, 2, 3, 4, 5, 6, 7, 8, 9, 10}[c.Draw("tx", 14)] {
		case 0: // a special transaction type with matching receiver convention and some data
			typ = uint16(1 + c.Draw("tx", 12))
			switch typ {
			case params.CreateContractTx, params.RegisterTx, params.CreateAssetTx, params.ModifyAssetTx, params.BoxTx:
				creation = true
			}
			data = jsonData()
		case 1:
			typ = []uint16{params.BoxTx, params.BoxTx, params.CreateAssetTx, 11, 12, 13, 0xffff}[c.Draw("tx", 7)]
			creation = c.Chance("tx", 3, 4)
			data = jsonData()
		case 2:
			data = jsonData()
		case 3:
			amount = []*big.Int{big.NewInt(0), new(big.Int).Lsh(big.NewInt(1), 255), new(big.Int).Lsh(big.NewInt(1), 2000)}[c.Draw("tx", 3)]
		case 4:
			gasLimit = []uint64{0, 1, 21000, ^uint64(0)}[c.Draw("tx", 4)]
		case 5:
			gasPrice = []*big.Int{big.NewInt(0), big.NewInt(999999999), new(big.Int).Lsh(big.NewInt(1), 300)}[c.Draw("tx", 3)]
		case 6:
			exp = []uint64{0, now - 1, now, now + 1800, now + 1801, ^uint64(0)}[c.Draw("tx", 6)]
		case 7:
			chain = uint16(c.Draw("tx", 65536))
		case 8:
			toName = []string{"bob", strings.Repeat("n", 100), strings.Repeat("n", 101), "bad name!"}[c.Draw("tx", 4)]
		case 9:
			msg = []string{"", strings.Repeat("m", 1024), strings.Repeat("m", 1025)}[c.Draw("tx", 3)]
		case 10:
			creation = !creation
		}
	}
	var tx *types.Transaction
	if creation {
		tx = types.NewContractCreation(e.net.Users[0].Addr, amount, gasLimit, gasPrice, data, typ, chain, exp, toName, msg)
	} else {
		tx = types.NewTransaction(e.net.Users[0].Addr, e.net.Users[1].Addr, amount, gasLimit, gasPrice, data, typ, chain, exp, toName, msg)
	}
	if !c.Chance("tx", 1, 4) {
		func() {
			defer func() { recover() }()
			tx = signTx(tx, e.net.Users[0])
		}()
	}
	return tx
}

func (e *c15Env) absurdBlock() *types.Block {
	c := e.c
	if c.Draw("blk2", 6) == 5 {
		// the attacker's valid sample block with one absurd field, consistently signed by its rightful (malicious) miner
		b := e.wire(3)
		h := b.Header
		what := ""
		switch c.Draw("blk2", 3) {
		case 0:
			h.Time = []uint32{0, 1, 9999999, 10000000}[c.Draw("blk2", 4)]
			what = "tiny-timestamp"
		case 1:
			h.Time = e.blks[2].Time() - uint32(1+c.Draw("blk2", 5))
			what = "timestamp-before-parent"
		default:
			h.GasLimit = []uint64{0, 1, 20999}[c.Draw("blk2", 3)]
			what = "tiny-gas-limit"
		}
		if d := e.net.DeputyByMiner(e.blks[3].MinerAddress()); d != nil {
			hash := h.Hash()
			if sig, err := crypto.Sign(hash[:], d.Node.Key); err == nil {
				h.SignData = sig
				c.Fault("deputy-signed-block-with-" + what)
				e.signedSibling = true
			}
		}
		return b
	}
	baseIdx := 1 + c.Draw("blk", 4)
	b := e.wire(baseIdx)
	h := b.Header
	n := 1 + c.Draw("blk", 3)
	for i := 0; i < n; i++ {
		switch c.Draw("blk", 14) {
		case 0:
			h.Height = pick32(c, "blk")
		case 1:
			h.ParentHash = e.pickHash("blk")
		case 2:
			h.Time = pick32(c, "blk")
		case 3:
			h.SignData = [][]byte{nil, make([]byte, 64), make([]byte, 65), e.randBytes("sig", 65), make([]byte, 66), make([]byte, 1000)}[c.Draw("blk", 6)]
		case 4:
			h.Extra = strings.Repeat("x", []int{255, 256, 257, 70000}[c.Draw("blk", 4)])
		case 5:
			h.DeputyRoot = e.randBytes("dr", []int{0, 1, 32, 33, 500}[c.Draw("blk", 5)])
		case 6:
			h.GasLimit = []uint64{0, 1, ^uint64(0)}[c.Draw("blk", 3)]
			h.GasUsed = []uint64{0, ^uint64(0)}[c.Draw("blk", 2)]
		case 7:
			b.Txs = types.Transactions{e.absurdTx()}
		case 8:
			k := []int{1, 3, 200}[c.Draw("blk", 3)]
			b.Confirms = nil
			for j := 0; j < k; j++ {
				b.Confirms = append(b.Confirms, e.pickSig("blk", b.Hash()))
			}
		case 9:
			k := []int{1, 5, 300}[c.Draw("blk", 3)]
			b.DeputyNodes = nil
			for j := 0; j < k; j++ {
				dn := &types.DeputyNode{MinerAddress: e.net.Users[0].Addr, NodeID: e.randBytes("dn", []int{0, 63, 64, 65}[c.Draw("blk", 4)]), Rank: pick32(c, "blk"), Votes: big.NewInt(int64(j))}
				b.DeputyNodes = append(b.DeputyNodes, dn)
			}
		case 10:
			h.MinerAddress = []common.Address{{}, e.net.Users[0].Addr, e.net.Deputies[0].Miner.Addr}[c.Draw("blk", 3)]
		case 11:
			h.VersionRoot = e.pickHash("blk")
			h.LogRoot = e.pickHash("blk")
		case 12:
			h.TxRoot = e.pickHash("blk")
		case 13: // keep everything valid except that the deputy list claims a snapshot
			b.DeputyNodes = types.DeputyNodes{}
		}
	}
	if c.Chance("blk", 1, 3) {
		// a malicious deputy: the block's rightful miner signs the absurd content
		if d := e.net.DeputyByMiner(e.blks[int(baseIdx)].MinerAddress()); d != nil {
			if c.Chance("blk", 3, 4) {
				// (an absurd transaction, e.g. a box with an empty sub-transaction, may not be hashable: the attacker then
				// keeps the old root; the panic would be the harness's, not the node's)
				func() {
					defer func() { recover() }()
					h.TxRoot = b.Txs.MerkleRootSha()
				}()
			}
			hash := h.Hash()
			if sig, err := crypto.Sign(hash[:], d.Node.Key); err == nil {
				h.SignData = sig
				c.Fault("absurd-block-signed-by-its-deputy")
				if baseIdx >= 3 {
					e.signedSibling = true
				}
			}
		}
	}
	return b
}

func discoverNodes(e *c15Env) []string {
	c := e.c
	id := fmt.Sprintf("%x", detKey("somebody").NodeID)
	var out []string
	n := 1 + c.Draw("disc", 3)
	for i := 0; i < n; i++ {
		idp := id
		switch c.Draw("disc", 8) {
		case 1:
			idp = ""
		case 2:
			idp = id[:127]
		case 3:
			idp = id + "0"
		case 4:
			idp = strings.Repeat("z", 128)
		case 5:
			idp = strings.Repeat("0", 128)
		case 6:
			idp = "0x" + id[:126]
		case 7:
			idp = fmt.Sprintf("%x", e.nn.SelfID[:])
		}
		ep := []string{"10.1.2.3:7001", "", "10.1.2.3", "999.1.1.1:1", "10.1.2.3:99999", "[::1]:7001", "a@b:1", ":", "10.1.2.3:-1"}[c.Draw("disc", 9)]
		sep := []string{"@", "@", "", "@@"}[c.Draw("disc", 4)]
		out = append(out, idp+sep+ep)
	}
	return out
}

// extremePayload: well-formed for the code's type, with extreme or absurd values.
func (e *c15Env) extremePayload(code uint32) []byte {
	c := e.c
	switch code {
	case 0x02:
		return encHandshake(uint16(c.Draw("ext", 65536)), e.pickHash("ext"), e.status(c.Draw("ext", 6)))
	case 0x03:
		st := e.status(1 + c.Draw("ext", 5))
		return mustRlp(&st)
	case 0x04:
		return mustRlp(&network.GetLatestStatus{Revert: pick32(c, "ext")})
	case 0x05:
		return mustRlp(&network.BlockHashData{Height: pick32(c, "ext"), Hash: e.pickHash("ext")})
	case 0x06:
		n := []int{1, 2, 5, 40}[c.Draw("ext", 4)]
		var txs types.Transactions
		for i := 0; i < n; i++ {
			if i > 0 && c.Chance("ext", 1, 2) {
				txs = append(txs, txs[0])
			} else {
				txs = append(txs, e.absurdTx())
			}
		}
		if b, err := rlpEncode(&txs); err == nil {
			return b
		}
		return e.validPayload(code)
	case 0x07, 0x0e:
		q := [][2]uint32{{0, ^uint32(0)}, {1, ^uint32(0)}, {^uint32(0), ^uint32(0)}, {5, 2}, {0, 0}, {1, 5000}, {2, 2}, {3, 1 << 31}, {0, 9}}[c.Draw("ext", 9)]
		return mustRlp(&network.GetBlocksData{From: q[0], To: q[1]})
	case 0x08:
		n := 1 + c.Draw("ext", 3)
		var bs []*types.Block
		for i := 0; i < n; i++ {
			bs = append(bs, e.absurdBlock())
		}
		if b, err := rlpEncode((*types.Blocks)(&bs)); err == nil {
			return b
		}
		return e.validPayload(code)
	case 0x09:
		h := e.pickHash("ext")
		return mustRlp(&network.BlockConfirmData{Hash: h, Height: pick32(c, "ext"), SignInfo: e.pickSig("ext", h)})
	case 0x0a:
		return mustRlp(&network.GetConfirmInfo{Height: pick32(c, "ext"), Hash: e.pickHash("ext")})
	case 0x0b:
		h := e.pickHash("ext")
		k := []int{0, 1, 2, 300}[c.Draw("ext", 4)]
		res := &network.BlockConfirms{Height: pick32(c, "ext"), Hash: h}
		for i := 0; i < k; i++ {
			res.Pack = append(res.Pack, e.pickSig("ext", h))
		}
		return mustRlp(res)
	case 0x0c:
		return mustRlp(&network.DiscoverReqData{Sequence: ^uint(0)})
	case 0x0d:
		return mustRlp(&network.DiscoverResData{Sequence: uint(pick32(c, "ext")), Nodes: discoverNodes(e)})
	}
	return e.randBytes("ext", 1+c.Draw("ext", 64))
}

func (e *c15Env) mutate(b []byte) []byte {
	c := e.c
	out := append([]byte(nil), b...)
	if len(out) == 0 {
		return []byte{byte(c.Draw("mut", 256))}
	}
	n := 1 + c.Draw("mut", 4)
	for i := 0; i < n && len(out) > 0; i++ {
		pos := c.Draw("mut", len(out))
		switch c.Draw("mut", 7) {
		case 0:
			out[pos] ^= 1 << uint(c.Draw("mut", 8))
		case 1:
			out[pos] = []byte{0x00, 0x7f, 0x80, 0x81, 0xb7, 0xb8, 0xbf, 0xc0, 0xc1, 0xf7, 0xf8, 0xff}[c.Draw("mut", 12)]
		case 2:
			out = out[:pos]
		case 3:
			out = append(out[:pos], append([]byte{byte(c.Draw("mut", 256))}, out[pos:]...)...)
		case 4:
			out = append(out[:pos], out[pos+1:]...)
		case 5: // duplicate a slice
			end := pos + 1 + c.Draw("mut", 32)
			if end > len(out) {
				end = len(out)
			}
			out = append(out[:end], append(append([]byte(nil), out[pos:end]...), out[end:]...)...)
		case 6:
			out[pos] = byte(c.Draw("mut", 256))
		}
	}
	return out
}

var payloadKinds = []string{"valid", "empty", "random", "mutated-valid", "nested-rlp", "extreme-values", "other-type", "huge-length-prefix", "inflated-lengths"}

func (e *c15Env) genPayload(code uint32) ([]byte, string) {
	c := e.c
	// decodable payloads reach the handlers' logic; the others end at the decoder
	k := []int{0, 5, 5, 3, 3, 1, 2, 4, 5, 6, 7, 8, 8}[c.Draw("pl", 13)]
	if e.deep {
		k = []int{5, 5, 5, 0}[c.Draw("pl", 4)]
	}
	kind := payloadKinds[k]
	switch kind {
	case "valid":
		return e.validPayload(code), kind
	case "empty":
		return nil, kind
	case "random":
		return e.randBytes("pl", 1+c.Draw("pl", 200)), kind
	case "mutated-valid":
		base := e.validPayload(code)
		if c.Chance("pl", 1, 3) {
			base = e.extremePayload(code)
		}
		return e.mutate(base), kind
	case "nested-rlp":
		return rlpNest([]int{1, 3, 60, 1000, 20000}[c.Draw("pl", 5)]), kind
	case "extreme-values":
		return e.extremePayload(code), kind
	case "other-type":
		other := uint32(2 + c.Draw("pl", 13))
		return e.validPayload(other), kind
	case "inflated-lengths":
		base := e.validPayload(code)
		if base == nil {
			base = e.validPayload(0x06)
		}
		if root := rlpParse(base, 0); root != nil && root.list {
			var strs []*rlpItem
			root.strings(&strs)
			if len(strs) > 0 {
				claim := []uint32{64 << 20, 1 << 30, 3 << 30}[c.Draw("pl", 3)]
				return rlpInflate(base, root, strs[c.Draw("pl", len(strs))], claim), kind
			}
		}
		return base, kind
	}
	// a string / list header announcing up to 4 GiB, followed by a few bytes
	hdr := [][]byte{{0xbb, 0xff, 0xff, 0xff, 0xff}, {0xfb, 0xff, 0xff, 0xff, 0xff}, {0xbf, 0xff, 0xff, 0xff, 0xff, 0xff, 0xff, 0xff, 0xff}, {0xf9, 0xff, 0xff}, {0xb8, 0x00}, {0xf8, 0x01, 0x00}}[c.Draw("pl", 6)]
	return append(append([]byte(nil), hdr...), e.randBytes("pl", c.Draw("pl", 40))...), kind
}

// pickCode: every code 0..0x0e directly, extra weight on the codes whose handlers hand data
// to the chain, the pool and the discovery table, the undefined codes up to 0x1f and above.
func (e *c15Env) pickCode() uint32 {
	c := e.c
	if e.deep {
		return []uint32{0x06, 0x08, 0x06, 0x08, 0x09, 0x0b, 0x0d, 0x03, 0x05, 0x07, 0x0a, 0x0c, 0x0e, 0x04}[c.Draw("code", 14)]
	}
	switch k := c.Draw("code", 30); {
	case k <= 14:
		return uint32(k)
	case k <= 18:
		return 0x06
	case k <= 22:
		return 0x08
	case k == 23:
		return 0x09
	case k == 24:
		return 0x0b
	case k == 25:
		return 0x0d
	case k == 26:
		return uint32(0x0f + c.Draw("code", 0x11))
	case k == 27:
		return 0x20
	case k == 28:
		return 0x21 + uint32(c.Draw("code", 1<<16))
	}
	return ^uint32(0)
}

// ---------- attack connections ----------

func (e *c15Env) open(name string) (cli, srv *simConn, hc *simrt.Task) {
	split := e.c.Draw("gen", 3)
	cli, srv = newSimConnPair(e.c, name, split)
	e.conns = append(e.conns, cli)
	if split != 0 {
		e.c.Fault("read-splitting")
	}
	hc = e.c.W.Spawn(e.nn.Tag, "srv.conn."+name, func() { e.nn.Srv.HandleConn(srv, nil) })
	e.settle()
	return
}

func (e *c15Env) pause() {
	switch e.c.Draw("delay", 8) {
	case 5:
		e.sleep(time.Second)
	case 6:
		e.sleep(6 * time.Second)
	case 7:
		e.sleep(26 * time.Second) // beyond the 25 s frame read deadline
		e.c.Fault("stall-beyond-read-deadline")
	default:
		e.settle()
	}
}

func (e *c15Env) send(cli *simConn, what string, b []byte) bool {
	ok := cli.inject(b)
	e.sentTotal += int64(len(b))
	if len(b) <= 24 {
		e.logf("%s: %d bytes %x%s", what, len(b), b, map[bool]string{false: " (connection already gone)"}[ok])
	} else {
		e.logf("%s: %d bytes %x...%s", what, len(b), b[:24], map[bool]string{false: " (connection already gone)"}[ok])
	}
	return ok
}

var hsLenClasses = []uint32{0, 1, 100, 65536, 1 << 20, 24 << 20, 40 << 20, 300 << 20, 1 << 30, 1<<30 + 1, ^uint32(0)}

type c15AuthReq struct {
	Signature    [65]byte
	ClientPubKey [64]byte
	InitNonce    [32]byte
}

func (e *c15Env) preHandshakeBytes() []byte {
	c := e.c
	switch c.Draw("pre", 9) {
	case 0:
		c.Fault("garbage-before-handshake")
		return e.randBytes("pre", 1+c.Draw("pre", 64))
	case 1:
		l := hsLenClasses[c.Draw("pre", len(hsLenClasses))]
		c.Fault(fmt.Sprintf("handshake-frame-length-%d", l))
		body := c.Draw("pre", 300)
		if uint32(body) > l {
			body = int(l)
		}
		return append(frameHeader(l), e.randBytes("pre", body)...)
	case 2:
		c.Fault("truncated-handshake-header")
		return frameHeader(77)[:2+c.Draw("pre", 4)]
	case 3:
		c.Fault("complete-handshake-frame-garbage")
		n := 1 + c.Draw("pre", 400)
		return append(frameHeader(uint32(n)), e.randBytes("pre", n)...)
	case 4:
		c.Fault("wrong-magic")
		b := append(frameHeader(50), e.randBytes("pre", 50)...)
		b[c.Draw("pre", 2)] ^= 0xff
		return b
	case 5:
		c.Fault("zero-length-handshake-frame")
		return frameHeader(0)
	case 6, 7:
		// decrypts fine with the node's key, content is attacker-chosen
		c.Fault("ecies-valid-handshake-content-absurd")
		var plain []byte
		switch c.Draw("pre", 5) {
		case 0:
			plain = e.randBytes("pre", c.Draw("pre", 200))
		case 1:
			plain = rlpNest([]int{1, 60, 5000}[c.Draw("pre", 3)])
		case 2:
			plain = mustRlp(&c15AuthReq{})
		case 3:
			req := &c15AuthReq{}
			copy(req.ClientPubKey[:], detKey("attacker-x").NodeID)
			copy(req.Signature[:], e.randBytes("pre", 65))
			copy(req.InitNonce[:], e.randBytes("pre", 32))
			plain = mustRlp(req)
		case 4:
			req := &c15AuthReq{}
			copy(req.ClientPubKey[:], detKey("attacker-x").NodeID)
			plain = e.mutate(mustRlp(req))
		}
		ct, err := ecies.Encrypt(crand.Reader, ecies.ImportECDSAPublic(&e.nn.Self.Key.PublicKey), plain, nil, nil)
		if err != nil {
			return frameHeader(0)
		}
		return append(frameHeader(uint32(len(ct))), ct...)
	}
	c.Fault("magic-only")
	return append([]byte(nil), framePrefix...)
}

// captureClientRequest runs the repo's client handshake against a connection nobody
// answers and returns the request bytes it wrote.
func (e *c15Env) captureClientRequest(k *keyInfo) []byte {
	cli, srv := newSimConnPair(e.c, "capture", 0)
	wc := &wireClient{conn: cli}
	e.c.W.Spawn(0, "atk.capture", func() { wc.handshake(k, &e.nodeID) })
	e.settle()
	b := srv.take()
	cli.Close()
	srv.Close()
	e.settle()
	return b
}

func (e *c15Env) finish(cli *simConn) {
	c := e.c
	e.cur = "close" // work the node had deferred until now is attributed to the end of the connection
	switch c.Draw("gen", 4) {
	case 1:
		c.Fault("connection-reset")
		e.logf("RST")
		cli.Reset()
	case 2:
		c.Fault("half-open-left")
		e.logf("left half-open")
	default:
		e.logf("close")
		cli.Close()
	}
	switch c.Draw("gen", 4) {
	case 2:
		e.sleep(2 * time.Second)
	case 3:
		e.sleep(30 * time.Second)
	default:
		e.settle()
	}
}

// dialOut: the node is the DIALLING side (it connects to an address learnt from discovery or the deputy list) and the
// remote is hostile: it answers the node's genuine authentication request with a response that is correctly framed
// and correctly encrypted for the node's key (the request tells the server that key) but whose content is absurd.
func (e *c15Env) dialOut(k int) {
	c := e.c
	name := fmt.Sprintf("dial%d", k)
	hostile := detKey(fmt.Sprintf("hostile-server%d", k))
	var hid p2p.NodeID
	copy(hid[:], hostile.NodeID)
	e.logf("--- connection %s (the node dials a hostile server) ---", name)
	e.cur = "dial-out"
	atk, nodeEnd := newSimConnPair(c, name, c.Draw("dial", 3))
	e.conns = append(e.conns, atk)
	e.nConn++
	c.W.Spawn(e.nn.Tag, "srv.dial."+name, func() { e.nn.Srv.HandleConn(nodeEnd, &hid) })
	e.settle()
	req := atk.take()
	if len(req) < 7 {
		c.Probe("dial_out_no_request_seen")
		atk.Close()
		e.settle()
		return
	}
	plain, err := ecies.ImportECDSA(hostile.Key).Decrypt(req[6:], nil, nil)
	var ar c15AuthReq
	if err != nil || rlp.DecodeBytes(plain, &ar) != nil {
		c.Probe("dial_out_request_not_understood")
		atk.Close()
		e.settle()
		return
	}
	cliPub := crypto.ToECDSAPub(append([]byte{4}, ar.ClientPubKey[:]...))
	if cliPub == nil || cliPub.X == nil {
		c.Probe("dial_out_request_not_understood")
		atk.Close()
		e.settle()
		return
	}
	good := detKey(fmt.Sprintf("hostile-random%d", k))
	type authResp struct {
		RandomPubKey [64]byte
		RespNonce    [32]byte
	}
	resp := &authResp{}
	copy(resp.RandomPubKey[:], good.NodeID) // a valid curve point (X||Y)
	copy(resp.RespNonce[:], e.randBytes("dial", 32))
	var body []byte
	kind := ""
	switch c.Draw("dial", 7) {
	case 0:
		kind = "valid-response"
		body = mustRlp(resp)
	case 1:
		kind = "random-public-key-all-zero"
		resp.RandomPubKey = [64]byte{}
		body = mustRlp(resp)
	case 2:
		kind = "random-public-key-off-curve"
		resp.RandomPubKey[63] ^= 1
		body = mustRlp(resp)
	case 3:
		kind = "response-not-rlp"
		body = e.randBytes("dial", 40+c.Draw("dial", 100))
	case 4:
		kind = "response-truncated-rlp"
		body = mustRlp(resp)
		body = body[:1+c.Draw("dial", len(body)-1)]
	case 5:
		kind = "response-empty"
		body = nil
	default:
		kind = "random-public-key-random-bytes"
		copy(resp.RandomPubKey[:], e.randBytes("dial", 64))
		body = mustRlp(resp)
	}
	c.Fault("dial-out-hostile-server-" + kind)
	ct, err := ecies.Encrypt(crand.Reader, ecies.ImportECDSAPublic(cliPub), body, nil, nil)
	if err != nil {
		atk.Close()
		e.settle()
		return
	}
	e.send(atk, "hostile server's handshake response ("+kind+")", append(frameHeader(uint32(len(ct))), ct...))
	e.settle()
	e.sleep(time.Second)
	if !e.panicked() {
		e.finish(atk)
	}
}

func (e *c15Env) attack(k int) {
	c := e.c
	name := fmt.Sprintf("atk%d", k)
	mode := []string{"session", "session", "session", "session", "session", "raw", "handshake-mutated", "silent"}[c.Draw("gen", 8)]
	m0 := e.nodeAlloc
	sent0 := e.sentTotal
	e.allocBy = map[string]int64{}
	e.cur = "connect"
	phase := "pre-handshake"
	e.logf("--- connection %s (%s) ---", name, mode)
	cli, _, _ := e.open(name)
	e.nConn++
	var atk *keyInfo
	if c.Chance("gen", 1, 5) {
		atk = &keyInfo{Key: e.net.Deputies[1].Node.Key, NodeID: e.net.Deputies[1].Node.NodeID} // the attacker is a deputy
	} else {
		atk = detKey(fmt.Sprintf("attacker%d", k))
	}
	switch mode {
	case "silent":
		c.Fault("silent-connection")
		e.sleep([]time.Duration{time.Second, 10 * time.Second, 40 * time.Second}[c.Draw("gen", 3)])
	case "raw":
		n := 1 + c.Draw("gen", 3)
		for i := 0; i < n && !e.panicked(); i++ {
			e.cur = "handshake-bytes"
			if !e.send(cli, "pre-handshake", e.preHandshakeBytes()) {
				c.Probe("node_closed_during_handshake")
				break
			}
			e.pause()
		}
	case "handshake-mutated":
		req := e.captureClientRequest(atk)
		e.cur = "handshake-bytes"
		switch c.Draw("gen", 5) {
		case 0:
			c.Fault("handshake-request-mutated")
			body := e.mutate(req[6:])
			e.send(cli, "mutated request", append(frameHeader(uint32(len(body))), body...))
		case 1:
			c.Fault("handshake-request-truncated")
			e.send(cli, "truncated request", req[:c.Draw("gen", len(req))])
		case 2:
			c.Fault("handshake-request-in-two-parts")
			cut := 1 + c.Draw("gen", len(req)-1)
			e.send(cli, "request part 1", req[:cut])
			e.pause()
			e.send(cli, "request part 2", req[cut:])
		case 3:
			c.Fault("handshake-request-length-field-changed")
			b := append([]byte(nil), req...)
			binary.BigEndian.PutUint32(b[2:6], uint32(len(req)-6)+uint32(c.Draw("gen", 64))-32)
			e.send(cli, "request with wrong length", b)
		case 4:
			c.Fault("handshake-request-twice")
			e.send(cli, "request twice", append(append([]byte(nil), req...), req...))
		}
		e.pause()
		if c.Chance("gen", 1, 2) {
			e.send(cli, "after handshake attempt", e.preHandshakeBytes())
			e.pause()
		}
	case "session":
		wc := &wireClient{conn: cli}
		c.W.Spawn(0, "atk.handshake."+name, func() { wc.handshake(atk, &e.nodeID) })
		e.settle()
		if wc.key == nil {
			panic(fmt.Sprintf("c15: genuine client handshake failed: %v", wc.hsErr))
		}
		phase = "session"
		e.logf("genuine handshake done")
		if c.Chance("gen", 1, 6) {
			cli.setWindow(4096) // the attacker never reads: the node's writes block when the window is full
			c.Fault("remote-never-reads")
		} else {
			cli.setDiscard()
		}
		e.cur = "msg-0x02"
		switch ph := c.Draw("gen", 8); {
		case ph <= 4:
			st := e.status([]int{0, 0, 1, 2, 5}[ph])
			e.send(cli, fmt.Sprintf("protocol handshake (cur %d, stable %d)", st.CurHeight, st.StaHeight), wc.frame(0x02, encHandshake(e.net.P.ChainID, e.blks[0].Hash(), st)))
		case ph == 5:
			c.Fault("protocol-handshake-garbage")
			p, kind := e.genPayload(0x02)
			e.send(cli, "protocol handshake "+kind, wc.frame(0x02, p))
		case ph == 6:
			c.Fault("protocol-handshake-wrong-code")
			e.send(cli, "protocol handshake under another code", wc.frame(e.pickCode(), e.validPayload(0x02)))
		default:
			c.Fault("protocol-handshake-missing")
			e.logf("no protocol handshake")
		}
		e.pause()
		if c.Draw("flood", 120) == 119 && !cli.PeerGone() {
			// many small, individually harmless messages: confirmations for blocks the node does not know, each
			// for another height, enough to push every bounded cache of the node over its limit (about 1 MB in all)
			n := 10241 + c.Draw("flood", 300)
			c.Fault("flood-confirms-for-unknown-blocks-of-distinct-heights")
			c.W.S.GrantSteps(5_000_000)
			e.cur = "msg-0x09-flood"
			var first []byte
			for i := 0; i < n && !e.panicked() && !cli.PeerGone(); i++ {
				h := crypto.Keccak256Hash(be32(uint32(i)))
				fr := wc.frame(0x09, mustRlp(&network.BlockConfirmData{Hash: h, Height: uint32(1000 + i), SignInfo: e.conf[2][0]}))
				if i == 0 {
					first = fr
				}
				cli.inject(fr)
				e.sentTotal += int64(len(fr))
				if i%512 == 511 {
					e.settle()
				}
			}
			e.logf("flood: %d confirmation messages for unknown blocks of heights 1000..%d (%d bytes each, first %x...)", n, 1000+n-1, len(first), first[:16])
			e.settle()
		}
		nFrames := 1 + c.Draw("gen", 10)
		e.deep = c.Draw("gen", 3) != 0
		defer func() { e.deep = false }()
		for i := 0; i < nFrames && !e.panicked(); i++ {
			if cli.PeerGone() {
				c.Probe("node_dropped_connection")
				e.logf("node has closed the connection")
				break
			}
			// frames that are malformed below the message level end the connection, so they
			// are mostly tried as the last frame of a session
			e.sessionFrame(cli, wc, !e.deep && (i == nFrames-1 || c.Chance("frame", 1, 8)))
			e.pause()
		}
	}
	if !e.panicked() {
		e.finish(cli)
	}
	sent := e.sentTotal - sent0
	delta := e.nodeAlloc - m0
	allowed := int64(c15AllocFactor)*sent + c15AllocSlack
	if e.c.W.S.Overrun {
		return
	}
	if delta > allowed {
		culprit, most := "", int64(-1)
		for _, k := range sortedKeys(e.allocBy) {
			if e.allocBy[k] > most {
				culprit, most = k, e.allocBy[k]
			}
		}
		c.Fail("C15/alloc/"+phase+"/"+culprit, "while serving connection %s (%s) the node allocated %d bytes (TotalAlloc delta over the intervals in which node code ran) although the remote sent only %d bytes; allowed %d x bytes + %d MiB = %d; %d bytes of it were allocated right after the attacker's %q bytes\n%s",
			name, mode, delta, sent, c15AllocFactor, c15AllocSlack>>20, allowed, most, culprit, e.trace())
	}
	if delta > 8<<20 {
		c.Probe("connection_cost_more_than_8MiB")
	}
}

func (e *c15Env) sessionFrame(cli *simConn, wc *wireClient, anyKind bool) {
	c := e.c
	k := 0
	if anyKind {
		k = c.Draw("frame", 16)
	}
	switch {
	case k <= 7:
		code := e.pickCode()
		p, kind := e.genPayload(code)
		c.Fault("payload-" + kind)
		if code <= 0x1f {
			c.Probe(fmt.Sprintf("code-%#04x", code))
			e.cur = fmt.Sprintf("msg-%#04x", code)
		} else {
			c.Fault("code-above-0x1f")
			e.cur = "msg-code-above-0x1f"
		}
		e.send(cli, fmt.Sprintf("message code %#x payload %s (%d bytes)", code, kind, len(p)), wc.frame(code, p))
	case k == 8:
		e.cur = "frame-malformed"
		n := 1 + c.Draw("frame", 3)
		c.Fault("encrypted-plaintext-shorter-than-4")
		ct := wc.sealRaw(be32(e.pickCode())[:n])
		e.send(cli, fmt.Sprintf("encrypted frame with %d bytes of plaintext", n), append(frameHeader(uint32(len(ct))), ct...))
	case k == 9:
		e.cur = "frame-malformed"
		c.Fault("encrypted-padding-only")
		ct := wc.sealRaw(nil)
		e.send(cli, "encrypted frame with empty plaintext (padding only)", append(frameHeader(uint32(len(ct))), ct...))
	case k == 10:
		e.cur = "frame-malformed"
		c.Fault("ciphertext-not-block-multiple")
		ct := wc.sealRaw(append(be32(0x04), e.validPayload(0x04)...))
		r := 1 + c.Draw("frame", 15)
		if c.Chance("frame", 1, 2) {
			ct = append(ct, e.randBytes("frame", r)...)
		} else {
			ct = ct[:len(ct)-r]
		}
		e.send(cli, fmt.Sprintf("frame with %d bytes of ciphertext", len(ct)), append(frameHeader(uint32(len(ct))), ct...))
	case k == 11:
		e.cur = "frame-malformed"
		c.Fault("ciphertext-random-blocks")
		ct := e.randBytes("frame", 16*(1+c.Draw("frame", 3)))
		e.send(cli, "frame with random ciphertext", append(frameHeader(uint32(len(ct))), ct...))
	case k == 12:
		e.cur = "frame-malformed"
		c.Fault("encrypted-exactly-one-block")
		n := c.Draw("frame", 12) // 4..15 bytes of plaintext
		ct := wc.sealRaw(append(be32(e.pickCode()), e.randBytes("frame", n)...))
		e.send(cli, fmt.Sprintf("one-block frame with %d payload bytes", n), append(frameHeader(uint32(len(ct))), ct...))
	case k == 13:
		e.cur = "frame-length-field"
		l := []uint32{0, params.MaxPackageLength, params.MaxPackageLength + 1, 1 << 30, ^uint32(0), 17}[c.Draw("frame", 6)]
		c.Fault(fmt.Sprintf("frame-length-field-%d", l))
		body := c.Draw("frame", 64)
		if uint32(body) > l {
			body = int(l)
		}
		e.send(cli, fmt.Sprintf("frame header announcing %d bytes, %d sent", l, body), append(frameHeader(l), e.randBytes("frame", body)...))
	case k == 14:
		e.cur = "frame-malformed"
		c.Fault("garbage-after-handshake")
		e.send(cli, "raw garbage", e.randBytes("frame", 1+c.Draw("frame", 100)))
	default:
		if c.Chance("frame", 1, 12) {
			// the protocol's maximum frame, genuinely encrypted (25 MiB - one block of padding)
			c.Fault("maximum-size-frame")
			e.cur = "frame-maximum-size"
			p := make([]byte, int(params.MaxPackageLength)-32)
			e.send(cli, "maximum size frame", wc.frame(0x06, p))
			return
		}
		c.Fault("truncated-frame")
		e.cur = "frame-malformed"
		p, _ := e.genPayload(0x08)
		f := wc.frame(0x08, p)
		e.send(cli, "truncated frame", f[:1+c.Draw("frame", len(f)-1)])
	}
}

// ---------- liveness probe ----------

func (e *c15Env) probe() {
	c := e.c
	nn := e.nn
	e.logf("--- attack over; honest peer connects ---")
	start := time.Now()
	deadline := start.Add(60 * time.Second)
	cli, srv := newSimConnPair(c, "honest", 0)
	e.conns = append(e.conns, cli)
	c.W.Spawn(nn.Tag, "srv.conn.honest", func() { nn.Srv.HandleConn(srv, nil) })
	wc := &wireClient{conn: cli}
	honest := &keyInfo{Key: e.net.Deputies[0].Node.Key, NodeID: e.net.Deputies[0].Node.NodeID}
	c.W.Spawn(0, "honest.handshake", func() { wc.handshake(honest, &e.nodeID) })
	c.W.Settle()
	for wc.key == nil && wc.hsErr == nil && time.Now().Before(deadline) {
		c.W.Sleep(250 * time.Millisecond)
	}
	if wc.key == nil {
		c.Fail("C15/liveness/handshake", "after the attack an honest peer could not complete the encryption handshake within 60 simulated seconds (error: %v)\n%s", wc.hsErr, e.trace())
		return
	}
	cli.inject(wc.frame(0x02, encHandshake(e.net.P.ChainID, e.blks[0].Hash(), e.status(0))))
	cli.inject(wc.frame(0x07, mustRlp(&network.GetBlocksData{From: 1, To: 1})))
	cli.inject(wc.frame(0x08, encBlocks(e.wire(3), e.wire(4))))
	gotHS, gotBlock := false, false
	for time.Now().Before(deadline) {
		c.W.Sleep(250 * time.Millisecond)
		for _, m := range wc.parse(cli.take()) {
			switch m.Code {
			case 0x02:
				gotHS = true
			case 0x08:
				var bs types.Blocks
				if rlpDecode(m.Payload, &bs) == nil {
					for _, b := range bs {
						if b != nil && b.Header != nil && b.Hash() == e.blks[1].Hash() {
							gotBlock = true
						}
					}
				}
			}
		}
		v, ok := nn.view(e.blks[4].Hash())
		if !ok {
			break
		}
		if gotHS && gotBlock && !v.Has[e.blks[4].Hash()] && e.minerBlacklisted() {
			// the node has black-listed the miner of the probe blocks for double signing
			// (protocol rule, provoked by a deputy-signed sibling): this clause cannot be judged
			c.Probe("probe_block_miner_blacklisted")
			return
		}
		if gotHS && gotBlock && v.Has[e.blks[4].Hash()] {
			c.Probe("honest_peer_served_after_attack")
			e.logf("honest peer served after %.1fs", time.Since(start).Seconds())
			// long after every deadline of the attack connections: nobody may still be waiting for a lock
			// (a goroutine that deadlocked on a per-connection lock does not hurt other peers at once, but it is
			// pinned for ever together with its connection, buffers and peer entry: resources out of proportion)
			c.W.Sleep(5 * time.Minute)
			lw := c.W.LockWaiters()
			// a long queue behind a lock that is handed on every few seconds (writers to a remote that does not read,
			// each waiting for its write deadline) is slow, not dead: as long as the set of waiters changes, wait on
			for i := 0; i < 240 && len(lw) > 0; i++ {
				c.W.Sleep(time.Minute)
				now := c.W.LockWaiters()
				if strings.Join(now, " ") == strings.Join(lw, " ") {
					break // nobody got the lock for a whole simulated minute
				}
				lw = now
				c.Probe("lock_queue_still_draining_after_5_minutes")
			}
			if len(lw) > 0 {
				if len(lw) > 12 {
					lw = append(lw[:12:12], fmt.Sprintf("... %d more", len(lw)-12))
				}
				c.Fail("C15/stuck/lock-never-released", "long after the attack ended node task(s) still wait for a lock and for a whole simulated minute none of them got it (deadlock): %v\n%s\nnode goroutines at that moment:\n%s", lw, e.trace(), repoStacks(20))
			}
			return
		}
	}
	if nn.StateLocked {
		c.Fail("C15/liveness/node-state-locked", "after the attack the node's chain head / peer set / caches cannot be read any more: a node task holds one of their locks and never releases it (deadlock)\n%s\nnode goroutines at that moment:\n%s", e.trace(), repoStacks(30))
		return
	}
	curH := uint32(0)
	if v, ok := nn.view(); ok {
		curH = v.Cur.Height()
	}
	switch {
	case !gotHS:
		c.Fail("C15/liveness/protocol-handshake", "after the attack an honest peer completed the encryption handshake but never received the node's protocol handshake within 60 simulated seconds\n%s", e.trace())
	case !gotBlock:
		c.Fail("C15/liveness/request-unanswered", "after the attack an honest peer's GetBlocks(1,1) was not answered within 60 simulated seconds (node connection closed by node: %v)\n%s", cli.PeerGone(), e.trace())
	case e.signedSibling:
		// the rightful miner of a probe block is the attacker and has published its own, consistently signed sibling
		// of that block: which of a double-signing deputy's blocks a node follows (or whether it follows any) is the
		// consensus rules' business, the probe cannot demand the honest copy
		c.Probe("probe_blocks_compete_with_a_sibling_signed_by_their_own_miner")
	default:
		c.Fail("C15/liveness/block-not-accepted", "after the attack the valid blocks 3 and 4 pushed by an honest peer were not on the node's chain after 60 simulated seconds (current height %d)\n%s", curH, e.trace())
	}
}

// repoStacks dumps the goroutines that are inside lemochain-core code (frames only, at most n goroutines).
func repoStacks(n int) string {
	buf := make([]byte, 4<<20)
	buf = buf[:runtime.Stack(buf, true)]
	var out []string
	for _, g := range strings.Split(string(buf), "\n\n") {
		if !strings.Contains(g, "lemochain-core/") {
			continue
		}
		var keep []string
		lines := strings.Split(g, "\n")
		keep = append(keep, lines[0])
		for _, l := range lines[1:] {
			if strings.HasPrefix(l, "github.com/LemoFoundationLtd/") || strings.HasPrefix(l, "verif/simrt.(*Mutex)") || strings.HasPrefix(l, "verif/simrt.(*RWMutex)") {
				if i := strings.LastIndex(l, "("); i > 0 {
					l = l[:i]
				}
				keep = append(keep, "    "+strings.TrimPrefix(l, "github.com/LemoFoundationLtd/lemochain-core/"))
			}
		}
		if len(keep) > 14 {
			keep = keep[:14]
		}
		out = append(out, strings.Join(keep, "\n"))
		if len(out) >= n {
			break
		}
	}
	return strings.Join(out, "\n")
}

// minerBlacklisted reports whether the node currently refuses blocks of the probe blocks'
// miners (read in a task of its own, like view).
func (e *c15Env) minerBlacklisted() bool {
	res := false
	t := e.c.W.Do(0, "world.blacklist", func() {
		res = e.nn.DM.IsEvilDeputyNode(e.blks[3].MinerAddress(), 3) || e.nn.DM.IsEvilDeputyNode(e.blks[4].MinerAddress(), 4)
	})
	return t.Finished && res
}

// ---------- scenario ----------

func c15Scenario(c *Ctx) {
	defer installDetRand(c)()
	p := defaultParams(c)
	net := NewNet(c, p)
	f := net.NewFactory(40)
	e := &c15Env{c: c, net: net, f: f}
	defer func() {
		if c.W.S.Overrun {
			e.shutdown() // the scenario was aborted by the overrun; release the node (bounded)
			c.Fail("C15/unbounded-work/"+taskEntry(c.W.S.OverrunStack), "a node task kept running without ever blocking until the run's step budget (%d scheduling points; an ordinary run needs < 0.1 M) was exhausted: unbounded work triggered by bounded input\n%s\nstack of the running task when the budget ran out:\n%s",
				c15MaxSteps, e.trace(), trimStack(c.W.S.OverrunStack))
		}
	}()
	gen := f.Blocks[net.GenBlock.Hash()]
	e.blks = []*types.Block{gen}
	e.conf = [][]types.SignData{nil}
	parent := gen
	for i := 1; i <= 4; i++ {
		c.W.Sleep(time.Duration(p.SlotMs) * time.Millisecond)
		now := time.Now().Unix()
		prank := -1
		if dpt := net.DeputyByMiner(parent.MinerAddress()); dpt != nil && parent.Height() > 0 {
			prank = dpt.Rank
		}
		d := InTurnRank(prank, int64(parent.Time())*1000, now*1000, int64(p.SlotMs), p.NDeputies)
		txs := types.Transactions{net.SignedTransfer(net.Founder, net.Users[i%len(net.Users)].Addr, common.Lemo2Mo("100"), uint64(now+1500), fmt.Sprintf("seg-%d", i))}
		blk, _, err := f.Mine(d, parent, uint32(now), txs, "")
		if err != nil {
			panic(fmt.Sprintf("c15: factory could not mine block %d: %v", i, err))
		}
		var sigs []types.SignData
		for k := 0; k < p.NDeputies; k++ {
			if k != d {
				sigs = append(sigs, net.Confirm(k, blk.Hash()))
			}
		}
		e.blks = append(e.blks, blk)
		e.conf = append(e.conf, sigs)
		parent = blk
	}
	c.W.Sleep(time.Second)
	e.tx = net.SignedTransfer(net.Users[0], net.Users[1].Addr, big.NewInt(5), uint64(time.Now().Unix())+1500, "valid sample")

	nn := net.AddNetNode(1, "n1", detKey("observer1"))
	e.nn = nn
	if !nn.StartNet(true, 20) {
		panic("c15: node did not start")
	}
	e.nodeID = nn.SelfID
	for i := 1; i <= 2; i++ {
		if _, err := nn.InsertBlock(e.wire(i)); err != nil {
			panic(fmt.Sprintf("c15: node rejected valid block %d: %v", i, err))
		}
	}
	c.W.Sleep(time.Second)

	nAtk := 1 + c.Draw("gen", 3)
	for k := 0; k < nAtk && !e.panicked() && !c.Failed(); k++ {
		if c.Draw("dial", 8) == 7 {
			e.dialOut(k)
			continue
		}
		e.attack(k)
	}
	if !e.panicked() {
		if v, ok := nn.view(); ok {
			if v.Cur.Height() > 2 {
				c.Probe("node_accepted_the_attackers_valid_block")
			}
			if len(v.Pool) > 0 {
				c.Probe("attackers_transactions_reached_the_pool")
			}
			if len(v.Cached) > 0 {
				c.Probe("attackers_blocks_held_in_block_cache")
			}
			if v.ConfCache > 0 {
				c.Probe("attackers_confirms_held_in_confirm_cache")
			}
		}
		e.probe()
	} else {
		c.Probe("liveness_probe_skipped_after_panic")
		if c.W.S.Overrun {
			return // reported by the deferred function above; nothing can run any more
		}
		for _, pn := range c.W.Panics() {
			// same signature as the framework's generic panic report, with the attack trace
			c.Fail("C15/panic/"+panicSite(pn.Stack), "panic in node task %s (a goroutine without recover: the process dies): %s\n%s\n%s", pn.Task, pn.Value, e.trace(), trimStack(pn.Stack))
		}
	}
	c.Nontrivial = len(c.Faults) > 0
	c.Sample = map[string]interface{}{"connections": e.nConn, "bytes_sent": e.sentTotal, "trace": e.log}
	if v, ok := nn.view(); ok {
		c.State(hashStrings(fmt.Sprint(v.Cur.Height(), v.Connected, v.Peers)))
	}

	e.shutdown()
}

// shutdown closes every connection and stops the node and the factory. After an overrun it
// first grants a bounded number of extra steps, because otherwise no task could run at all.
func (e *c15Env) shutdown() {
	c := e.c
	if e.down || e.nn == nil {
		return
	}
	e.down = true
	if c.W.S.Overrun {
		c.W.S.GrantSteps(3_000_000)
	}
	defer func() {
		if r := recover(); r != nil {
			c.Probe("shutdown_aborted")
		}
	}()
	for _, cn := range e.conns {
		cn.Close()
	}
	c.W.Sleep(time.Second)
	if !e.nn.StopNet() {
		c.Probe("stop_did_not_finish")
	}
	e.f.CloseFactory()
	c.W.Sleep(2 * time.Second)
	if e.nodeAlloc > 256<<20 {
		// buffers of up to 1 GiB the node allocated on the attacker's say-so are garbage now;
		// collect them before the worker looks at the heap size to decide about recycling
		runtime.GC()
	}
	e.nn.Release()
}

const c15MaxSteps = 1_500_000

func c15SimConfig(c *Ctx) simrt.Config {
	return simrt.Config{Policy: simrt.PolicyCoarse, MaxSteps: c15MaxSteps, SpinSleep: time.Millisecond} // SpinSleep: subscribe.send polls a full channel in a busy loop; the fake clock must still advance (write deadlines)
}

func sortedKeys(m map[string]int64) []string {
	out := make([]string, 0, len(m))
	for k := range m {
		out = append(out, k)
	}
	sort.Strings(out)
	return out
}

// taskEntry returns the outermost lemochain-core function of a stack (the task's entry).
func taskEntry(stack string) string {
	entry := "unknown"
	for _, l := range strings.Split(stack, "\n") {
		if strings.HasPrefix(l, "github.com/LemoFoundationLtd/lemochain-core/") {
			f := strings.TrimPrefix(l, "github.com/LemoFoundationLtd/lemochain-core/")
			if i := strings.LastIndex(f, "("); i > 0 {
				f = f[:i]
			}
			entry = f
		}
	}
	return entry
}

func init() {
	Register(&PropDef{
		ID:         "C15",
		Variants:   []string{"bytes"},
		SimConfig:  c15SimConfig,
		Scenario:   c15Scenario,
		OverrunSig: "C15/unbounded-work/step-budget",
		Rule: "1-3 attack connections per run against one node (chain of 2 blocks), each silent / raw pre-handshake bytes / a mutated genuine handshake request / a genuine session " +
			"followed by 1-10 frames (8 of 16 well-framed messages with a tape-chosen code and one of 8 payload kinds, the others malformed at the frame / cipher level), read splitting and " +
			"pauses of 0-26 s between frames, close / RST / half-open at the end; then the honest-peer liveness probe. A run is non-trivial when at least one fault kind fired; " +
			"distinct = distinct event-log digests",
		Real: []string{"p2p.Server.HandleConn + Server.run (event loop as a simulator task)", "p2p.Peer: DoHandshake (server side in the node, client side for genuine sessions), Run, readLoop, heartbeatLoop, framing, AES",
			"network.ProtocolManager with all handlers, peerSet, caches", "chain.BlockChain / consensus / txpool / store (nodesim stack)", "p2p.DiscoverManager on an empty simulated directory"},
		Stub: []string{"TCP: simconn (net.Conn on two byte queues, fake-clock deadlines, read splitting, FIN/RST, send window)", "no listener, no dialer, no RPC, no miner",
			"crypto/rand.Reader replaced by a deterministic stream for the run"},
		Assumptions: []string{
			fmt.Sprintf("memory rule: TotalAlloc delta over the intervals in which node code runs (the attacker's own buffers are built outside them) during one attack connection <= %d x bytes sent by the attacker on it + %d MiB", c15AllocFactor, c15AllocSlack>>20),
			"coarse scheduling (a task runs until it blocks): the property is about inputs, not interleavings",
			"after a recorded panic the liveness probe is skipped (in production the process would be dead)",
			fmt.Sprintf("unbounded work is detected through the run's step budget (%d scheduling points; an ordinary run needs < 0.1 M)", c15MaxSteps),
		},
	})
}
