package harness

import (
	"bytes"
	"fmt"
	"math/big"
	"sort"

	"github.com/LemoFoundationLtd/lemochain-core/chain/account"
	"github.com/LemoFoundationLtd/lemochain-core/chain/types"
	"github.com/LemoFoundationLtd/lemochain-core/common"
)

// ---------------------------------------------------------------------------------
// C14 equality: explicit field-by-field comparison of a value with its decoded copy.
// "Equal value" rule used everywhere (stated in the check's note):
//   * numbers (big.Int) compare by value; a nil *big.Int equals zero (RLP has one encoding
//     for both and every consumer treats them alike);
//   * nil and empty byte strings / slices / maps are the same value (one encoding);
//   * an absent optional address (nil pointer) is NOT the same as a present one, even a zero one;
//   * fields the codec documents as not transported are excluded: ChangeLog.OldVal ("used for
//     undo, no need to save or send"), the derived Event fields (TxHash, TxIndex, Index,
//     Removed: "not secured by consensus"), caches (hash, size, signer memo).
// Each function returns "" when equal, else the path and values of the first difference.
// ---------------------------------------------------------------------------------

func eqBytes(path string, a, b []byte) string {
	if !bytes.Equal(a, b) { // nil == empty under bytes.Equal
		return fmt.Sprintf("%s: %x != %x", path, clip14(a), clip14(b))
	}
	return ""
}

func clip14(b []byte) []byte {
	if len(b) > 48 {
		return b[:48]
	}
	return b
}

func eqBig(path string, a, b *big.Int) string {
	if a == nil {
		a = new(big.Int)
	}
	if b == nil {
		b = new(big.Int)
	}
	if a.Cmp(b) != 0 {
		return fmt.Sprintf("%s: %s != %s", path, a, b)
	}
	return ""
}

func eqStr(path, a, b string) string {
	if a != b {
		return fmt.Sprintf("%s: %q != %q", path, a, b)
	}
	return ""
}

func eqU(path string, a, b uint64) string {
	if a != b {
		return fmt.Sprintf("%s: %d != %d", path, a, b)
	}
	return ""
}

func eqBool(path string, a, b bool) string {
	if a != b {
		return fmt.Sprintf("%s: %v != %v", path, a, b)
	}
	return ""
}

func eqHash(path string, a, b common.Hash) string {
	if a != b {
		return fmt.Sprintf("%s: %x != %x", path, a[:], b[:])
	}
	return ""
}

func eqAddr(path string, a, b common.Address) string {
	if a != b {
		return fmt.Sprintf("%s: %x != %x", path, a[:], b[:])
	}
	return ""
}

func eqAddrPtr(path string, a, b *common.Address) string {
	if (a == nil) != (b == nil) {
		return fmt.Sprintf("%s: present=%v != present=%v", path, a != nil, b != nil)
	}
	if a != nil {
		return eqAddr(path, *a, *b)
	}
	return ""
}

func first(ds ...string) string {
	for _, d := range ds {
		if d != "" {
			return d
		}
	}
	return ""
}

func eqByteLists(path string, a, b [][]byte) string {
	if len(a) != len(b) {
		return fmt.Sprintf("%s: %d entries != %d entries", path, len(a), len(b))
	}
	for i := range a {
		if d := eqBytes(fmt.Sprintf("%s[%d]", path, i), a[i], b[i]); d != "" {
			return d
		}
	}
	return ""
}

func eqProfile(path string, a, b types.Profile) string {
	if len(a) != len(b) {
		return fmt.Sprintf("%s: %d keys != %d keys", path, len(a), len(b))
	}
	keys := make([]string, 0, len(a))
	for k := range a {
		keys = append(keys, k)
	}
	sort.Strings(keys)
	for _, k := range keys {
		v, ok := b[k]
		if !ok {
			return fmt.Sprintf("%s[%q]: missing after decode", path, k)
		}
		if v != a[k] {
			return fmt.Sprintf("%s[%q]: %q != %q", path, k, a[k], v)
		}
	}
	return ""
}

func eqHeader(a, b *types.Header) string {
	return first(
		eqHash("ParentHash", a.ParentHash, b.ParentHash), eqAddr("MinerAddress", a.MinerAddress, b.MinerAddress),
		eqHash("VersionRoot", a.VersionRoot, b.VersionRoot), eqHash("TxRoot", a.TxRoot, b.TxRoot), eqHash("LogRoot", a.LogRoot, b.LogRoot),
		eqU("Height", uint64(a.Height), uint64(b.Height)), eqU("GasLimit", a.GasLimit, b.GasLimit), eqU("GasUsed", a.GasUsed, b.GasUsed),
		eqU("Time", uint64(a.Time), uint64(b.Time)), eqBytes("SignData", a.SignData, b.SignData), eqBytes("DeputyRoot", a.DeputyRoot, b.DeputyRoot),
		eqStr("Extra", a.Extra, b.Extra))
}

func eqTxFields(a, b types.VerifRawTx) string {
	return first(
		eqU("Type", uint64(a.Type), uint64(b.Type)), eqU("Version", uint64(a.Version), uint64(b.Version)), eqU("ChainID", uint64(a.ChainID), uint64(b.ChainID)),
		eqAddr("From", a.From, b.From), eqAddrPtr("GasPayer", a.GasPayer, b.GasPayer), eqAddrPtr("Recipient", a.Recipient, b.Recipient),
		eqStr("RecipientName", a.RecipientName, b.RecipientName), eqBig("GasPrice", a.GasPrice, b.GasPrice), eqU("GasLimit", a.GasLimit, b.GasLimit),
		eqU("GasUsed", a.GasUsed, b.GasUsed), eqBig("Amount", a.Amount, b.Amount), eqBytes("Data", a.Data, b.Data), eqU("Expiration", a.Expiration, b.Expiration),
		eqStr("Message", a.Message, b.Message), eqByteLists("Sigs", a.Sigs, b.Sigs), eqByteLists("GasPayerSigs", a.GasPayerSigs, b.GasPayerSigs))
}

func eqTx(a, b *types.Transaction) string { return eqTxFields(a.VerifRaw(), b.VerifRaw()) }

func eqDeputyNode(a, b *types.DeputyNode) string {
	return first(eqAddr("MinerAddress", a.MinerAddress, b.MinerAddress), eqBytes("NodeID", a.NodeID, b.NodeID),
		eqU("Rank", uint64(a.Rank), uint64(b.Rank)), eqBig("Votes", a.Votes, b.Votes))
}

func eqAsset(path string, a, b *types.Asset) string {
	if (a == nil) != (b == nil) {
		return fmt.Sprintf("%s: nil=%v != nil=%v", path, a == nil, b == nil)
	}
	if a == nil {
		return ""
	}
	return first(eqU(path+".Category", uint64(a.Category), uint64(b.Category)), eqBool(path+".IsDivisible", a.IsDivisible, b.IsDivisible),
		eqHash(path+".AssetCode", a.AssetCode, b.AssetCode), eqU(path+".Decimal", uint64(a.Decimal), uint64(b.Decimal)),
		eqBig(path+".TotalSupply", a.TotalSupply, b.TotalSupply), eqBool(path+".IsReplenishable", a.IsReplenishable, b.IsReplenishable),
		eqAddr(path+".Issuer", a.Issuer, b.Issuer), eqProfile(path+".Profile", a.Profile, b.Profile))
}

func eqSigners(path string, a, b types.Signers) string {
	if len(a) != len(b) {
		return fmt.Sprintf("%s: %d signers != %d signers", path, len(a), len(b))
	}
	for i := range a {
		if d := first(eqAddr(fmt.Sprintf("%s[%d].Address", path, i), a[i].Address, b[i].Address),
			eqU(fmt.Sprintf("%s[%d].Weight", path, i), uint64(a[i].Weight), uint64(b[i].Weight))); d != "" {
			return d
		}
	}
	return ""
}

func eqEvent(path string, a, b *types.Event) string {
	if (a == nil) != (b == nil) {
		return fmt.Sprintf("%s: nil=%v != nil=%v", path, a == nil, b == nil)
	}
	if a == nil {
		return ""
	}
	if len(a.Topics) != len(b.Topics) {
		return fmt.Sprintf("%s.Topics: %d != %d", path, len(a.Topics), len(b.Topics))
	}
	for i := range a.Topics {
		if d := eqHash(fmt.Sprintf("%s.Topics[%d]", path, i), a.Topics[i], b.Topics[i]); d != "" {
			return d
		}
	}
	return first(eqAddr(path+".Address", a.Address, b.Address), eqBytes(path+".Data", a.Data, b.Data))
}

// isNilVal: untyped nil, typed nil pointer, or pointer to a nil interface (the candidate
// decoder returns *interface{} for an empty list).
func isNilVal(v interface{}) bool {
	if v == nil {
		return true
	}
	switch x := v.(type) {
	case *types.Asset:
		return x == nil
	case *types.AssetEquity:
		return x == nil
	case *types.Event:
		return x == nil
	case *account.ProfileChangeLogExtra:
		return x == nil
	case *interface{}:
		// the candidate decoder returns a pointer to whatever the generic decoder made of an
		// empty list: an empty container
		if x == nil || *x == nil {
			return true
		}
		switch e := (*x).(type) {
		case []interface{}:
			return len(e) == 0
		case []byte:
			return len(e) == 0
		}
	}
	return false
}

// eqLogVal compares one NewVal / Extra payload. want is the generated value, got the decoded one.
// The expected Go type of the decoded payload is the type the log's own redo function asserts.
func eqLogVal(path string, want, got interface{}) string {
	switch w := want.(type) {
	case nil:
		if !isNilVal(got) {
			return fmt.Sprintf("%s: nil != %T %v", path, got, got)
		}
		return ""
	case big.Int:
		g, ok := got.(big.Int)
		if !ok {
			return fmt.Sprintf("%s: decoded as %T, want big.Int", path, got)
		}
		return eqBig(path, &w, &g)
	case []byte:
		g, ok := got.([]byte)
		if !ok {
			return fmt.Sprintf("%s: decoded as %T, want []byte", path, got)
		}
		return eqBytes(path, w, g)
	case types.Code:
		g, ok := got.(types.Code)
		if !ok {
			return fmt.Sprintf("%s: decoded as %T, want types.Code", path, got)
		}
		return eqBytes(path, w, g)
	case common.Hash:
		g, ok := got.(common.Hash)
		if !ok {
			return fmt.Sprintf("%s: decoded as %T, want common.Hash", path, got)
		}
		return eqHash(path, w, g)
	case common.Address:
		g, ok := got.(common.Address)
		if !ok {
			return fmt.Sprintf("%s: decoded as %T, want common.Address", path, got)
		}
		return eqAddr(path, w, g)
	case string:
		g, ok := got.(string)
		if !ok {
			return fmt.Sprintf("%s: decoded as %T, want string", path, got)
		}
		return eqStr(path, w, g)
	case *types.Asset:
		if w == nil {
			if !isNilVal(got) {
				return fmt.Sprintf("%s: nil asset decoded as %T", path, got)
			}
			return ""
		}
		g, ok := got.(*types.Asset)
		if !ok {
			return fmt.Sprintf("%s: decoded as %T, want *types.Asset", path, got)
		}
		return eqAsset(path, w, g)
	case *types.AssetEquity:
		if w == nil {
			if !isNilVal(got) {
				return fmt.Sprintf("%s: nil equity decoded as %T", path, got)
			}
			return ""
		}
		g, ok := got.(*types.AssetEquity)
		if !ok {
			return fmt.Sprintf("%s: decoded as %T, want *types.AssetEquity", path, got)
		}
		return first(eqHash(path+".AssetCode", w.AssetCode, g.AssetCode), eqHash(path+".AssetId", w.AssetId, g.AssetId), eqBig(path+".Equity", w.Equity, g.Equity))
	case *account.ProfileChangeLogExtra:
		g, ok := got.(*account.ProfileChangeLogExtra)
		if !ok || g == nil {
			return fmt.Sprintf("%s: decoded as %T, want *ProfileChangeLogExtra", path, got)
		}
		return first(eqHash(path+".UUID", w.UUID, g.UUID), eqStr(path+".Key", w.Key, g.Key))
	case *types.Profile:
		var wp types.Profile
		if w != nil {
			wp = *w
		}
		if len(wp) == 0 {
			// empty profile: one encoding (empty list) for nil / empty; any empty decoded form is equal
			if gp, ok := got.(*types.Profile); ok && gp != nil && len(*gp) != 0 {
				return fmt.Sprintf("%s: empty profile decoded with %d keys", path, len(*gp))
			} else if !ok && !isNilVal(got) {
				return fmt.Sprintf("%s: empty profile decoded as %T", path, got)
			}
			return ""
		}
		g, ok := got.(*types.Profile)
		if !ok || g == nil {
			return fmt.Sprintf("%s: decoded as %T, want *types.Profile", path, got)
		}
		return eqProfile(path, wp, *g)
	case *types.Event:
		g, ok := got.(*types.Event)
		if !ok {
			return fmt.Sprintf("%s: decoded as %T, want *types.Event", path, got)
		}
		return eqEvent(path, w, g)
	case types.Signers:
		if len(w) == 0 {
			if g, ok := got.(types.Signers); ok && len(g) != 0 {
				return fmt.Sprintf("%s: empty signers decoded with %d entries", path, len(g))
			} else if !ok && !isNilVal(got) {
				return fmt.Sprintf("%s: empty signers decoded as %T", path, got)
			}
			return ""
		}
		g, ok := got.(types.Signers)
		if !ok {
			return fmt.Sprintf("%s: decoded as %T, want types.Signers", path, got)
		}
		return eqSigners(path, w, g)
	}
	return fmt.Sprintf("%s: harness has no comparison for %T", path, want)
}

func eqChangeLog(a, b *types.ChangeLog) string {
	return first(eqU("LogType", uint64(a.LogType), uint64(b.LogType)), eqAddr("Address", a.Address, b.Address), eqU("Version", uint64(a.Version), uint64(b.Version)),
		eqLogVal("NewVal", a.NewVal, b.NewVal), eqLogVal("Extra", a.Extra, b.Extra))
}

func eqAccountData(a, b *types.AccountData) string {
	if d := first(eqAddr("Address", a.Address, b.Address), eqBig("Balance", a.Balance, b.Balance), eqHash("CodeHash", a.CodeHash, b.CodeHash),
		eqHash("StorageRoot", a.StorageRoot, b.StorageRoot), eqHash("AssetCodeRoot", a.AssetCodeRoot, b.AssetCodeRoot), eqHash("AssetIdRoot", a.AssetIdRoot, b.AssetIdRoot),
		eqHash("EquityRoot", a.EquityRoot, b.EquityRoot), eqAddr("VoteFor", a.VoteFor, b.VoteFor), eqBig("Candidate.Votes", a.Candidate.Votes, b.Candidate.Votes),
		eqProfile("Candidate.Profile", a.Candidate.Profile, b.Candidate.Profile), eqSigners("Signers", a.Signers, b.Signers)); d != "" {
		return d
	}
	if len(a.NewestRecords) != len(b.NewestRecords) {
		return fmt.Sprintf("NewestRecords: %d records != %d records", len(a.NewestRecords), len(b.NewestRecords))
	}
	keys := make([]int, 0, len(a.NewestRecords))
	for k := range a.NewestRecords {
		keys = append(keys, int(k))
	}
	sort.Ints(keys)
	for _, k := range keys {
		ra := a.NewestRecords[types.ChangeLogType(k)]
		rb, ok := b.NewestRecords[types.ChangeLogType(k)]
		if !ok || ra != rb {
			return fmt.Sprintf("NewestRecords[%d]: %+v != %+v (present %v)", k, ra, rb, ok)
		}
	}
	return ""
}

func eqBlock(a, b *types.Block) string {
	if (a.Header == nil) != (b.Header == nil) {
		return "Header: nil mismatch"
	}
	if d := eqHeader(a.Header, b.Header); d != "" {
		return "Header." + d
	}
	if len(a.Txs) != len(b.Txs) {
		return fmt.Sprintf("Txs: %d != %d", len(a.Txs), len(b.Txs))
	}
	for i := range a.Txs {
		if d := eqTx(a.Txs[i], b.Txs[i]); d != "" {
			return fmt.Sprintf("Txs[%d].%s", i, d)
		}
	}
	if len(a.ChangeLogs) != len(b.ChangeLogs) {
		return fmt.Sprintf("ChangeLogs: %d != %d", len(a.ChangeLogs), len(b.ChangeLogs))
	}
	for i := range a.ChangeLogs {
		if d := eqChangeLog(a.ChangeLogs[i], b.ChangeLogs[i]); d != "" {
			return fmt.Sprintf("ChangeLogs[%d](%s).%s", i, a.ChangeLogs[i].LogType, d)
		}
	}
	if len(a.Confirms) != len(b.Confirms) {
		return fmt.Sprintf("Confirms: %d != %d", len(a.Confirms), len(b.Confirms))
	}
	for i := range a.Confirms {
		if a.Confirms[i] != b.Confirms[i] {
			return fmt.Sprintf("Confirms[%d] differ", i)
		}
	}
	if len(a.DeputyNodes) != len(b.DeputyNodes) {
		return fmt.Sprintf("DeputyNodes: %d != %d", len(a.DeputyNodes), len(b.DeputyNodes))
	}
	for i := range a.DeputyNodes {
		if d := eqDeputyNode(a.DeputyNodes[i], b.DeputyNodes[i]); d != "" {
			return fmt.Sprintf("DeputyNodes[%d].%s", i, d)
		}
	}
	return ""
}
