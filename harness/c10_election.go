package harness

import (
	"bytes"
	"fmt"
	"math/big"
	"sort"
	"strings"
	"time"

	"github.com/LemoFoundationLtd/lemochain-core/chain/consensus"
	"github.com/LemoFoundationLtd/lemochain-core/chain/deputynode"
	"github.com/LemoFoundationLtd/lemochain-core/chain/params"
	"github.com/LemoFoundationLtd/lemochain-core/chain/types"
	"github.com/LemoFoundationLtd/lemochain-core/common"
	"github.com/LemoFoundationLtd/lemochain-core/common/crypto"
	"github.com/LemoFoundationLtd/lemochain-core/store"

	"verif/simrt"
)

// C10 - election integrity. Chain variants: the honest miner (factory) builds a chain of
// vote / register / update / unregister / transfer transactions with more candidates than
// list slots and short terms, with sibling forks; a never-restarted validator A and a
// validator B that is restarted (cleanly, or crashed inside a promotion) follow it. At every
// block of every fork and on every party the published top list must equal the full sort of
// the registered candidates of that block's account state; snapshot blocks must carry the
// first N of the list at their parent.

var c10Kinds = []int{kVote, kVote, kVote, kRegister, kRegister, kRegister, kCandidateUpdate, kUnregister, kUnregister, kTransfer, kTransfer}

// c10SwarmKinds omits some transaction kinds per run (swarm testing): a frequent failure
// caused by one kind must not keep the runs from reaching the rarer conditions.
func c10SwarmKinds(c *Ctx) []int {
	omit := map[int]bool{}
	if c.Draw("cfg", 2) == 1 {
		omit[kUnregister] = true
	}
	if c.Draw("cfg", 4) == 1 {
		omit[kCandidateUpdate] = true
	}
	if c.Draw("cfg", 4) == 1 {
		omit[kTransfer] = true
	}
	var out []int
	for _, k := range c10Kinds {
		if !omit[k] {
			out = append(out, k)
		}
	}
	return out
}

type c10World struct {
	c    *Ctx
	net  *Net
	f    *Factory
	g    *TxGen
	A, B *Node
	pl   *crashPlanner

	minerKey  *keyInfo       // who mined the current block
	signers   []*keyInfo     // node keys of the deputies entitled to sign at the current height
	fed       []*types.Block // main-chain blocks fed to the validators, in order
	snapshots []*types.Block // snapshot blocks of the main chain (incl. genesis)
	bKind     string         // "validator", "restarted-clean", "restarted-crash"
	aAble     bool
	bAble     bool
	kinds     []int
	blocks    int
	panicsAt  int
	full      bool
	ties      bool
}

func (x *c10World) universe() []common.Address {
	seen := map[common.Address]bool{}
	var out []common.Address
	add := func(a common.Address) {
		if !seen[a] {
			seen[a] = true
			out = append(out, a)
		}
	}
	for _, d := range x.net.Deputies {
		add(d.Miner.Addr)
	}
	for _, u := range x.net.Users {
		add(u.Addr)
	}
	for _, a := range x.g.Candidates {
		add(a)
	}
	sort.Slice(out, func(i, j int) bool { return bytes.Compare(out[i][:], out[j][:]) < 0 })
	return out
}

// ctxClass is the part of a signature that says whether a restart is involved: the party
// itself (miner, validator A, validator B, store) is named in the message only.
func ctxClass(who string) string {
	switch who {
	case "restarted-clean", "store-reopened":
		return "/after-restart"
	case "restarted-crash":
		return "/after-crash"
	}
	return ""
}

// classifyTop names the way a published list deviates from the expected one.
func classifyTop(got, exp []candVotes, state StateDump, max int) string {
	if len(got) > max {
		return "longer-than-maximum"
	}
	expSet := map[common.Address]*big.Int{}
	for _, e := range exp {
		expSet[e.Addr] = e.Votes
	}
	gotSet := map[common.Address]*big.Int{}
	for _, g := range got {
		gotSet[g.Addr] = g.Votes
		if profileField(state[g.Addr]["profile"], types.CandidateKeyIsCandidate) != types.IsCandidateNode {
			if state[g.Addr]["profile"] == "" {
				return "contains-non-candidate"
			}
			return "contains-unregistered-candidate"
		}
	}
	for _, g := range got {
		if state[g.Addr].big("votes").Cmp(g.Votes) != 0 {
			return "stale-votes"
		}
	}
	for _, e := range exp {
		if _, ok := gotSet[e.Addr]; !ok {
			if len(got) < len(exp) {
				return "registered-candidate-missing"
			}
			return "wrong-member-at-cut"
		}
	}
	// same members
	for i := range got {
		if i < len(exp) && got[i].Addr != exp[i].Addr {
			if got[i].Votes.Cmp(exp[i].Votes) == 0 {
				return "tie-order"
			}
			return "order"
		}
	}
	return "other"
}

// checkTop evaluates the top list of block b as published by one party against the full
// sort of that party's own account state of b.
func (x *c10World) checkTop(who string, tag int, db *store.ChainDatabase, b *types.Block) bool {
	c := x.c
	uni := x.universe()
	var state StateDump
	var got []candVotes
	t := c.W.Do(tag, "top", func() {
		state = DumpState(db, b.Hash(), uni, nil)
		got = topOf(db.GetCandidatesTop(b.Hash()))
	})
	if !t.Finished {
		c.Fail("C10/top-list/unreadable"+ctxClass(who), "reading the top list of block %d/%s on %s did not finish (panic: %v)\n%s", b.Height(), b.Hash().Hex()[:10], who, t.Panic, trimStack(t.PanicStack))
		return false
	}
	max := x.net.P.MaxCandidates
	exp := expectedTop(state, max)
	reg := 0
	for _, ad := range state {
		if profileField(ad["profile"], types.CandidateKeyIsCandidate) == types.IsCandidateNode {
			reg++
		}
	}
	if reg > max {
		x.full = true
		c.Probe("more_registered_candidates_than_slots")
		all := expectedTop(state, 1<<20)
		if all[max-1].Votes.Cmp(all[max].Votes) == 0 {
			x.ties = true
			c.Probe("tie_at_the_cut")
		}
	} else if reg == max {
		c.Probe("list_exactly_full")
	}
	if topEqual(got, exp) {
		return true
	}
	class := classifyTop(got, exp, state, max)
	c.Fail("C10/top-list/"+class+ctxClass(who), "block %d/%s (parent %s) on %s: published top list %s; all registered candidates of that block's account state sorted by votes desc, address asc, cut to %d: %s; registered candidates in state: %d; txs: %v; %s",
		b.Height(), b.Hash().Hex()[:10], b.ParentHash().Hex()[:10], who, topString(got), max, topString(exp), reg, txsSummary(b.Txs), x.story())
	return false
}

func (x *c10World) story() string {
	return fmt.Sprintf("history: %d deputies (max %d), max candidates %d, term %d/%d, %d blocks fed, validator B is %s", len(x.net.Deputies), x.net.P.DeputyCount, x.net.P.MaxCandidates, x.net.P.TermDuration, x.net.P.InterimDuration, len(x.fed), x.bKind)
}

type c10Loader struct{ blocks map[uint32]*types.Block }

func (l *c10Loader) GetBlockByHeight(h uint32) (*types.Block, error) {
	if b := l.blocks[h]; b != nil {
		return b, nil
	}
	return nil, store.ErrBlockNotExist
}

// checkSnapshot evaluates a snapshot block against the account state of its parent.
func (x *c10World) checkSnapshot(b, parent *types.Block) bool {
	c := x.c
	uni := x.universe()
	var pstate StateDump
	c.W.Do(x.f.Tag, "pstate", func() { pstate = DumpState(x.f.DB, parent.Hash(), uni, nil) })
	list := expectedTop(pstate, x.net.P.MaxCandidates)
	n := x.net.P.DeputyCount
	if len(list) < n {
		n = len(list)
	}
	got := b.DeputyNodes
	for _, tx := range b.Txs {
		if tx.Type() == params.VoteTx || tx.Type() == params.RegisterTx {
			c.Probe("snapshot_block_with_vote_or_register_tx")
			break
		}
	}
	desc := func() string {
		var s []string
		for _, d := range got {
			s = append(s, fmt.Sprintf("{%s rank %d votes %s}", d.MinerAddress.Hex()[:10], d.Rank, d.Votes))
		}
		return "[" + strings.Join(s, " ") + "]"
	}
	fail := func(class, format string, args ...interface{}) bool {
		c.Fail("C10/snapshot-deputies/"+class, "snapshot block %d/%s: %s; deputy nodes in block %s; first %d of the list at its parent %s (from the parent's account state): %s; txs of the snapshot block: %v; %s",
			b.Height(), b.Hash().Hex()[:10], fmt.Sprintf(format, args...), desc(), n, parent.Hash().Hex()[:10], topString(list[:n]), txsSummary(b.Txs), x.story())
		return false
	}
	for i, d := range got {
		if d.Rank != uint32(i) {
			return fail("rank", "entry %d has rank %d", i, d.Rank)
		}
		if i > 0 && d.Votes.Cmp(got[i-1].Votes) > 0 {
			return fail("votes-increase", "votes increase from entry %d (%s) to entry %d (%s)", i-1, got[i-1].Votes, i, d.Votes)
		}
	}
	if len(got) != n {
		return fail("length", "%d deputy nodes, expected %d", len(got), n)
	}
	for i := 0; i < n; i++ {
		if got[i].MinerAddress != list[i].Addr {
			return fail("member", "entry %d is %s, expected %s", i, got[i].MinerAddress.Hex()[:10], list[i].Addr.Hex()[:10])
		}
		if got[i].Votes.Cmp(list[i].Votes) != 0 {
			return fail("votes-not-of-parent-state", "entry %d (%s) carries %s votes, its account has %s votes in the parent's state", i, got[i].MinerAddress.Hex()[:10], got[i].Votes, list[i].Votes)
		}
		wantID := common.FromHex(profileField(pstate[list[i].Addr]["profile"], types.CandidateKeyNodeID))
		if !bytes.Equal(got[i].NodeID, wantID) {
			return fail("node-id", "entry %d (%s) carries a node id that is not the one registered in the parent's state", i, got[i].MinerAddress.Hex()[:10])
		}
	}
	// loadable by a fresh deputy manager
	ld := &c10Loader{blocks: map[uint32]*types.Block{}}
	for _, s := range x.snapshots {
		ld.blocks[s.Height()] = s
	}
	ld.blocks[b.Height()] = b
	t := c.W.Do(x.f.Tag, "loadterm", func() { deputynode.NewManager(x.net.P.DeputyCount, ld) })
	if !t.Finished {
		x.skipPanics()
		return fail("not-loadable", "a fresh deputy manager cannot load the term from it: %v", t.Panic)
	}
	return true
}

func (x *c10World) skipPanics() { x.panicsAt = len(x.c.W.Panics()) }

// livePanic reports a panic in a task of a live party as a violation.
func (x *c10World) livePanic(ctx string) bool {
	ps := x.c.W.Panics()
	for _, p := range ps[x.panicsAt:] {
		x.panicsAt = len(ps)
		x.c.Fail("C10/panic/"+panicSite(p.Stack), "panic in task %s (node %d) while %s: %s; %s\n%s", p.Task, p.Node, ctx, p.Value, x.story(), trimStack(p.Stack))
		return true
	}
	x.panicsAt = len(ps)
	return false
}

func (x *c10World) able(nd *Node, h uint32) bool {
	T, I := x.net.P.TermDuration, x.net.P.InterimDuration
	if h > T+I {
		need := ((h - I - 1) / T) * T
		if nd.BC.StableBlock().Height() < need {
			return false
		}
	}
	return true
}

// refeed gives a restarted validator the main-chain blocks above its stable block again.
func (x *c10World) refeed(nd *Node, who string) bool {
	st := nd.BC.StableBlock().Height()
	for _, ob := range x.fed {
		if ob.Height() > st {
			if _, err := nd.InsertBlock(wireCopyBlock(ob)); err == nil {
				// the list of a re-fed block is rebuilt on top of the restarted stable block
				if !x.checkTop(who, nd.Tag, nd.DB, ob) {
					return false
				}
			}
		}
	}
	return true
}

func c10Params(c *Ctx) ChainParams {
	p := drawParams(c, true)
	p.MaxCandidates = 2 + c.Draw("cfg", 4)
	p.NUsers = 6 + c.Draw("cfg", 5)
	p.TermDuration = uint32(3 + c.Draw("cfg", 5))
	p.InterimDuration = uint32(1 + c.Draw("cfg", 2))
	return p
}

func c10Chain(c *Ctx) {
	p := c10Params(c)
	net := NewNet(c, p)
	x := &c10World{c: c, net: net, bKind: "validator", aAble: true, bAble: true}
	x.f = net.NewFactory(40)
	x.g = NewTxGen(net, c, "tx")
	x.kinds = c10SwarmKinds(c)
	x.A = net.AddNode(2, "A", detKey("observer-A"))
	x.B = net.AddNode(1, "B", detKey("observer-B"))
	x.pl = newCrashPlanner(c, x.B.Tag, x.B.Home)
	c.W.S.IOHook = x.pl.hook
	if !x.A.StartNode() || !x.B.StartNode() {
		c.Fail("C10/harness/start", "validator did not start")
		return
	}
	x.pl.phase = "run"
	gen := x.f.Blocks[net.GenBlock.Hash()]
	x.snapshots = append(x.snapshots, gen)
	restartMode := ""
	switch c.Var {
	case "chain-restart":
		restartMode = "clean"
	case "chain-crash":
		restartMode = "crash"
		if c.Tier == "quick" {
			restartMode = "clean" // crash points of promotions belong to the thorough tier
		}
	}
	// genesis itself
	if !x.checkTop("miner", x.f.Tag, x.f.DB, gen) || !x.checkTop("validator", x.A.Tag, x.A.DB, gen) {
		return
	}
	x.chainLoop(12, 5,
		func(r *BlockRec) bool {
			blk := r.Block
			x.blocks++
			if x.livePanic("mining") {
				return false
			}
			// the miner's own view, main block and sibling forks
			if !x.checkTop("miner", x.f.Tag, x.f.DB, blk) {
				return false
			}
			if r.IsSnap {
				if !x.checkSnapshot(blk, r.Parent) {
					return false
				}
				x.snapshots = append(x.snapshots, blk)
			}
			var alt *types.Block
			if c.Draw("gen", 3) == 0 && len(r.Cands) > 0 {
				var sub types.Transactions
				for i, tx := range r.Cands {
					if i%2 == 1 {
						sub = append(sub, wireCopyTx(tx))
					}
				}
				a, _, err := x.mineAs(x.minerKey, r.Parent, blk.Time(), sub, "alt")
				if x.livePanic("mining a sibling") {
					return false
				}
				if err == nil && a.Hash() != blk.Hash() {
					alt = a
					c.Fault("sibling_fork")
					if !x.checkTop("miner", x.f.Tag, x.f.DB, alt) {
						return false
					}
					if r.IsSnap && !x.checkSnapshot(alt, r.Parent) {
						return false
					}
				}
			}
			// validators
			for _, nd := range []*Node{x.A, x.B} {
				isB := nd == x.B
				ablep := &x.aAble
				who := "validator"
				if isB {
					ablep = &x.bAble
					who = x.bKind
				}
				if !*ablep {
					continue
				}
				if isB && restartMode == "clean" && c.Draw("gen", 3) == 0 {
					nd.StopNode()
					if !nd.StartNode() {
						c.Fail("C10/restart/failed", "validator did not come back after a clean restart; %s", x.story())
						return false
					}
					c.Fault("clean_restart")
					x.bKind, who = "restarted-clean", "restarted-clean"
					// the stable block's list as rebuilt from the persisted candidate list
					if !x.checkTop(who, nd.Tag, nd.DB, nd.BC.StableBlock()) {
						return false
					}
					if !x.refeed(nd, who) || x.livePanic("re-feeding a restarted validator") {
						return false
					}
				}
				if alt != nil && c.Draw("gen", 2) == 0 {
					if _, err := nd.InsertBlock(wireCopyBlock(alt)); err == nil {
						if !x.checkTop(who, nd.Tag, nd.DB, alt) {
							return false
						}
					}
				}
				if !x.able(nd, blk.Height()) {
					*ablep = false
					c.Probe("validator_unable_term_not_stable")
					continue
				}
				takeErrors(nd.Tag)
				_, ierr := nd.InsertBlock(wireCopyBlock(blk))
				if x.livePanic("inserting a block of the honest miner into " + who) {
					return false
				}
				if ierr == consensus.ErrIgnoreBlock && nd.BC.StableBlock().Height() >= blk.Height() {
					*ablep = false
					c.Probe("validator_finalised_sibling")
					continue
				}
				if ierr != nil {
					why := classifyRejection(takeErrors(nd.Tag))
					if strings.Contains(strings.ToLower(why), "deputy") {
						c.Fail("C10/snapshot-block-rejected/"+why+ctxClass(who), "%s rejects snapshot block %d of the honest miner (%v, reason %s); %s", who, blk.Height(), ierr, why, x.story())
						return false
					}
					// other rejections are C01's business
					*ablep = false
					c.Probe("validator_rejected_block_other_reason")
					continue
				}
				if !x.checkTop(who, nd.Tag, nd.DB, blk) {
					return false
				}
				// confirmations so that stable follows
				if c.Draw("gen", 4) != 0 {
					var sigs []types.SignData
					for k := range net.Deputies {
						if k != r.Deputy {
							sigs = append(sigs, net.Confirm(k, blk.Hash()))
						}
					}
					if len(sigs) > 0 {
						if isB && restartMode == "crash" && c.Draw("fault", 2) == 0 {
							x.pl.armRelative(int64(1+c.Draw("fault", 60)), c.Draw("fault", cvCount))
						}
						nd.InsertConfirms(blk.Height(), blk.Hash(), sigs)
						x.pl.disarm()
						if isB {
							if f := x.pl.takeFired(); f != nil {
								nd.CrashCleanup()
								x.skipPanics()
								if !nd.StartNode() {
									// the restart itself failing is C08's business
									x.skipPanics()
									c.Probe("crashed_validator_did_not_restart(C08)")
									*ablep = false
									continue
								}
								x.bKind, who = "restarted-crash", "restarted-crash"
								if !x.checkTop(who, nd.Tag, nd.DB, nd.BC.StableBlock()) {
									return false
								}
								x.fed = append(x.fed, blk)
								ok := x.refeed(nd, who)
								x.fed = x.fed[:len(x.fed)-1]
								if !ok {
									return false
								}
							}
						}
						if x.livePanic("inserting confirmations into " + who) {
							return false
						}
					}
				}
			}
			x.fed = append(x.fed, blk)
			c.State(hashString(fmt.Sprintf("%d/%v/%v/%v/%s", blk.Height(), r.IsSnap, x.full, x.ties, x.bKind)))
			return true
		})
	c.Nontrivial = x.blocks >= 3 && x.full
	c.Sample = map[string]interface{}{"variant": c.Var, "params": fmt.Sprintf("%+v", p), "blocks": x.blocks, "snapshot_blocks": len(x.snapshots) - 1,
		"more_candidates_than_slots": x.full, "tie_at_cut": x.ties, "validator_B": x.bKind, "registered_ever": len(x.g.Candidates), "tx_kinds": len(x.kinds)}
}

func signHash(k *keyInfo, h common.Hash) types.SignData {
	sig, err := crypto.Sign(h[:], k.Key)
	if err != nil {
		panic(err)
	}
	return types.BytesToSignData(sig)
}

// keyOfNode finds the private key of a deputy's node id: a genesis deputy, or a registered
// candidate (TxGen registers candidates with the node key "candnode-<address>").
func (x *c10World) keyOfNode(d *types.DeputyNode) *keyInfo {
	for _, g := range x.net.Deputies {
		if bytes.Equal(g.Node.NodeID, d.NodeID) {
			return g.Node
		}
	}
	k := detKey("candnode-" + d.MinerAddress.Hex())
	if bytes.Equal(k.NodeID, d.NodeID) {
		return k
	}
	return nil
}

// mineAs fabricates a block signed by the given node key (the miner account is the one the
// miner's own deputy manager assigns to that node at this height).
func (x *c10World) mineAs(key *keyInfo, parent *types.Block, ts uint32, txs types.Transactions, extra string) (blk *types.Block, invalid types.Transactions, err error) {
	f := x.f
	task := x.c.W.Do(f.Tag+20, "factory.mineas", func() {
		deputynode.SetSelfNodeKey(key.Key)
		var header *types.Header
		header, err = f.Asm.PrepareHeader(parent.Header, extra)
		if err != nil {
			return
		}
		header.Time = ts
		blk, invalid, err = f.Asm.MineBlock(header, txs, 10000)
		if err != nil {
			return
		}
		if e := f.DB.SetBlock(blk.Hash(), blk); e != nil {
			if e != store.ErrExist {
				err = e
			}
			return
		}
		if e := f.AM.Save(blk.Hash()); e != nil {
			err = e
		}
	})
	if !task.Finished {
		return nil, nil, fmt.Errorf("miner task did not finish (panic: %v)", task.Panic)
	}
	if err == nil && blk != nil {
		f.Blocks[blk.Hash()] = blk
		f.Kids[parent.Hash()] = append(f.Kids[parent.Hash()], blk.Hash())
	}
	return
}

// chainLoop is chainRun with a term-aware choice of the miner: the deputies entitled at a
// height are read from the miner's own deputy manager (they change with the terms this
// property is about), the in-turn one follows the reference slot rule.
func (x *c10World) chainLoop(maxBlocks, maxTxs int, onBlock func(r *BlockRec) bool) {
	c, net, g, f := x.c, x.net, x.g, x.f
	parent := f.Blocks[net.GenBlock.Hash()]
	nBlocks := 2 + c.Draw("gen", maxBlocks-1)
	for h := 1; h <= nBlocks; h++ {
		step := time.Duration(net.P.SlotMs) * time.Millisecond
		if c.Draw("gen", 4) == 0 {
			step *= time.Duration(1 + c.Draw("gen", 6))
		}
		c.W.Sleep(step - 200*time.Millisecond)
		now := time.Now().Unix()
		if now < int64(parent.Time()) {
			now = int64(parent.Time())
		}
		var deps types.DeputyNodes
		c.W.Do(f.Tag, "deputies", func() { deps = f.DM.GetDeputiesByHeight(uint32(h), true) })
		if len(deps) == 0 {
			c.Probe("no_term_known_to_the_miner")
			return
		}
		x.signers = nil
		for _, d := range deps {
			k := x.keyOfNode(d)
			if k == nil {
				c.Probe("deputy_with_unknown_node_key")
				return
			}
			x.signers = append(x.signers, k)
		}
		prank := -1
		if h != 1 && !deputynode.IsRewardBlock(uint32(h)) {
			for i, d := range deps {
				if d.MinerAddress == parent.MinerAddress() {
					prank = i
				}
			}
		}
		rank := InTurnRank(prank, int64(parent.Time())*1000, now*1000, int64(net.P.SlotMs), len(deps))
		x.minerKey = x.signers[rank]
		var cands types.Transactions
		if h == 1 {
			cands = append(cands, g.FundingTxs(now)...)
		} else {
			n := c.Draw("gen", maxTxs+1)
			for i := 0; i < n; i++ {
				if tx := g.Gen(now, x.kinds); tx != nil {
					cands = append(cands, tx)
				}
			}
		}
		c.Context = fmt.Sprintf("mining block %d by deputy rank %d with candidates %v", h, rank, txsSummary(cands))
		blk, invalid, err := x.mineAs(x.minerKey, parent, uint32(now), cands, "")
		if err != nil {
			c.Probe("mine_error")
			c.Keep["mine_error"] = err.Error()
			return
		}
		g.NoteIncluded(blk.Txs)
		rec := &BlockRec{Net: net, Gen: g, F: f, Parent: parent, Block: blk, Cands: cands, Invalid: invalid, Deputy: rank,
			IsReward: deputynode.IsRewardBlock(blk.Height()), IsSnap: deputynode.IsSnapshotBlock(blk.Height())}
		if rec.IsReward {
			c.Probe("reward_block")
		}
		if rec.IsSnap {
			c.Probe("snapshot_block")
		}
		if len(deps) != len(net.Deputies) || x.keyOfNode(deps[0]) != net.Deputies[0].Node {
			c.Probe("block_mined_under_an_elected_term")
		}
		if !onBlock(rec) || c.Failed() {
			return
		}
		if rec.IsSnap {
			// the miner's deputy manager learns the new term (as its stable chain would tell it)
			t := c.W.Do(f.Tag, "savesnapshot", func() { f.DM.SaveSnapshot(blk.Height(), blk.DeputyNodes) })
			if !t.Finished {
				x.skipPanics()
				c.Probe("miner_cannot_load_its_own_snapshot_block")
				return
			}
		}
		parent = blk
	}
}

func c10Scenario(c *Ctx) {
	if c.Var == "store" {
		c10Store(c)
		return
	}
	c10Chain(c)
}

func init() {
	Register(&PropDef{
		ID: "C10", Variants: []string{"chain", "chain-restart", "store", "chain-restart", "chain-crash", "store"},
		Scenario:     c10Scenario,
		IgnorePanics: true,
		ShrinkExecs:  200, ShrinkSeconds: 45,
		SimConfig:   func(c *Ctx) simrt.Config { return simrt.Config{Policy: simrt.PolicyCoarse} },
		Rule:        "chain variants: honest miner (factory) builds 2-12 blocks of vote/register/update/unregister/transfer transactions, 6-10 users, candidate list size 2-5, terms of 3-7 blocks, sibling forks; a never-restarted validator and a validator restarted cleanly (chain-restart) or crashed at a tape-chosen I/O event of a promotion (chain-crash) follow with unstable blocks re-fed; store variant: ChainDatabase fed directly with block trees, account puts and vote logs as account.Manager.Save does (small vote range for ties, list-full edge cases, stabilisation, reopen). Oracle per block and party: top list == full sort of the block's account state; snapshot deputies == first N of the parent's list. non-trivial = >=3 blocks and more registered candidates than slots reached; distinct = event-log digests",
		Real:        []string{"store (CBlock.Ranking, VoteTop, CandidateTrieDB, RunContext, ChainDatabase startup)", "chain/account", "chain/transaction (vote/register txs)", "chain/consensus (Seal, verifyDeputy, LoadTopCandidates, saveSnapshot)", "chain/deputynode (Manager, NewTermRecord)"},
		Stub:        []string{"no network; blocks and confirmations are handed over by the harness", "store variant: the harness plays account.Manager.Save (account puts + vote logs)"},
		Assumptions: []string{"the candidate universe is genesis deputies + every account that ever sent a register transaction + all users", "a validator is only required to judge a block when the governing term is stable on it", "store variant feeds only inputs the account layer can produce: a vote log iff the votes changed, votes of an unregistered candidate are 0, no re-registration"},
	})
}
