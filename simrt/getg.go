package simrt

// getg returns the address of the running goroutine's g structure; it is used only
// as an opaque goroutine identity (never dereferenced).
func getg() uintptr
