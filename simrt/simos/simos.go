// Package simos is an in-memory stand-in for the parts of package os that
// lemochain-core's store uses. Every mutating call is an I/O event reported to
// simrt (scheduling point + fault hook). In pass-through mode (no simulation running)
// it still works as a plain in-memory file system.
//
// Crash model (process death): completed writes survive; the in-flight write may be
// torn to a prefix; create/remove/mkdir are atomic. An optional power-loss view
// (Disk.DropUnsynced) drops data written after the last Sync of each file.
package simos

import (
	"errors"
	"io"
	"io/fs"
	"os"
	"path/filepath"
	"sort"
	"strings"
	"sync"
	"time"

	"verif/simrt"
)

const (
	O_RDONLY = os.O_RDONLY
	O_WRONLY = os.O_WRONLY
	O_RDWR   = os.O_RDWR
	O_APPEND = os.O_APPEND
	O_CREATE = os.O_CREATE
	O_EXCL   = os.O_EXCL
	O_SYNC   = os.O_SYNC
	O_TRUNC  = os.O_TRUNC

	ModePerm = os.ModePerm
)

type FileMode = os.FileMode
type FileInfo = os.FileInfo

var (
	ErrNotExist = os.ErrNotExist
	ErrExist    = os.ErrExist
	ErrClosed   = os.ErrClosed
	// ErrInjected is returned by operations the fault hook failed.
	ErrInjected = errors.New("simos: injected I/O error")
	ErrNoSpace  = errors.New("simos: no space left on device")
)

type inode struct {
	data   []byte
	synced int // length that had been Sync'ed (power-loss probe only)
	dir    bool
}

// Disk is one in-memory file tree shared by the whole process (paths are global;
// nodes use distinct home directories).
type Disk struct {
	mu    sync.Mutex
	files map[string]*inode
	// stats
	Writes, Syncs, Creates, Removes int64
}

var disk = &Disk{files: map[string]*inode{"/": {dir: true}}}

// Reset drops every file (called by the harness at the start of a run).
func Reset() {
	disk.mu.Lock()
	disk.files = map[string]*inode{"/": {dir: true}}
	disk.Writes, disk.Syncs, disk.Creates, disk.Removes = 0, 0, 0, 0
	disk.mu.Unlock()
}

// TheDisk returns the process-wide simulated disk.
func TheDisk() *Disk { return disk }

func clean(p string) string {
	p = filepath.Clean(p)
	if !strings.HasPrefix(p, "/") {
		p = "/cwd/" + p
	}
	return p
}

// Snapshot copies the subtree rooted at prefix (for twin comparison / restore).
func (d *Disk) Snapshot(prefix string) map[string][]byte {
	prefix = clean(prefix)
	d.mu.Lock()
	defer d.mu.Unlock()
	out := map[string][]byte{}
	for p, in := range d.files {
		if p == prefix || strings.HasPrefix(p, prefix+"/") {
			if in.dir {
				out[p] = nil
			} else {
				c := make([]byte, len(in.data))
				copy(c, in.data)
				out[p] = c
			}
		}
	}
	return out
}

// Restore replaces the subtree rooted at prefix by a snapshot.
func (d *Disk) Restore(prefix string, snap map[string][]byte) {
	prefix = clean(prefix)
	d.mu.Lock()
	defer d.mu.Unlock()
	for p := range d.files {
		if p == prefix || strings.HasPrefix(p, prefix+"/") {
			delete(d.files, p)
		}
	}
	for p, b := range snap {
		if b == nil {
			d.files[p] = &inode{dir: true}
		} else {
			c := make([]byte, len(b))
			copy(c, b)
			d.files[p] = &inode{data: c, synced: len(c)}
		}
	}
}

// DropUnsynced truncates every file under prefix to its last synced length
// (power-loss probe; not part of the gating crash model).
func (d *Disk) DropUnsynced(prefix string) int {
	prefix = clean(prefix)
	d.mu.Lock()
	defer d.mu.Unlock()
	n := 0
	for p, in := range d.files {
		if !in.dir && (p == prefix || strings.HasPrefix(p, prefix+"/")) && in.synced < len(in.data) {
			in.data = in.data[:in.synced]
			n++
		}
	}
	return n
}

// List returns the paths under prefix, sorted.
func (d *Disk) List(prefix string) []string {
	prefix = clean(prefix)
	d.mu.Lock()
	defer d.mu.Unlock()
	var out []string
	for p := range d.files {
		if p == prefix || strings.HasPrefix(p, prefix+"/") {
			out = append(out, p)
		}
	}
	sort.Strings(out)
	return out
}

// ReadFile returns a copy of a file's bytes (harness use).
func (d *Disk) ReadFile(path string) ([]byte, bool) {
	d.mu.Lock()
	defer d.mu.Unlock()
	in := d.files[clean(path)]
	if in == nil || in.dir {
		return nil, false
	}
	c := make([]byte, len(in.data))
	copy(c, in.data)
	return c, true
}

// WriteFile sets a file's bytes directly, bypassing events (harness use: corruption).
func (d *Disk) WriteFile(path string, b []byte) {
	d.mu.Lock()
	defer d.mu.Unlock()
	c := make([]byte, len(b))
	copy(c, b)
	d.files[clean(path)] = &inode{data: c, synced: len(c)}
}

func pathErr(op, path string, err error) error {
	return &os.PathError{Op: op, Path: path, Err: err}
}

func IsNotExist(err error) bool { return os.IsNotExist(err) }
func IsExist(err error) bool    { return os.IsExist(err) }

type fileInfo struct {
	name string
	size int64
	dir  bool
}

func (fi fileInfo) Name() string { return fi.name }
func (fi fileInfo) Size() int64  { return fi.size }
func (fi fileInfo) Mode() fs.FileMode {
	if fi.dir {
		return fs.ModeDir | 0755
	}
	return 0644
}
func (fi fileInfo) ModTime() time.Time { return time.Unix(946684800, 0) }
func (fi fileInfo) IsDir() bool        { return fi.dir }
func (fi fileInfo) Sys() interface{}   { return nil }

func Stat(name string) (FileInfo, error) {
	simrt.RaceOff()
	defer simrt.RaceOn()
	p := clean(name)
	disk.mu.Lock()
	defer disk.mu.Unlock()
	in := disk.files[p]
	if in == nil {
		return nil, pathErr("stat", name, ErrNotExist)
	}
	return fileInfo{name: filepath.Base(p), size: int64(len(in.data)), dir: in.dir}, nil
}

func parentExists(p string) bool {
	par := filepath.Dir(p)
	in := disk.files[par]
	return in != nil && in.dir
}

func MkdirAll(path string, perm FileMode) error {
	simrt.RaceOff()
	defer simrt.RaceOn()
	p := clean(path)
	act, _ := simrt.IO("mkdir", p, 0, 0)
	if act.Err != nil {
		return pathErr("mkdir", path, act.Err)
	}
	if act.CrashBefore {
		simrt.Die()
	}
	disk.mu.Lock()
	parts := strings.Split(strings.TrimPrefix(p, "/"), "/")
	curp := ""
	for _, part := range parts {
		if part == "" {
			continue
		}
		curp += "/" + part
		in := disk.files[curp]
		if in == nil {
			disk.files[curp] = &inode{dir: true}
		} else if !in.dir {
			disk.mu.Unlock()
			return pathErr("mkdir", path, errors.New("not a directory"))
		}
	}
	disk.mu.Unlock()
	if act.CrashAfter {
		simrt.Die()
	}
	return nil
}

func Mkdir(path string, perm FileMode) error { return MkdirAll(path, perm) }

func Remove(name string) error {
	simrt.RaceOff()
	defer simrt.RaceOn()
	p := clean(name)
	act, _ := simrt.IO("remove", p, 0, 0)
	if act.Err != nil {
		return pathErr("remove", name, act.Err)
	}
	if act.CrashBefore {
		simrt.Die()
	}
	disk.mu.Lock()
	in := disk.files[p]
	if in == nil {
		disk.mu.Unlock()
		return pathErr("remove", name, ErrNotExist)
	}
	if in.dir {
		for q := range disk.files {
			if strings.HasPrefix(q, p+"/") {
				disk.mu.Unlock()
				return pathErr("remove", name, errors.New("directory not empty"))
			}
		}
	}
	delete(disk.files, p)
	disk.Removes++
	disk.mu.Unlock()
	if act.CrashAfter {
		simrt.Die()
	}
	return nil
}

// Rename moves a file (or an empty directory entry) to a new name, replacing an existing
// file of that name. It is one atomic I/O event under the crash model: after a crash either
// the old or the new name holds the inode, never both or none.
func Rename(oldpath, newpath string) error {
	op, np := clean(oldpath), clean(newpath)
	act, _ := simrt.IO("rename", np, 0, 0)
	if act.Err != nil {
		return &os.LinkError{Op: "rename", Old: oldpath, New: newpath, Err: act.Err}
	}
	if act.CrashBefore {
		simrt.Die()
	}
	disk.mu.Lock()
	in := disk.files[op]
	if in == nil {
		disk.mu.Unlock()
		return &os.LinkError{Op: "rename", Old: oldpath, New: newpath, Err: ErrNotExist}
	}
	if !parentExists(np) {
		disk.mu.Unlock()
		return &os.LinkError{Op: "rename", Old: oldpath, New: newpath, Err: ErrNotExist}
	}
	if dst := disk.files[np]; dst != nil && dst.dir {
		disk.mu.Unlock()
		return &os.LinkError{Op: "rename", Old: oldpath, New: newpath, Err: errors.New("file exists")}
	}
	if op != np {
		disk.files[np] = in
		delete(disk.files, op)
	}
	disk.mu.Unlock()
	if act.CrashAfter {
		simrt.Die()
	}
	return nil
}

func RemoveAll(path string) error {
	simrt.RaceOff()
	defer simrt.RaceOn()
	p := clean(path)
	act, _ := simrt.IO("removeall", p, 0, 0)
	if act.Err != nil {
		return pathErr("removeall", path, act.Err)
	}
	if act.CrashBefore {
		simrt.Die()
	}
	disk.mu.Lock()
	for q := range disk.files {
		if q == p || strings.HasPrefix(q, p+"/") {
			delete(disk.files, q)
		}
	}
	disk.mu.Unlock()
	if act.CrashAfter {
		simrt.Die()
	}
	return nil
}

// File mirrors the subset of *os.File the repository uses. Methods tolerate a nil
// receiver (the repository defers Close before checking the open error).
type File struct {
	path   string
	in     *inode
	pos    int64
	flag   int
	closed bool
}

func Create(name string) (*File, error) {
	return OpenFile(name, O_RDWR|O_CREATE|O_TRUNC, 0666)
}

func Open(name string) (*File, error) { return OpenFile(name, O_RDONLY, 0) }

func OpenFile(name string, flag int, perm FileMode) (*File, error) {
	simrt.RaceOff()
	defer simrt.RaceOn()
	p := clean(name)
	mutating := flag&(O_CREATE|O_TRUNC) != 0
	var act simrt.IOAction
	if mutating {
		disk.mu.Lock()
		in := disk.files[p]
		disk.mu.Unlock()
		if in == nil || flag&O_TRUNC != 0 {
			act, _ = simrt.IO("create", p, 0, 0)
			if act.Err != nil {
				return nil, pathErr("open", name, act.Err)
			}
			if act.CrashBefore {
				simrt.Die()
			}
		} else {
			mutating = false
		}
	}
	disk.mu.Lock()
	in := disk.files[p]
	if in == nil {
		if flag&O_CREATE == 0 {
			disk.mu.Unlock()
			return nil, pathErr("open", name, ErrNotExist)
		}
		if !parentExists(p) {
			disk.mu.Unlock()
			return nil, pathErr("open", name, ErrNotExist)
		}
		in = &inode{}
		disk.files[p] = in
		disk.Creates++
	} else {
		if flag&O_CREATE != 0 && flag&O_EXCL != 0 {
			disk.mu.Unlock()
			return nil, pathErr("open", name, ErrExist)
		}
		if in.dir && flag&(O_WRONLY|O_RDWR) != 0 {
			disk.mu.Unlock()
			return nil, pathErr("open", name, errors.New("is a directory"))
		}
		if flag&O_TRUNC != 0 && !in.dir {
			in.data = nil
			in.synced = 0
		}
	}
	disk.mu.Unlock()
	if mutating && act.CrashAfter {
		simrt.Die()
	}
	return &File{path: p, in: in, flag: flag}, nil
}

func (f *File) Name() string {
	if f == nil {
		return ""
	}
	return f.path
}

func (f *File) Close() error {
	simrt.RaceOff()
	defer simrt.RaceOn()
	if f == nil {
		return os.ErrInvalid
	}
	if f.closed {
		return pathErr("close", f.path, ErrClosed)
	}
	f.closed = true
	return nil
}

func (f *File) Seek(offset int64, whence int) (int64, error) {
	simrt.RaceOff()
	defer simrt.RaceOn()
	if f == nil {
		return 0, os.ErrInvalid
	}
	if f.closed {
		return 0, pathErr("seek", f.path, ErrClosed)
	}
	disk.mu.Lock()
	size := int64(len(f.in.data))
	disk.mu.Unlock()
	var np int64
	switch whence {
	case io.SeekStart:
		np = offset
	case io.SeekCurrent:
		np = f.pos + offset
	case io.SeekEnd:
		np = size + offset
	default:
		return 0, pathErr("seek", f.path, os.ErrInvalid)
	}
	if np < 0 {
		return 0, pathErr("seek", f.path, os.ErrInvalid)
	}
	f.pos = np
	return np, nil
}

func (f *File) Read(b []byte) (int, error) {
	simrt.RaceOff()
	defer simrt.RaceOn()
	if f == nil {
		return 0, os.ErrInvalid
	}
	if f.closed {
		return 0, pathErr("read", f.path, ErrClosed)
	}
	if f.flag&(O_WRONLY) != 0 {
		return 0, pathErr("read", f.path, os.ErrPermission)
	}
	if len(b) == 0 {
		return 0, nil
	}
	disk.mu.Lock()
	defer disk.mu.Unlock()
	if f.pos >= int64(len(f.in.data)) {
		return 0, io.EOF
	}
	n := copy(b, f.in.data[f.pos:])
	f.pos += int64(n)
	return n, nil
}

func (f *File) ReadAt(b []byte, off int64) (int, error) {
	simrt.RaceOff()
	defer simrt.RaceOn()
	if f == nil {
		return 0, os.ErrInvalid
	}
	disk.mu.Lock()
	defer disk.mu.Unlock()
	if off >= int64(len(f.in.data)) {
		return 0, io.EOF
	}
	n := copy(b, f.in.data[off:])
	if n < len(b) {
		return n, io.EOF
	}
	return n, nil
}

func (f *File) writeAt(b []byte, off int64) {
	disk.mu.Lock()
	end := off + int64(len(b))
	if int64(len(f.in.data)) < end {
		if int64(cap(f.in.data)) >= end {
			old := len(f.in.data)
			f.in.data = f.in.data[:end]
			for i := int64(old); i < off; i++ {
				f.in.data[i] = 0
			}
		} else {
			nd := make([]byte, end, end*2)
			copy(nd, f.in.data)
			f.in.data = nd
		}
	}
	copy(f.in.data[off:], b)
	if int64(f.in.synced) > off {
		f.in.synced = int(off)
	}
	disk.Writes++
	disk.mu.Unlock()
}

func (f *File) Write(b []byte) (int, error) {
	simrt.RaceOff()
	defer simrt.RaceOn()
	if f == nil {
		return 0, os.ErrInvalid
	}
	if f.closed {
		return 0, pathErr("write", f.path, ErrClosed)
	}
	if f.flag&(O_WRONLY|O_RDWR) == 0 {
		return 0, pathErr("write", f.path, os.ErrPermission)
	}
	if f.flag&O_APPEND != 0 {
		disk.mu.Lock()
		f.pos = int64(len(f.in.data))
		disk.mu.Unlock()
	}
	act, _ := simrt.IO("write", f.path, f.pos, len(b))
	if act.Err != nil {
		return 0, pathErr("write", f.path, act.Err)
	}
	if act.CrashBefore {
		if act.Torn > 0 && act.Torn < len(b) {
			f.writeAt(b[:act.Torn], f.pos)
		}
		simrt.Die()
	}
	if act.Short > 0 && act.Short < len(b) {
		f.writeAt(b[:act.Short], f.pos)
		f.pos += int64(act.Short)
		return act.Short, io.ErrShortWrite
	}
	f.writeAt(b, f.pos)
	f.pos += int64(len(b))
	if act.CrashAfter {
		simrt.Die()
	}
	return len(b), nil
}

func (f *File) WriteString(s string) (int, error) { return f.Write([]byte(s)) }

func (f *File) Sync() error {
	simrt.RaceOff()
	defer simrt.RaceOn()
	if f == nil {
		return os.ErrInvalid
	}
	if f.closed {
		return pathErr("sync", f.path, ErrClosed)
	}
	act, _ := simrt.IO("sync", f.path, 0, 0)
	if act.Err != nil {
		return pathErr("sync", f.path, act.Err)
	}
	if act.CrashBefore {
		simrt.Die()
	}
	disk.mu.Lock()
	f.in.synced = len(f.in.data)
	disk.Syncs++
	disk.mu.Unlock()
	if act.CrashAfter {
		simrt.Die()
	}
	return nil
}

func (f *File) Truncate(size int64) error {
	simrt.RaceOff()
	defer simrt.RaceOn()
	if f == nil {
		return os.ErrInvalid
	}
	act, _ := simrt.IO("truncate", f.path, size, 0)
	if act.Err != nil {
		return pathErr("truncate", f.path, act.Err)
	}
	if act.CrashBefore {
		simrt.Die()
	}
	disk.mu.Lock()
	if int64(len(f.in.data)) > size {
		f.in.data = f.in.data[:size]
	} else {
		for int64(len(f.in.data)) < size {
			f.in.data = append(f.in.data, 0)
		}
	}
	if int64(f.in.synced) > size {
		f.in.synced = int(size)
	}
	disk.mu.Unlock()
	if act.CrashAfter {
		simrt.Die()
	}
	return nil
}

func (f *File) Stat() (FileInfo, error) {
	simrt.RaceOff()
	defer simrt.RaceOn()
	if f == nil {
		return nil, os.ErrInvalid
	}
	disk.mu.Lock()
	defer disk.mu.Unlock()
	return fileInfo{name: filepath.Base(f.path), size: int64(len(f.in.data)), dir: f.in.dir}, nil
}
