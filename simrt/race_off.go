//go:build !race

package simrt

const RaceEnabled = false

func raceOff() {}
func raceOn()  {}

func raceRelease(p *int32) {}
func raceAcquire(p *int32) {}
