//go:build !race

package simrt

const RaceEnabled = false

func raceOff() {}
func raceOn()  {}
