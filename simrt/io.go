package simrt

import (
	"runtime"
	"sync"
)

var plMu sync.Mutex

// holder returns the calling goroutine's task if it holds the token, else nil.
//go:norace
func (s *Sim) holder() *Task {
	if s == nil {
		return nil
	}
	if t := s.current.Load(); t != nil && t.g == getg() {
		return t
	}
	return nil
}

// IOEvent describes one mutating operation on the simulated disk.
type IOEvent struct {
	Seq  int64  // run-global sequence number (1-based)
	Node int    // node tag of the calling task
	Kind string // "write", "create", "remove", "mkdir", "sync", "ldb.write", ...
	Path string
	Off  int64
	Len  int
}

// IOAction is the fault decision for one event.
type IOAction struct {
	CrashBefore bool  // the node dies before the operation takes effect
	CrashAfter  bool  // the operation completes, then the node dies
	Torn        int   // with CrashBefore on a write: the first Torn bytes are written
	Err         error // the operation fails with this error (no effect)
	Short       int   // a write reports/performs only Short bytes (>0)
}

// IO is called by simos/simldb before a mutating operation. It is a scheduling point.
// A dead task never returns from it.
//go:norace
func IO(kind, path string, off int64, n int) (IOAction, *Sim) {
	s := cur.Load()
	if s == nil {
		return IOAction{}, nil
	}
	raceOff()
	defer raceOn()
	Yield(-5)
	t := s.self()
	node := 0
	if t != nil {
		node = t.Node
		if t.dead() && !t.low {
			if s.current.Load() == t {
				s.current.Store(nil)
			}
			runtime.Goexit()
		}
	}
	s.ioSeq++
	ev := &IOEvent{Seq: s.ioSeq, Node: node, Kind: kind, Path: path, Off: off, Len: n}
	s.logf("io:"+kind, ev.Seq, int64(n), path)
	if s.IOHook == nil {
		return IOAction{}, s
	}
	return s.IOHook(ev), s
}

// Die kills the calling task's node and terminates the calling task (used by the
// simulated disk to realise CrashBefore/CrashAfter).
//go:norace
func Die() {
	s := cur.Load()
	if s == nil {
		return
	}
	t := s.self()
	if t == nil {
		return
	}
	if !t.dead() {
		s.Kill(t.Node)
	}
	if t.low {
		return
	}
	if s.current.Load() == t {
		s.current.Store(nil)
	}
	runtime.Goexit()
}

// IOSeq returns the number of I/O events so far.
func (s *Sim) IOSeq() int64 { return s.ioSeq }

// ---- node-local replacements for process-global variables ----

type nlKey struct {
	node int
	name string
}

// NodeLocal returns the per-node instance of a process-global variable, creating it
// with mk on first use. Instrumented accessors call it with the current node.
func NodeLocal(name string, mk func() interface{}) interface{} {
	node := CurrentNode()
	return NodeLocalFor(node, name, mk)
}

var passThroughLocals = map[nlKey]interface{}{}

//go:norace
func NodeLocalFor(node int, name string, mk func() interface{}) interface{} {
	raceOff()
	defer raceOn()
	s := cur.Load()
	k := nlKey{node, name}
	if s == nil {
		// pass-through mode: one instance per name (single-threaded use only at init)
		k.node = 0
		plMu.Lock()
		defer plMu.Unlock()
		v, ok := passThroughLocals[k]
		if !ok {
			v = mk()
			passThroughLocals[k] = v
		}
		return v
	}
	if v, ok := s.nodeLocal.Load(k); ok {
		return v
	}
	v, _ := s.nodeLocal.LoadOrStore(k, mk())
	return v
}

// IOManaged is like IO but does nothing when the caller is not a managed task
// (e.g. goleveldb's own background goroutines) and never terminates the caller: the
// caller is inside third-party code holding its locks; it dies at its next yield.
//go:norace
func IOManaged(kind, path string, off int64, n int) (IOAction, *Sim) {
	s := cur.Load()
	if s == nil {
		return IOAction{}, nil
	}
	raceOff()
	defer raceOn()
	t := s.self()
	if t == nil || s.holder() == nil {
		return IOAction{}, nil
	}
	if t.dead() && !t.low {
		return IOAction{CrashBefore: true}, s
	}
	s.ioSeq++
	ev := &IOEvent{Seq: s.ioSeq, Node: t.Node, Kind: kind, Path: path, Off: off, Len: n}
	s.logf("io:"+kind, ev.Seq, int64(n), path)
	if s.IOHook == nil {
		return IOAction{}, s
	}
	return s.IOHook(ev), s
}

// KillCurrentNode kills the node of the calling task without terminating the caller.
//go:norace
func KillCurrentNode() {
	s := cur.Load()
	if s == nil {
		return
	}
	if t := s.self(); t != nil && !t.dead() {
		s.Kill(t.Node)
	}
}

var killHooks []func(node int)

// RegisterKillHook registers f to be called whenever a node is killed (init time only).
func RegisterKillHook(f func(node int)) { killHooks = append(killHooks, f) }
