package simrt

import (
	"sync"
	"sync/atomic"
)

// Mutex replaces sync.Mutex in instrumented code. Waiters block on a channel, which
// testing/synctest treats as durably blocked, so a task may be descheduled while it
// holds the lock and contenders are simply not runnable. Lock is a scheduling point.
type Mutex struct {
	st atomic.Pointer[mutexState]
}

// mutexState: the channel belongs to the bubble (run) it was made in. A package-level mutex of the program outlives
// a run; the next run gets a fresh, unlocked channel (a channel of another bubble must not be touched, and a task
// that was killed while holding the lock must not keep it locked for the following runs).
type mutexState struct {
	c   chan struct{}
	sim *Sim
}

func (m *Mutex) c() chan struct{} {
	s := cur.Load()
	st := m.st.Load()
	if st != nil && st.sim == s {
		return st.c
	}
	n := &mutexState{c: make(chan struct{}, 1), sim: s}
	if m.st.CompareAndSwap(st, n) {
		return n.c
	}
	return m.st.Load().c
}

func (m *Mutex) Lock() {
	Yield(-2)
	ch := m.c()
	select {
	case ch <- struct{}{}:
		return
	default:
	}
	t := lockWaitBegin()
	ch <- struct{}{}
	lockWaitEnd(t)
}

func (m *Mutex) Unlock() {
	select {
	case <-m.c():
	default:
		panic("simrt: unlock of unlocked mutex")
	}
}

// TryLock is provided for completeness.
func (m *Mutex) TryLock() bool {
	select {
	case m.c() <- struct{}{}:
		return true
	default:
		return false
	}
}

type rwWaiter struct {
	write bool
	ch    chan struct{}
}

// RWMutex replaces sync.RWMutex: many readers or one writer; a waiting writer blocks
// new readers (as in package sync, so recursive read locking deadlocks here too).
type RWMutex struct {
	mu      sync.Mutex // internal, never held across a blocking operation
	readers int
	writer  bool
	queue   []*rwWaiter
}

func (rw *RWMutex) Lock() {
	Yield(-3)
	rw.mu.Lock()
	if !rw.writer && rw.readers == 0 && len(rw.queue) == 0 {
		rw.writer = true
		rw.mu.Unlock()
		return
	}
	w := &rwWaiter{write: true, ch: make(chan struct{})}
	rw.queue = append(rw.queue, w)
	rw.mu.Unlock()
	t := lockWaitBegin()
	<-w.ch
	lockWaitEnd(t)
}

func (rw *RWMutex) Unlock() {
	rw.mu.Lock()
	if !rw.writer {
		rw.mu.Unlock()
		panic("simrt: unlock of unlocked RWMutex")
	}
	rw.writer = false
	rw.grant()
	rw.mu.Unlock()
}

func (rw *RWMutex) RLock() {
	Yield(-4)
	rw.mu.Lock()
	if !rw.writer && len(rw.queue) == 0 {
		rw.readers++
		rw.mu.Unlock()
		return
	}
	w := &rwWaiter{ch: make(chan struct{})}
	rw.queue = append(rw.queue, w)
	rw.mu.Unlock()
	t := lockWaitBegin()
	<-w.ch
	lockWaitEnd(t)
}

func (rw *RWMutex) RUnlock() {
	rw.mu.Lock()
	if rw.readers <= 0 {
		rw.mu.Unlock()
		panic("simrt: RUnlock of unlocked RWMutex")
	}
	rw.readers--
	if rw.readers == 0 {
		rw.grant()
	}
	rw.mu.Unlock()
}

func (rw *RWMutex) grant() {
	for len(rw.queue) > 0 {
		h := rw.queue[0]
		if h.write {
			if rw.readers == 0 && !rw.writer {
				rw.writer = true
				rw.queue = rw.queue[1:]
				close(h.ch)
			}
			return
		}
		if rw.writer {
			return
		}
		rw.readers++
		rw.queue = rw.queue[1:]
		close(h.ch)
	}
}

// RLocker mirrors sync.RWMutex.RLocker.
func (rw *RWMutex) RLocker() sync.Locker { return (*rlocker)(rw) }

type rlocker RWMutex

func (r *rlocker) Lock()   { (*RWMutex)(r).RLock() }
func (r *rlocker) Unlock() { (*RWMutex)(r).RUnlock() }

// Once replaces sync.Once (whose internal mutex would block non-durably while the
// initialising task is descheduled).
type Once struct {
	done atomic.Bool
	m    Mutex
}

func (o *Once) Do(f func()) {
	if o.done.Load() {
		return
	}
	o.m.Lock()
	defer o.m.Unlock()
	if !o.done.Load() {
		defer o.done.Store(true)
		f()
	}
}
