//go:build race

package simrt

import (
	"runtime"
	"unsafe"
)

// In the -race build the scheduler's own synchronisation (token hand-off, park/wake,
// synctest.Wait) is hidden from the race detector: otherwise every hand-off would order
// all accesses of the previous task before those of the next one and no race could ever
// be reported under a serialised schedule. With it hidden, the detector sees only the
// program's synchronisation (sync, channels, atomics; simrt.Mutex is built from ordinary
// channel operations executed by the tasks themselves) under the schedule we chose.
const RaceEnabled = true

func raceOff() { runtime.RaceDisable() }
func raceOn()  { runtime.RaceEnable() }

// raceRelease / raceAcquire re-create the happens-before edges that ARE part of the
// simulated world although they travel through the scheduler: a task that parks or ends
// publishes to the world (the harness waits for quiescence before it acts again), and the
// world publishes to every task that resumes after it. Tasks get no edge among each other.
func raceRelease(p *int32) { runtime.RaceEnable(); runtime.RaceReleaseMerge(unsafe.Pointer(p)); runtime.RaceDisable() }
func raceAcquire(p *int32) { runtime.RaceEnable(); runtime.RaceAcquire(unsafe.Pointer(p)); runtime.RaceDisable() }
