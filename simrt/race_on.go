//go:build race

package simrt

import "runtime"

// In the -race build the scheduler's own synchronisation (token hand-off, park/wake,
// synctest.Wait) is hidden from the race detector: otherwise every hand-off would order
// all accesses of the previous task before those of the next one and no race could ever
// be reported under a serialised schedule. With it hidden, the detector sees only the
// program's synchronisation (sync, channels, atomics; simrt.Mutex is built from ordinary
// channel operations executed by the tasks themselves) under the schedule we chose.
const RaceEnabled = true

func raceOff() { runtime.RaceDisable() }
func raceOn()  { runtime.RaceEnable() }
