// Package simldb opens goleveldb databases on retained in-memory storage so that a
// simulated node can die and re-open "the same directory". Every storage mutation
// performed by a managed task is an I/O event (fault hook + scheduling point).
// goleveldb itself is real code; its per-call atomicity and journal recovery are part
// of the trusted base.
package simldb

import (
	"bytes"
	"errors"
	"io"
	"os"
	"sort"
	"sync"

	"github.com/syndtr/goleveldb/leveldb"
	"github.com/syndtr/goleveldb/leveldb/opt"
	"github.com/syndtr/goleveldb/leveldb/storage"

	"verif/simrt"
)

var errDead = errors.New("simldb: node crashed")

type mfile struct {
	data   []byte
	synced int // length at the last Sync (power-loss probe only)
}

// store is the durable content of one database directory.
type store struct {
	mu      sync.Mutex
	path    string
	files   map[uint64]*mfile
	meta    storage.FileDesc
	hasMeta bool
}

var (
	regMu   sync.Mutex
	stores  = map[string]*store{}
	handles = map[*handle]struct{}{}
	opened  []openDB
)

type openDB struct {
	db   *leveldb.DB
	node int
}

// CloseNode closes every database that tasks of node opened and that is still
// registered (crash clean-up: frees goleveldb's goroutines even when the crash hit
// before the opener could hand the handle to anybody). The handles are dead by then,
// so closing adds no bytes. Returns the number of databases closed.
func CloseNode(node int) int {
	regMu.Lock()
	var mine []*leveldb.DB
	rest := opened[:0]
	for _, o := range opened {
		if o.node == node {
			mine = append(mine, o.db)
		} else {
			rest = append(rest, o)
		}
	}
	opened = rest
	regMu.Unlock()
	for _, db := range mine {
		db.Close()
	}
	return len(mine)
}

func register(db *leveldb.DB, node int) {
	regMu.Lock()
	opened = append(opened, openDB{db, node})
	regMu.Unlock()
}

// DropUnsynced truncates every file of the database to its last synced length
// (power-loss probe; goleveldb syncs tables and manifests but the journal only when the
// caller asks for it). Returns the number of bytes dropped.
func DropUnsynced(path string) int {
	regMu.Lock()
	st := stores[path]
	regMu.Unlock()
	if st == nil {
		return 0
	}
	st.mu.Lock()
	defer st.mu.Unlock()
	n := 0
	for _, f := range st.files {
		if f.synced < len(f.data) {
			n += len(f.data) - f.synced
			f.data = f.data[:f.synced]
		}
	}
	return n
}

func init() {
	simrt.RegisterKillHook(func(node int) {
		regMu.Lock()
		for h := range handles {
			if h.node == node {
				h.dead.Store(true)
			}
		}
		regMu.Unlock()
	})
}

// Reset forgets every database (called at the start of a run).
func Reset() {
	regMu.Lock()
	stores = map[string]*store{}
	handles = map[*handle]struct{}{}
	opened = nil
	regMu.Unlock()
}

// Snapshot / Restore copy a database's durable content (for twins and re-runs).
func Snapshot(path string) map[uint64][]byte {
	regMu.Lock()
	st := stores[path]
	regMu.Unlock()
	if st == nil {
		return nil
	}
	st.mu.Lock()
	defer st.mu.Unlock()
	out := map[uint64][]byte{}
	for k, f := range st.files {
		out[k] = append([]byte(nil), f.data...)
	}
	if st.hasMeta {
		out[^uint64(0)] = []byte{byte(st.meta.Type), byte(st.meta.Num), byte(st.meta.Num >> 8), byte(st.meta.Num >> 16), byte(st.meta.Num >> 24)}
	}
	return out
}

func Restore(path string, snap map[uint64][]byte) {
	st := &store{path: path, files: map[uint64]*mfile{}}
	for k, b := range snap {
		if k == ^uint64(0) {
			st.meta = storage.FileDesc{Type: storage.FileType(b[0]), Num: int64(b[1]) | int64(b[2])<<8 | int64(b[3])<<16 | int64(b[4])<<24}
			st.hasMeta = true
			continue
		}
		st.files[k] = &mfile{data: append([]byte(nil), b...), synced: len(b)}
	}
	regMu.Lock()
	stores[path] = st
	regMu.Unlock()
}

// Paths lists known database paths.
func Paths() []string {
	regMu.Lock()
	defer regMu.Unlock()
	var out []string
	for p := range stores {
		out = append(out, p)
	}
	sort.Strings(out)
	return out
}

type handle struct {
	st   *store
	node int
	dead simrtBool
}

type simrtBool struct {
	mu sync.Mutex
	v  bool
}

func (b *simrtBool) Load() bool   { b.mu.Lock(); defer b.mu.Unlock(); return b.v }
func (b *simrtBool) Store(v bool) { b.mu.Lock(); b.v = v; b.mu.Unlock() }

func pack(fd storage.FileDesc) uint64 { return uint64(fd.Num)<<8 | uint64(fd.Type) }
func unpack(x uint64) storage.FileDesc {
	return storage.FileDesc{Type: storage.FileType(x & 0xff), Num: int64(x >> 8)}
}

type nopLocker struct{}

func (nopLocker) Unlock() {}

func (h *handle) Lock() (storage.Locker, error) { return nopLocker{}, nil }
func (h *handle) Log(string)                    {}

// event reports a mutation; it returns (proceed, tornLen, err).
func (h *handle) event(kind string, n int) (bool, int, error) {
	if h.dead.Load() {
		return false, 0, errDead
	}
	act, s := simrt.IOManaged(kind, h.st.path, 0, n)
	if s == nil {
		return true, -1, nil
	}
	if act.Err != nil {
		return false, 0, act.Err
	}
	if act.CrashBefore {
		simrt.KillCurrentNode()
		return false, act.Torn, errDead
	}
	if act.CrashAfter {
		return true, -2, nil
	}
	return true, -1, nil
}

func (h *handle) after(code int) {
	if code == -2 {
		simrt.KillCurrentNode()
	}
}

func (h *handle) SetMeta(fd storage.FileDesc) error {
	ok, code, err := h.event("ldb.meta", 0)
	if !ok {
		return err
	}
	h.st.mu.Lock()
	h.st.meta = fd
	h.st.hasMeta = true
	h.st.mu.Unlock()
	h.after(code)
	return nil
}

func (h *handle) GetMeta() (storage.FileDesc, error) {
	h.st.mu.Lock()
	defer h.st.mu.Unlock()
	if !h.st.hasMeta {
		return storage.FileDesc{}, os.ErrNotExist
	}
	return h.st.meta, nil
}

func (h *handle) List(ft storage.FileType) ([]storage.FileDesc, error) {
	h.st.mu.Lock()
	defer h.st.mu.Unlock()
	var keys []uint64
	for x := range h.st.files {
		keys = append(keys, x)
	}
	sort.Slice(keys, func(i, j int) bool { return keys[i] < keys[j] })
	var fds []storage.FileDesc
	for _, x := range keys {
		fd := unpack(x)
		if fd.Type&ft != 0 {
			fds = append(fds, fd)
		}
	}
	return fds, nil
}

type reader struct {
	*bytes.Reader
}

func (reader) Close() error { return nil }

func (h *handle) Open(fd storage.FileDesc) (storage.Reader, error) {
	if !storage.FileDescOk(fd) {
		return nil, storage.ErrInvalidFile
	}
	h.st.mu.Lock()
	defer h.st.mu.Unlock()
	if m, ok := h.st.files[pack(fd)]; ok {
		return reader{bytes.NewReader(append([]byte(nil), m.data...))}, nil
	}
	return nil, os.ErrNotExist
}

type writer struct {
	h  *handle
	m  *mfile
	fd storage.FileDesc
}

func (w *writer) Write(p []byte) (int, error) {
	ok, code, err := w.h.event("ldb.write", len(p))
	if !ok {
		if code > 0 && code < len(p) {
			w.h.st.mu.Lock()
			w.m.data = append(w.m.data, p[:code]...)
			w.h.st.mu.Unlock()
		}
		return 0, err
	}
	w.h.st.mu.Lock()
	w.m.data = append(w.m.data, p...)
	w.h.st.mu.Unlock()
	w.h.after(code)
	return len(p), nil
}
func (w *writer) Sync() error {
	w.h.st.mu.Lock()
	w.m.synced = len(w.m.data)
	w.h.st.mu.Unlock()
	return nil
}
func (w *writer) Close() error { return nil }

var _ io.Writer = (*writer)(nil)

func (h *handle) Create(fd storage.FileDesc) (storage.Writer, error) {
	if !storage.FileDescOk(fd) {
		return nil, storage.ErrInvalidFile
	}
	ok, code, err := h.event("ldb.create", 0)
	if !ok {
		return nil, err
	}
	h.st.mu.Lock()
	m := &mfile{}
	h.st.files[pack(fd)] = m
	h.st.mu.Unlock()
	h.after(code)
	return &writer{h: h, m: m, fd: fd}, nil
}

func (h *handle) Remove(fd storage.FileDesc) error {
	if !storage.FileDescOk(fd) {
		return storage.ErrInvalidFile
	}
	// Not an I/O event: goleveldb deletes an obsolete table when the last reference to the old version is
	// released, and whether that happens in the caller's goroutine (a managed task: would be logged and
	// numbered) or in goleveldb's own compaction goroutine (unmanaged: never logged) depends on real
	// scheduling. Counting it made event numbers and digests differ between identical runs. Deleting an
	// obsolete file is no meaningful crash point (leftovers are swept at the next open).
	if h.dead.Load() {
		return errDead
	}
	h.st.mu.Lock()
	_, exist := h.st.files[pack(fd)]
	delete(h.st.files, pack(fd))
	h.st.mu.Unlock()
	if !exist {
		return os.ErrNotExist
	}
	return nil
}

func (h *handle) Rename(oldfd, newfd storage.FileDesc) error {
	if !storage.FileDescOk(oldfd) || !storage.FileDescOk(newfd) {
		return storage.ErrInvalidFile
	}
	if oldfd == newfd {
		return nil
	}
	ok, code, err := h.event("ldb.rename", 0)
	if !ok {
		return err
	}
	h.st.mu.Lock()
	m, exist := h.st.files[pack(oldfd)]
	if exist {
		delete(h.st.files, pack(oldfd))
		h.st.files[pack(newfd)] = m
	}
	h.st.mu.Unlock()
	h.after(code)
	if !exist {
		return os.ErrNotExist
	}
	return nil
}

func (h *handle) Close() error {
	regMu.Lock()
	delete(handles, h)
	regMu.Unlock()
	return nil
}

func open(path string) *handle {
	regMu.Lock()
	st := stores[path]
	if st == nil {
		st = &store{path: path, files: map[uint64]*mfile{}}
		stores[path] = st
	}
	h := &handle{st: st, node: simrt.CurrentNode()}
	handles[h] = struct{}{}
	regMu.Unlock()
	return h
}

// OpenFile replaces leveldb.OpenFile in instrumented code.
func OpenFile(path string, o *opt.Options) (*leveldb.DB, error) {
	h := open(path)
	db, err := leveldb.Open(h, o)
	if err != nil {
		h.Close()
		return nil, err
	}
	register(db, h.node)
	return db, nil
}

// RecoverFile replaces leveldb.RecoverFile.
func RecoverFile(path string, o *opt.Options) (*leveldb.DB, error) {
	h := open(path)
	db, err := leveldb.Recover(h, o)
	if err != nil {
		h.Close()
		return nil, err
	}
	register(db, h.node)
	return db, nil
}
