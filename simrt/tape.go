// Package simrt is the simulated runtime: choice tape, token scheduler, durable
// locks, deterministic map/select order, node-local globals and I/O fault hooks.
// It must not import any lemochain-core package (instrumented repo code imports it).
package simrt

import (
	"encoding/json"
	"hash/fnv"
	"sort"
)

// Tape is the single source of every nondeterministic choice of one run.
// It is organised as independent labelled streams so that deleting or zeroing
// choices of one kind (e.g. scheduling) does not shift the choices of another
// kind (e.g. generated operations) while shrinking.
//
// Generation mode: stream values come from a splitmix64 stream seeded by
// (seed, label) and are recorded. Replay mode: values are read back; an exhausted
// stream or an out-of-range value yields 0, which every caller treats as
// "default: no fault / continue / first option".
type Tape struct {
	Seed    uint64
	replay  bool
	streams map[string]*stream
	Draws   int
	// generation mode only: streams created after Reseed draw from altSeed unless kept
	altSeed uint64
	altOn   bool
	altKeep map[string]bool
}

type stream struct {
	vals   []int
	pos    int
	rng    uint64
	preset []int
}

func NewTape(seed uint64) *Tape {
	return &Tape{Seed: seed, streams: make(map[string]*stream)}
}

// ReplayTape builds a tape that replays the given streams.
func ReplayTape(seed uint64, streams map[string][]int) *Tape {
	t := &Tape{Seed: seed, replay: true, streams: make(map[string]*stream)}
	for k, v := range streams {
		c := make([]int, len(v))
		copy(c, v)
		t.streams[k] = &stream{vals: c}
	}
	return t
}

//go:norace
func splitmix(x *uint64) uint64 {
	*x += 0x9e3779b97f4a7c15
	z := *x
	z = (z ^ (z >> 30)) * 0xbf58476d1ce4e5b9
	z = (z ^ (z >> 27)) * 0x94d049bb133111eb
	return z ^ (z >> 31)
}

// Mix derives a new seed from a seed and a string/index (used for per-run seeds).
func Mix(seed uint64, s string, i uint64) uint64 {
	h := fnv.New64a()
	h.Write([]byte(s))
	x := seed ^ h.Sum64() ^ (i * 0x9e3779b97f4a7c15)
	splitmix(&x)
	return splitmix(&x)
}

//go:norace
func (t *Tape) stream(label string) *stream {
	s := t.streams[label]
	if s == nil {
		seed := t.Seed
		if t.altOn && !t.altKeep[label] {
			seed = t.altSeed
		}
		s = &stream{rng: Mix(seed, label, 0)}
		t.streams[label] = s
	}
	return s
}

// Replaying reports whether the tape replays recorded streams.
func (t *Tape) Replaying() bool { return t.replay }

// Reseed makes every stream that has not been used yet - except the labels in keep -
// draw from (seed,label) instead of (t.Seed,label). Generation mode only (a replayed
// tape already holds the values). It lets many runs share one generated workload while
// run-specific choices (the kept labels) still differ per run; all values are recorded
// on the tape as usual, so replay files stay self-contained and shrinkable.
func (t *Tape) Reseed(seed uint64, keep ...string) {
	if t.replay {
		return
	}
	t.altOn, t.altSeed = true, seed
	t.altKeep = map[string]bool{}
	for _, k := range keep {
		t.altKeep[k] = true
	}
}

// Preset queues values that the next draws of label will return (generation mode only;
// they are recorded like drawn values). Used for enumeration plans derived from the run index.
func (t *Tape) Preset(label string, vals ...int) {
	if t.replay {
		return
	}
	s := t.stream(label)
	s.preset = append(s.preset, vals...)
}

// Draw returns a value in [0,n). n<=1 returns 0 without consuming anything.
//go:norace
func (t *Tape) Draw(label string, n int) int {
	if n <= 1 {
		return 0
	}
	t.Draws++
	s := t.stream(label)
	if t.replay {
		if s.pos >= len(s.vals) {
			s.pos++
			return 0
		}
		v := s.vals[s.pos]
		s.pos++
		if v < 0 || v >= n {
			return 0
		}
		return v
	}
	var v int
	if len(s.preset) > 0 {
		v = s.preset[0]
		s.preset = s.preset[1:]
		if v < 0 || v >= n {
			v = 0
		}
	} else {
		v = int(splitmix(&s.rng) % uint64(n))
	}
	s.vals = append(s.vals, v)
	s.pos++
	return v
}

// Chance returns true with probability num/den (recorded as 0/1; default false).
//go:norace
func (t *Tape) Chance(label string, num, den int) bool {
	if num <= 0 {
		return false
	}
	t.Draws++
	s := t.stream(label)
	if t.replay {
		if s.pos >= len(s.vals) {
			s.pos++
			return false
		}
		v := s.vals[s.pos]
		s.pos++
		return v != 0
	}
	v := 0
	if int(splitmix(&s.rng)%uint64(den)) < num {
		v = 1
	}
	s.vals = append(s.vals, v)
	s.pos++
	return v != 0
}

// Bytes fills b from the stream "bytes:"+label.
//go:norace
func (t *Tape) Bytes(label string, b []byte) {
	for i := range b {
		b[i] = byte(t.Draw("b:"+label, 256))
	}
}

// Streams returns a copy of all recorded/replayed streams (for replay files).
func (t *Tape) Streams() map[string][]int {
	out := make(map[string][]int, len(t.streams))
	for k, s := range t.streams {
		n := len(s.vals)
		if t.replay && s.pos < n {
			n = s.pos // values never consumed are dropped
		}
		c := make([]int, n)
		copy(c, s.vals[:n])
		// trim trailing zeros: exhausted streams yield 0 anyway
		for len(c) > 0 && c[len(c)-1] == 0 {
			c = c[:len(c)-1]
		}
		if len(c) > 0 {
			out[k] = c
		}
	}
	return out
}

// Labels returns the stream labels sorted.
func (t *Tape) Labels() []string {
	ls := make([]string, 0, len(t.streams))
	for k := range t.streams {
		ls = append(ls, k)
	}
	sort.Strings(ls)
	return ls
}

func (t *Tape) MarshalJSON() ([]byte, error) {
	return json.Marshal(struct {
		Seed    uint64           `json:"seed"`
		Streams map[string][]int `json:"streams"`
	}{t.Seed, t.Streams()})
}
