package simrt

import (
	"sync/atomic"
	"time"
)

// Unique firing instants (rewrite T9).
//
// When two timers that feed the same select are due at the same fake instant, the Go
// runtime decides which fires first by the order in which selectgo registered them, which
// is the order of their channel addresses - different in every process. (Example:
// ProtocolManager.peerLoop creates forceSyncTimer and discoverTimer with the same 10 s
// period in two consecutive statements.) The scheduler cannot take that decision back, so
// instrumented code creates and resets its timers through these wrappers, which add a
// per-run sequence number of nanoseconds: no two timers of a run are due at the same
// instant and the firing order is the creation order, which the token scheduler decides.
// The distortion is below 10 microseconds per timer.

var timerSeq atomic.Int64

func uniq(d time.Duration) time.Duration {
	if cur.Load() == nil {
		return d
	}
	n := timerSeq.Add(1)
	return d + time.Duration(1+n%9973)*time.Nanosecond
}

// ResetTimerSeq restarts the sequence (called at the start of every run).
func ResetTimerSeq() { timerSeq.Store(0) }

func NewTimer(d time.Duration) *time.Timer   { return time.NewTimer(uniq(d)) }
func NewTicker(d time.Duration) *time.Ticker { return time.NewTicker(uniq(d)) }
func After(d time.Duration) <-chan time.Time { return time.After(uniq(d)) }

func ResetTimer(t *time.Timer, d time.Duration) bool { return t.Reset(uniq(d)) }
func ResetTicker(t *time.Ticker, d time.Duration)    { t.Reset(uniq(d)) }
