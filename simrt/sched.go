package simrt

import (
	"fmt"
	"math"
	"runtime"
	"runtime/debug"
	"sort"
	"sync"
	"sync/atomic"
	"testing"
	"testing/synctest"
	"time"
)

// Policy selects how the token scheduler preempts.
type Policy int

const (
	// PolicyCoarse never preempts at yields: a task runs until it blocks or ends.
	PolicyCoarse Policy = iota
	// PolicyRandom preempts after tape-drawn gaps (mean MeanGap yields).
	PolicyRandom
	// PolicyPCT gives tasks tape-drawn priorities and lowers the running task's
	// priority at D tape-chosen step numbers.
	PolicyPCT
)

func (p Policy) String() string {
	switch p {
	case PolicyCoarse:
		return "coarse"
	case PolicyRandom:
		return "random"
	case PolicyPCT:
		return "pct"
	}
	return "?"
}

type Config struct {
	Policy   Policy
	MeanGap  int   // PolicyRandom: mean number of yields between preemptions
	PCTDepth int   // PolicyPCT: number of priority change points
	PCTSpan  int64 // PolicyPCT: change points are drawn in [1,PCTSpan]
	MaxSteps int64 // abort the run (harness error) beyond this many yields; 0 = 50M
	Valve    int64 // force a switch after this many yields without one; 0 = 20000
	Trace    int   // keep the last Trace log entries for reports
	// SpinSleep > 0: a task stopped by the valve (it ran Valve yields without blocking, i.e. it
	// busy-waits, like subscribe.send polling a full channel) is put to sleep on the fake clock
	// (SpinSleep, doubling per consecutive hit up to 128x) before it is made ready again; only
	// after spinAfter consecutive valve periods without ever blocking, so computations are left alone.
	// Without it simulated time cannot advance while a task spins waiting for a timer-driven
	// peer. 0 keeps the plain behaviour (preempt only).
	SpinSleep time.Duration
}

const (
	stNative int32 = iota // running or blocked outside the scheduler's knowledge
	stReady               // parked at a yield, waiting for the token
	stDone
)

// Task is one scheduled goroutine.
type Task struct {
	ID    int
	Name  string
	Node  int
	epoch int
	g     uintptr
	wake  chan struct{}
	state atomic.Int32
	site  int
	low   bool // the world task: runs only when nothing else is ready
	prio  int
	spins int // consecutive valve hits (Config.SpinSleep)
	sim   *Sim

	Finished   bool
	Panic      interface{}
	PanicStack string

	lockWait atomic.Int32 // 1 while the task waits for a simulated Mutex / RWMutex
}

// lockWaitBegin marks the calling task (the token holder) as waiting for a simulated lock.
//go:norace
func lockWaitBegin() *Task {
	s := cur.Load()
	if s == nil {
		return nil
	}
	t := s.current.Load()
	if t != nil && t.g == getg() {
		t.lockWait.Store(1)
		return t
	}
	return nil
}

//go:norace
func lockWaitEnd(t *Task) {
	if t != nil {
		t.lockWait.Store(0)
	}
}

// LockWaiters lists the tasks that are waiting for a simulated lock right now. Called by the world at
// quiescence (after Settle / Sleep), long after every deadline of the scenario: a task that still waits then
// waits for a lock whose holder will never release it (self-deadlock, lock-order deadlock, holder gone).
func (w *World) LockWaiters() []string {
	s := w.S
	s.mu.Lock()
	defer s.mu.Unlock()
	var out []string
	for _, t := range s.tasks {
		if t.lockWait.Load() == 1 && !t.Finished && !t.dead() {
			out = append(out, fmt.Sprintf("%s#%d@node%d", t.Name, t.ID, t.Node))
		}
	}
	return out
}

// PanicInfo records a panic raised inside a task.
type PanicInfo struct {
	Task  string
	Node  int
	Value string
	Stack string
}

type logEntry struct {
	Kind string
	A, B int64
	S    string
}

// Sim is one simulated execution (one synctest bubble).
type Sim struct {
	Tape *Tape
	cfg  Config

	mu      sync.Mutex
	tasks   []*Task
	byG     map[uintptr]*Task
	current atomic.Pointer[Task]
	kick    chan struct{}
	stopped atomic.Bool
	schedDn chan struct{}

	nodeEpoch [64]atomic.Int64

	Steps       int64
	Switches    int64
	lastSwitch  int64
	nextPreempt int64
	pctPoints   []int64
	pctLow      int
	Adopted     int
	valveHit    bool
	timerSeq    int64
	Panics      []PanicInfo
	Overrun     bool
	// OverrunStack is the stack of the task that was running when the step budget ran out.
	OverrunStack string

	digest  uint64
	logN    int64
	ring    []logEntry
	ringPos int

	// IOHook is consulted by simos/simldb on every mutating I/O event.
	IOHook func(ev *IOEvent) IOAction
	ioSeq  int64

	syncTasks int32 // race annotations only: tasks release here, the world acquires
	syncWorld int32 // the world releases here, resuming tasks acquire
	nodeLocal sync.Map // key nlKey -> interface{}
	world     *World
	start     time.Time
}

var cur atomic.Pointer[Sim]

// Active reports whether a simulation is running (false = pass-through mode).
func Active() bool { return cur.Load() != nil }

// Current returns the running simulation or nil.
func Current() *Sim { return cur.Load() }

//go:norace
func (s *Sim) logf(kind string, a, b int64, str string) {
	// FNV-1a over the entry; never draws, never reads a clock.
	h := s.digest
	if h == 0 {
		h = 14695981039346656037
	}
	mixb := func(x byte) { h ^= uint64(x); h *= 1099511628211 }
	for i := 0; i < len(kind); i++ {
		mixb(kind[i])
	}
	for i := 0; i < 8; i++ {
		mixb(byte(a >> (8 * i)))
	}
	for i := 0; i < 8; i++ {
		mixb(byte(b >> (8 * i)))
	}
	for i := 0; i < len(str); i++ {
		mixb(str[i])
	}
	s.digest = h
	s.logN++
	if s.cfg.Trace > 0 {
		e := logEntry{kind, a, b, str}
		if len(s.ring) < s.cfg.Trace {
			s.ring = append(s.ring, e)
		} else {
			s.ring[s.ringPos%s.cfg.Trace] = e
		}
		s.ringPos++
	}
}

// Log appends an entry to the run's event log (hashed into the digest). It must be
// called by the token holder or the world only.
//go:norace
func Log(kind string, a, b int64, str string) {
	if s := cur.Load(); s != nil {
		raceOff()
		s.logf(kind, a, b, str)
		raceOn()
	}
}

// RaceOff / RaceOn let the simulated disk and the harness hide their own bookkeeping
// locks from the race detector (no-ops outside the -race build).
func RaceOff() { raceOff() }
func RaceOn()  { raceOn() }

// Digest returns the event-log digest so far.
func (s *Sim) Digest() uint64 { return s.digest }

// TraceTail returns the retained tail of the event log, oldest first.
func (s *Sim) TraceTail() []string {
	n := len(s.ring)
	out := make([]string, 0, n)
	for i := 0; i < n; i++ {
		idx := i
		if s.ringPos > n {
			idx = (s.ringPos + i) % n
		}
		e := s.ring[idx]
		out = append(out, fmt.Sprintf("%s %d %d %s", e.Kind, e.A, e.B, e.S))
	}
	return out
}

//go:norace
func (s *Sim) newTask(name string, node int, low bool) *Task {
	s.mu.Lock()
	t := &Task{ID: len(s.tasks), Name: name, Node: node, wake: make(chan struct{}, 1), low: low, sim: s}
	t.epoch = int(s.nodeEpoch[node&63].Load())
	s.tasks = append(s.tasks, t)
	s.mu.Unlock()
	if s.cfg.Policy == PolicyPCT {
		t.prio = 1 + s.Tape.Draw("prio", 1<<12)
	}
	return t
}

//go:norace
func (s *Sim) bind(t *Task) {
	g := getg()
	t.g = g
	s.mu.Lock()
	s.byG[g] = t
	s.mu.Unlock()
}

//go:norace
func (s *Sim) unbind(t *Task) {
	s.mu.Lock()
	if s.byG[t.g] == t {
		delete(s.byG, t.g)
	}
	s.mu.Unlock()
}

// self returns the task of the calling goroutine (nil if unmanaged).
//go:norace
func (s *Sim) self() *Task {
	g := getg()
	if t := s.current.Load(); t != nil && t.g == g {
		return t
	}
	s.mu.Lock()
	t := s.byG[g]
	s.mu.Unlock()
	return t
}

//go:norace
func (t *Task) dead() bool {
	return int64(t.epoch) != t.sim.nodeEpoch[t.Node&63].Load()
}

// park registers the calling task as ready and blocks until it is given the token.
//go:norace
func (s *Sim) park(t *Task) {
	// callers hold exactly one raceOff()
	if t.low {
		raceRelease(&s.syncWorld)
	} else {
		raceRelease(&s.syncTasks)
	}
	if s.current.Load() == t {
		s.current.Store(nil)
	}
	t.state.Store(stReady)
	select {
	case s.kick <- struct{}{}:
	default:
	}
	<-t.wake
	if t.low {
		raceAcquire(&s.syncTasks)
	} else {
		raceAcquire(&s.syncWorld)
	}
	if t.dead() && !t.low {
		runtime.Goexit()
	}
}

// Yield is a scheduling point. Instrumented code calls it before every statement.
//go:norace
func Yield(site int) {
	s := cur.Load()
	if s == nil {
		return
	}
	raceOff()
	defer raceOn()
	g := getg()
	t := s.current.Load()
	if t != nil && t.g == g {
		if t.dead() && !t.low {
			s.current.Store(nil)
			runtime.Goexit()
		}
		s.Steps++
		if !s.wantPreempt(t) {
			return
		}
		s.logf("pre", int64(t.ID), int64(site), "")
		if s.valveHit && s.cfg.SpinSleep > 0 && !t.low {
			s.valveHit = false
			// t.spins = consecutive valve hits without the task ever blocking in between (reset by
			// the scheduler when it sees the token holder blocked natively). A computation, however
			// long, is left alone for spinAfter valve periods; beyond that the task is busy-waiting.
			t.spins++
			if t.spins > spinAfter {
				k := t.spins - spinAfter - 1
				if k > 7 {
					k = 7
				}
				d := s.cfg.SpinSleep << uint(k)
				s.logf("spin", int64(t.ID), int64(d), "")
				s.current.Store(nil)
				select {
				case s.kick <- struct{}{}:
				default:
				}
				time.Sleep(d) // from here on this goroutine does not hold the token: touch nothing shared
				s.park(t)
				return
			}
		}
		s.valveHit = false
		s.park(t)
		return
	}
	// Not the token holder: a task woken by a native channel/timer operation,
	// or an unmanaged goroutine entering instrumented code.
	s.mu.Lock()
	t = s.byG[g]
	s.mu.Unlock()
	if t == nil {
		if s.stopped.Load() {
			return
		}
		t = s.newTask("adopted", 0, false)
		s.bind(t)
		s.Adopted++
	}
	if t.state.Load() == stDone {
		return
	}
	s.park(t)
}

//go:norace
func (s *Sim) wantPreempt(t *Task) bool {
	if s.Steps > s.maxSteps() {
		if !s.Overrun {
			s.OverrunStack = string(debug.Stack())
		}
		s.Overrun = true
		panic(overrun{})
	}
	valve := s.cfg.Valve
	if valve == 0 {
		valve = 20000
	}
	if s.Steps-s.lastSwitch > valve {
		s.valveHit = true
		return true
	}
	switch s.cfg.Policy {
	case PolicyRandom:
		if s.Steps >= s.nextPreempt {
			s.drawGap()
			return true
		}
	case PolicyPCT:
		if len(s.pctPoints) > 0 && s.Steps >= s.pctPoints[0] {
			s.pctPoints = s.pctPoints[1:]
			s.pctLow--
			t.prio = s.pctLow
			return true
		}
	}
	return false
}

// spinAfter: valve periods a task may compute without blocking before Config.SpinSleep applies.
const spinAfter = 8

type overrun struct{}

//go:norace
// GrantSteps raises the step budget by n from now on. After an overrun (the flag stays set
// and the run is judged by it) a scenario uses it to shut its nodes down in an orderly way,
// so that their goroutines do not stay blocked - and their memory pinned - for the rest of
// the worker process.
func (s *Sim) GrantSteps(n int64) { s.cfg.MaxSteps = s.Steps + n }

func (s *Sim) maxSteps() int64 {
	if s.cfg.MaxSteps > 0 {
		return s.cfg.MaxSteps
	}
	return 50_000_000
}

//go:norace
func (s *Sim) drawGap() {
	mean := s.cfg.MeanGap
	if mean <= 0 {
		mean = 64
	}
	g := s.Tape.Draw("gap", 2*mean)
	if g == 0 {
		s.nextPreempt = math.MaxInt64
	} else {
		s.nextPreempt = s.Steps + int64(g)
	}
}

// Go starts f as a new task of the calling task's node (instrumented `go` statements).
//go:norace
func Go(site int, f func()) {
	s := cur.Load()
	if s == nil {
		go f()
		return
	}
	raceOff()
	node := 0
	name := "go"
	if p := s.self(); p != nil {
		node = p.Node
		if p.dead() && !p.low {
			raceOn()
			return
		}
	}
	t := s.newTask(name, node, false)
	t.site = site
	s.logf("go", int64(t.ID), int64(site), "")
	raceOn()
	// the go statement itself must be visible to the race detector: it is the
	// happens-before edge from the creator to the new goroutine
	go s.runTask(t, f)
}

func (s *Sim) runTask(t *Task, f func()) {
	raceOff()
	s.bind(t)
	defer s.endTask(t)
	s.park(t)
	raceOn()
	f()
	t.Finished = true // endTask takes its own raceOff
}

//go:norace
func (s *Sim) endTask(t *Task) {
	if r := recover(); r != nil {
		if _, ok := r.(overrun); !ok {
			t.Panic = r
			t.PanicStack = string(debug.Stack())
			s.mu.Lock()
			s.Panics = append(s.Panics, PanicInfo{Task: t.Name, Node: t.Node, Value: fmt.Sprint(r), Stack: t.PanicStack})
			s.mu.Unlock()
		}
	}
	raceOff()
	raceRelease(&s.syncTasks)
	s.unbind(t)
	t.state.Store(stDone)
	if s.current.Load() == t {
		s.current.Store(nil)
	}
	select {
	case s.kick <- struct{}{}:
	default:
	}
}

// AfterFunc replaces time.AfterFunc in instrumented code: the callback runs as a task
// of the node that armed the timer.
func AfterFunc(d time.Duration, f func()) *time.Timer {
	s := cur.Load()
	if s == nil {
		return time.AfterFunc(d, f)
	}
	node := 0
	if p := s.self(); p != nil {
		node = p.Node
	}
	epoch := s.nodeEpoch[node&63].Load()
	// The task identity is assigned now, by the arming task: timers of several nodes that
	// fire at the same simulated instant start their goroutines concurrently, and ids taken
	// at that moment would depend on the real-time race between them.
	t := s.newTask("afterfunc", node, false)
	return time.AfterFunc(uniq(d), func() {
		s2 := cur.Load()
		if s2 != s || s.stopped.Load() {
			return
		}
		if s.nodeEpoch[node&63].Load() != epoch {
			t.state.Store(stDone)
			return
		}
		s.runTask(t, f)
	})
}

// loop is the scheduler goroutine.
//go:norace
func (s *Sim) loop() {
	raceOff()
	defer close(s.schedDn)
	var ready []*Task
	for {
		synctest.Wait()
		if s.stopped.Load() {
			return
		}
		if c := s.current.Load(); c != nil && c.state.Load() == stNative {
			// the token holder blocked natively (or is the world sleeping): release the token
			c.spins = 0
			s.current.Store(nil)
		}
		ready = ready[:0]
		s.mu.Lock()
		for _, t := range s.tasks {
			if t.state.Load() == stReady {
				ready = append(ready, t)
			}
		}
		s.mu.Unlock()
		if len(ready) == 0 {
			<-s.kick
			continue
		}
		pick := s.choose(ready)
		s.Switches++
		s.lastSwitch = s.Steps
		s.logf("run", int64(pick.ID), s.Steps, "")
		pick.state.Store(stNative)
		s.current.Store(pick)
		select {
		case <-s.kick:
		default:
		}
		pick.wake <- struct{}{}
	}
}

//go:norace
func (s *Sim) choose(ready []*Task) *Task {
	// killed tasks are flushed first, deterministically
	for _, t := range ready {
		if t.dead() && !t.low {
			return t
		}
	}
	cands := ready[:0:0]
	for _, t := range ready {
		if !t.low {
			cands = append(cands, t)
		}
	}
	if len(cands) == 0 {
		return ready[0] // the world
	}
	if len(cands) == 1 {
		return cands[0]
	}
	if s.cfg.Policy == PolicyPCT {
		sort.SliceStable(cands, func(i, j int) bool { return cands[i].prio > cands[j].prio })
		return cands[0]
	}
	return cands[s.Tape.Draw("sched", len(cands))]
}

// Kill marks every task of node as dead: parked ones exit when next scheduled,
// running ones at their next yield or simulated I/O call.
//go:norace
func (s *Sim) Kill(node int) {
	s.nodeEpoch[node&63].Add(1)
	s.logf("kill", int64(node), 0, "")
	for _, f := range killHooks {
		f(node)
	}
}

// Revive is a no-op marker: new tasks of a killed node are created in its new epoch
// automatically; it only logs the restart boundary.
func (s *Sim) Revive(node int) { s.logf("revive", int64(node), 0, "") }

// NodeAlive reports whether the calling goroutine's task belongs to a live epoch.
//go:norace
func TaskDead() bool {
	s := cur.Load()
	if s == nil {
		return false
	}
	raceOff()
	defer raceOn()
	t := s.self()
	return t != nil && !t.low && t.dead()
}

// CurrentNode returns the node tag of the calling goroutine (0 outside a simulation).
//go:norace
func CurrentNode() int {
	s := cur.Load()
	if s == nil {
		return 0
	}
	raceOff()
	defer raceOn()
	if t := s.self(); t != nil {
		return t.Node
	}
	return 0
}

// RunResult is what one bubble execution reports.
type RunResult struct {
	Digest    uint64
	LogN      int64
	Steps     int64
	Switches  int64
	Tasks     int
	Adopted   int
	SimTime   time.Duration
	Panics    []PanicInfo
	Overrun   bool
	Leaked    bool   // goroutines remained blocked at the end of the bubble
	Deadlock  bool   // synctest reported "all goroutines in bubble are blocked"
	HarnessEr string // panic in the world itself
	Trace     []string
}

// World is the handle the scenario (root function) uses. The root function runs as
// task 0 with the lowest priority: it holds the token only when no other task is ready.
type World struct {
	S    *Sim
	task *Task
}

// Run executes root inside a fresh synctest bubble under the token scheduler.
func Run(t *testing.T, tape *Tape, cfg Config, root func(w *World)) (res RunResult) {
	s := &Sim{Tape: tape, cfg: cfg, byG: make(map[uintptr]*Task)}
	ResetTimerSeq()
	defer func() {
		if r := recover(); r != nil {
			msg := fmt.Sprint(r)
			switch {
			case msg == "deadlock: main bubble goroutine has exited but blocked goroutines remain":
				res.Leaked = true
			case msg == "deadlock: all goroutines in bubble are blocked":
				res.Deadlock = true
			default:
				res.HarnessEr = msg + "\n" + string(debug.Stack())
			}
		}
		cur.Store(nil)
		res.Digest = s.digest
		res.LogN = s.logN
		res.Steps = s.Steps
		res.Switches = s.Switches
		res.Tasks = len(s.tasks)
		res.Adopted = s.Adopted
		res.Panics = s.Panics
		res.Overrun = s.Overrun
		res.Trace = s.TraceTail()
	}()
	bubbleDone := make(chan struct{})
	var bubblePanic interface{}
	go func() {
		defer close(bubbleDone)
		defer func() { bubblePanic = recover() }()
		s.bubble(t, tape, cfg, root, &res)
	}()
	<-bubbleDone
	if bubblePanic != nil {
		panic(bubblePanic)
	}
	return res
}

func (s *Sim) bubble(t *testing.T, tape *Tape, cfg Config, root func(w *World), resp *RunResult) {
	synctest.Test(t, func(*testing.T) {
		res := resp
		// channels must be created inside the bubble to block durably
		s.kick = make(chan struct{}, 1)
		s.schedDn = make(chan struct{})
		s.start = time.Now()
		w := &World{S: s}
		s.world = w
		w.task = s.newTask("world", 0, true)
		s.bind(w.task)
		w.task.state.Store(stNative)
		s.current.Store(w.task)
		if cfg.Policy == PolicyRandom {
			s.drawGap()
		}
		if cfg.Policy == PolicyPCT {
			span := cfg.PCTSpan
			if span <= 0 {
				span = 20000
			}
			for i := 0; i < cfg.PCTDepth; i++ {
				s.pctPoints = append(s.pctPoints, 1+int64(tape.Draw("pctcp", int(span))))
			}
			sort.Slice(s.pctPoints, func(i, j int) bool { return s.pctPoints[i] < s.pctPoints[j] })
		}
		cur.Store(s)
		go s.loop()
		func() {
			defer func() {
				if r := recover(); r != nil {
					if _, ok := r.(overrun); ok {
						return
					}
					res.HarnessEr = fmt.Sprint(r) + "\n" + string(debug.Stack())
				}
			}()
			root(w)
		}()
		res.SimTime = time.Since(s.start)
		// teardown: kill every node, let parked tasks exit, stop the scheduler
		for i := range s.nodeEpoch {
			s.nodeEpoch[i].Add(1)
		}
		func() {
			defer func() { recover() }()
			w.Settle()
		}()
		s.stopped.Store(true)
		cur.Store(nil)
		select {
		case s.kick <- struct{}{}:
		default:
		}
		s.unbind(w.task)
		w.task.state.Store(stDone)
		s.current.Store(nil)
		<-s.schedDn
	})
}

// Settle parks the world until no other task is ready at the current instant
// (all other tasks are blocked or finished). Simulated time does not advance.
//go:norace
func (w *World) Settle() {
	raceOff()
	w.S.park(w.task)
	raceOn()
}

// Sleep advances simulated time by d while the other tasks run, then settles.
//go:norace
func (w *World) Sleep(d time.Duration) {
	raceOff()
	defer raceOn()
	s := w.S
	if s.current.Load() == w.task {
		s.current.Store(nil)
	}
	select {
	case s.kick <- struct{}{}:
	default:
	}
	raceRelease(&s.syncWorld)
	time.Sleep(d)
	s.park(w.task)
}

// Spawn starts f as a task of the given node. It does not run until the world yields.
//go:norace
func (w *World) Spawn(node int, name string, f func()) *Task {
	raceOff()
	s := w.S
	t := s.newTask(name, node, false)
	s.logf("spawn", int64(t.ID), int64(node), name)
	raceOn()
	go s.runTask(t, f)
	return t
}

// Do runs f as a task of node and settles. It returns the task (Finished is false if f
// is still blocked, e.g. on a timer).
func (w *World) Do(node int, name string, f func()) *Task {
	t := w.Spawn(node, name, f)
	w.Settle()
	return t
}

// Now returns the simulated time.
func (w *World) Now() time.Time { return time.Now() }

// Tape returns the run's tape.
func (w *World) Tape() *Tape { return w.S.Tape }

// Panics returns the panics recorded so far.
func (w *World) Panics() []PanicInfo {
	w.S.mu.Lock()
	defer w.S.mu.Unlock()
	out := make([]PanicInfo, len(w.S.Panics))
	copy(out, w.S.Panics)
	return out
}
