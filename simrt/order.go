package simrt

import (
	"bytes"
	"reflect"
	"sort"
)

// MapMode decides the iteration order instrumented map ranges see.
type MapMode int

const (
	MapSorted MapMode = iota
	MapReversed
	MapShuffled // sorted, then permuted by the tape (stream "map")
)

var mapModes [64]MapMode

// SetMapMode sets the map iteration policy of a node for the current process
// (reset by the harness at the start of every run).
func SetMapMode(node int, m MapMode) { mapModes[node&63] = m }

// UnsortableMaps counts ranges over maps whose keys cannot be ordered
// deterministically (pointer/interface keys); they keep Go's native order.
var UnsortableMaps int

//go:norace
func lessValue(a, b reflect.Value) int {
	switch a.Kind() {
	case reflect.Int, reflect.Int8, reflect.Int16, reflect.Int32, reflect.Int64:
		x, y := a.Int(), b.Int()
		if x < y {
			return -1
		} else if x > y {
			return 1
		}
		return 0
	case reflect.Uint, reflect.Uint8, reflect.Uint16, reflect.Uint32, reflect.Uint64, reflect.Uintptr:
		x, y := a.Uint(), b.Uint()
		if x < y {
			return -1
		} else if x > y {
			return 1
		}
		return 0
	case reflect.String:
		x, y := a.String(), b.String()
		if x < y {
			return -1
		} else if x > y {
			return 1
		}
		return 0
	case reflect.Bool:
		x, y := a.Bool(), b.Bool()
		if x == y {
			return 0
		} else if !x {
			return -1
		}
		return 1
	case reflect.Array:
		if a.Type().Elem().Kind() == reflect.Uint8 {
			n := a.Len()
			ab := make([]byte, n)
			bb := make([]byte, n)
			for i := 0; i < n; i++ {
				ab[i] = byte(a.Index(i).Uint())
				bb[i] = byte(b.Index(i).Uint())
			}
			return bytes.Compare(ab, bb)
		}
		for i := 0; i < a.Len(); i++ {
			if c := lessValue(a.Index(i), b.Index(i)); c != 0 {
				return c
			}
		}
		return 0
	case reflect.Struct:
		for i := 0; i < a.NumField(); i++ {
			if c := lessValue(a.Field(i), b.Field(i)); c != 0 {
				return c
			}
		}
		return 0
	}
	return 2 // unsortable
}

func sortable(t reflect.Type) bool {
	switch t.Kind() {
	case reflect.Int, reflect.Int8, reflect.Int16, reflect.Int32, reflect.Int64,
		reflect.Uint, reflect.Uint8, reflect.Uint16, reflect.Uint32, reflect.Uint64, reflect.Uintptr,
		reflect.String, reflect.Bool:
		return true
	case reflect.Array:
		return sortable(t.Elem())
	case reflect.Struct:
		for i := 0; i < t.NumField(); i++ {
			if !sortable(t.Field(i).Type) {
				return false
			}
		}
		return true
	}
	return false
}

// MapOrder returns the keys of map m in the order the current node's MapMode dictates.
//go:norace
func MapOrder(site int, m interface{}) []interface{} {
	raceOff()
	defer raceOn()
	v := reflect.ValueOf(m)
	if !v.IsValid() || v.Kind() != reflect.Map || v.Len() == 0 {
		return nil
	}
	keys := v.MapKeys()
	out := make([]interface{}, len(keys))
	if !sortable(v.Type().Key()) {
		UnsortableMaps++
		for i, k := range keys {
			out[i] = k.Interface()
		}
		return out
	}
	sort.Slice(keys, func(i, j int) bool { return lessValue(keys[i], keys[j]) < 0 })
	s := cur.Load()
	mode := MapSorted
	if s != nil {
		mode = mapModes[CurrentNode()&63]
	}
	switch mode {
	case MapReversed:
		for i, j := 0, len(keys)-1; i < j; i, j = i+1, j-1 {
			keys[i], keys[j] = keys[j], keys[i]
		}
	case MapShuffled:
		if t := s.holder(); t != nil && len(keys) > 1 {
			for i := len(keys) - 1; i >= 1; i-- {
				j := i - s.Tape.Draw("map", i+1)
				keys[i], keys[j] = keys[j], keys[i]
			}
		}
	}
	for i, k := range keys {
		out[i] = k.Interface()
	}
	return out
}

// SelectOrder returns the order in which an instrumented select polls its n
// communication cases (identity by default; permuted by the tape stream "sel").
//go:norace
func SelectOrder(site int, n int) []int {
	raceOff()
	defer raceOn()
	out := make([]int, n)
	for i := range out {
		out[i] = i
	}
	s := cur.Load()
	if s == nil || n <= 1 {
		return out
	}
	if s.holder() == nil {
		return out // only the token holder may draw
	}
	for i := n - 1; i >= 1; i-- {
		j := i - s.Tape.Draw("sel", i+1)
		out[i], out[j] = out[j], out[i]
	}
	return out
}
