#!/bin/bash
# Build the instrumented harness test binary from /repo's current working tree.
# usage: build.sh <outdir> [race]
set -e
export GOFLAGS=-mod=mod GOPROXY=off GOSUMDB=off GOTOOLCHAIN=local
export PATH=/opt/veriftools/go1.26.8/bin:$PATH
OUT=$1
mkdir -p "$OUT" /verif/.cache
cd /verif
if [ ! -x /verif/.cache/yieldify ] || [ /verif/tools/yieldify/main.go -nt /verif/.cache/yieldify ]; then
  go build -o /verif/.cache/yieldify ./tools/yieldify
fi
rm -rf "$OUT/src"; mkdir -p "$OUT/src"
/verif/.cache/yieldify -repo /repo -config /verif/yieldify.json -out "$OUT/src" -hooks /verif/hooks >"$OUT/yieldify.log" 2>&1 || { cat "$OUT/yieldify.log"; exit 2; }
RACE=""
BIN="$OUT/harness.test"
if [ "$2" = "race" ]; then RACE="-race"; BIN="$OUT/harness.race.test"; fi
go test -c $RACE -tags verif -overlay "$OUT/src/overlay.json" -o "$BIN" ./harness 2>"$OUT/build.log" || { cat "$OUT/build.log"; exit 2; }
