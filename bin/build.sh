#!/bin/bash
# Build the instrumented harness test binary from /repo's current working tree.
# usage: build.sh <outdir> [race]
set -e
export GOFLAGS=-mod=mod GOPROXY=off GOSUMDB=off GOTOOLCHAIN=local
export PATH=/opt/veriftools/go1.26.8/bin:$PATH
OUT=$1
ROOT="$(cd "$(dirname "$0")/.." && pwd)"
REPO="${VERIF_REPO:-/repo}"
mkdir -p "$OUT" "$ROOT/.cache"
cd "$ROOT"
if [ ! -x "$ROOT/.cache/yieldify" ] || [ "$ROOT/tools/yieldify/main.go" -nt "$ROOT/.cache/yieldify" ]; then
  go build -o "$ROOT/.cache/yieldify" ./tools/yieldify
fi
rm -rf "$OUT/src"; mkdir -p "$OUT/src"
"$ROOT/.cache/yieldify" -repo "$REPO" -config "$ROOT/yieldify.json" -out "$OUT/src" -hooks "$ROOT/hooks" >"$OUT/yieldify.log" 2>&1 || { cat "$OUT/yieldify.log"; exit 2; }
MODFILE=""
if [ "$REPO" != "/repo" ]; then
  sed "s#=> /repo#=> $REPO#" "$ROOT/go.mod" > "$OUT/go.mod"; cp "$ROOT/go.sum" "$OUT/go.sum"
  MODFILE="-modfile=$OUT/go.mod"
fi
RACE=""
BIN="$OUT/harness.test"
if [ "$2" = "race" ]; then RACE="-race -gcflags=all=-d=checkptr=0"; BIN="$OUT/harness.race.test"; fi
go test -c $RACE $MODFILE -tags verif -overlay "$OUT/src/overlay.json" -o "$BIN" ./harness 2>"$OUT/build.log" || { cat "$OUT/build.log"; exit 2; }
