#!/usr/bin/env python3
"""seedall.py [budget] [id...] : runs every seeded change (seeded/<id>/) against the check of its property
(plus the extra checks listed in seeded/<id>/meta.json "also") via bin/seedrun.sh and records the result in
meta.json["checks"]. /repo must be clean; it is restored after every run."""
import json, os, re, subprocess, sys, time, glob
ROOT = os.path.dirname(os.path.dirname(os.path.abspath(__file__)))
budget = sys.argv[1] if len(sys.argv) > 1 else '45'
only = set(sys.argv[2:])
summary = []
for d in sorted(glob.glob(ROOT + '/seeded/*/')):
    sid = os.path.basename(d.rstrip('/'))
    if only and sid not in only: continue
    mp = d + 'meta.json'
    m = json.load(open(mp))
    prop = m.get('property') or sid[:3]
    checks = [prop] + [c for c in m.get('also', []) if c != prop]
    m.setdefault('checks', {})
    for chk in checks:
        for f in glob.glob(ROOT + '/replays/%s-*' % chk): os.remove(f)
        out = subprocess.run([ROOT + '/bin/seedrun.sh', sid, chk, budget], stdout=subprocess.PIPE, stderr=subprocess.STDOUT).stdout.decode()
        mo = re.search(r'RESULT seeded=\S+ check=\S+ exit=(\d+)', out)
        code = int(mo.group(1)) if mo else -1
        sigs = re.findall(r'^signature: (\S+)', out, re.M)
        m['checks'][chk] = {'exit': code, 'caught': code == 1, 'signatures': sigs[:8], 'budget_s': int(budget),
                            'repo_head': subprocess.check_output(['git', '-C', '/repo', 'rev-parse', '--short', 'HEAD']).decode().strip(),
                            'verif_head': subprocess.check_output(['git', '-C', ROOT, 'rev-parse', '--short', 'HEAD']).decode().strip(),
                            'when': time.strftime('%Y-%m-%dT%H:%MZ', time.gmtime())}
        summary.append((sid, chk, code, sigs[:2]))
        print(sid, chk, 'exit=%d' % code, sigs[:2], flush=True)
    json.dump(m, open(mp, 'w'), indent=1)
for f in glob.glob(ROOT + '/replays/*'): pass
print('MISSED:', [(s, c) for s, c, code, _ in summary if code != 1])
