#!/bin/bash
# seedrun.sh <seeded-id> <check-id> [budget] : applies /verif/seeded/<id>/patch.diff to /repo, runs the check, ALWAYS reverts.
ID=$1; P=$2; B=${3:-60}
ROOT="$(cd "$(dirname "$0")/.." && pwd)"
if ! git -C /repo diff --quiet; then echo "/repo is dirty"; exit 2; fi
git -C /repo apply --whitespace=nowarn "$ROOT/seeded/$ID/patch.diff" || exit 2
trap 'git -C /repo checkout -- .' EXIT
out=$("$ROOT/bin/verifctl" check $P --budget $B 2>&1); code=$?
echo "$out" | grep "quick:\|^VIOLATION\|^signature\|BUILD FAILED\|HARNESS" | cut -c1-300
echo "RESULT seeded=$ID check=$P exit=$code"
