#!/usr/bin/env python3
"""verify_findings.py [property...] : audit of KNOWN_FINDINGS.json (authoring-time tool).
For every entry: the committed replay must NOT reproduce on /repo (fixed) or must reproduce (known).
For every fixed entry whose fix commit reverts textually on HEAD, the replay must reproduce on the
tree without that fix (scratch worktree outside /repo and /verif, removed afterwards).
Prints one line per entry; exit 1 if a fixed entry reproduces on /repo or a known one does not."""
import json, os, subprocess, sys, collections
ROOT = os.path.dirname(os.path.dirname(os.path.abspath(__file__)))
kf = json.load(open(ROOT + '/KNOWN_FINDINGS.json'))['findings']
props = set(sys.argv[1:])
def replay(path, env=None):
    e = dict(os.environ); e.update(env or {})
    out = subprocess.run([ROOT + '/bin/verifctl', 'replay', path], env=e, stdout=subprocess.PIPE, stderr=subprocess.STDOUT).stdout.decode()
    if 'REPLAY reproduced' in out: return 'reproduced'
    if 'REPLAY not-reproduced' in out: return 'not-reproduced'
    return 'error: ' + out[-300:].replace('\n', ' | ')
bad = 0
by_commit = collections.defaultdict(list)
for e in kf:
    if props and e['property'] not in props: continue
    r = replay(ROOT + '/' + e['replay'])
    want = 'reproduced' if e.get('status') == 'known' else 'not-reproduced'
    ok = r == want
    if not ok: bad += 1
    print('HEAD %-14s %s %s' % (r, 'ok ' if ok else 'BAD', e['id']), flush=True)
    if e.get('status') == 'fixed' and e.get('commit'):
        by_commit[e['commit']].append(e)
for commit, es in by_commit.items():
    wt = '/dev/shm/vf-%d' % os.getpid()
    subprocess.check_call(['git', '-C', '/repo', 'worktree', 'add', '-q', '--detach', wt, 'HEAD'])
    try:
        p = subprocess.run(['git', '-C', wt, 'revert', '--no-commit', commit], stdout=subprocess.PIPE, stderr=subprocess.STDOUT)
        if p.returncode != 0:
            for e in es: print('MINUS does-not-revert-textually      %s (%s)' % (e['id'], commit), flush=True)
            continue
        for e in es:
            r = replay(ROOT + '/' + e['replay'], {'VERIF_REPO': wt})
            print('MINUS %-14s %s %s (%s)' % (r, 'ok ' if r == 'reproduced' else 'WEAK', e['id'], commit), flush=True)
    finally:
        subprocess.call(['git', '-C', '/repo', 'worktree', 'remove', '--force', wt])
sys.exit(1 if bad else 0)
