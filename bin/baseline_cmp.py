#!/usr/bin/env python3
"""Compare a `go test -json` log against the pinned stable test list."""
import json, sys
b = json.load(open('/root/.vp/BASELINE.json'))
stable = set(b['stable_pass'])
res = {}
for line in open(sys.argv[1]):
    try:
        e = json.loads(line)
    except Exception:
        continue
    if e.get('Test') and e.get('Action') in ('pass', 'fail', 'skip'):
        res[e['Package'] + '::' + e['Test']] = e['Action']
bad = sorted(t for t in stable if res.get(t) != 'pass')
print("stable", len(stable), "passed", sum(1 for t in stable if res.get(t) == 'pass'))
for t in bad:
    print("NOT-PASS", t, res.get(t))
sys.exit(1 if bad else 0)
