#!/bin/bash
# usage: mkfinding.sh <fix-commit> <property> [budget]
# Re-creates the tree WITHOUT one fix (scratch worktree of /repo, fix reverse-applied), runs the property's
# check there and lists the replay files it produced (to be committed under findings/ as "fixed" entries).
set -e
C=$1; P=$2; B=${3:-30}
ROOT="$(cd "$(dirname "$0")/.." && pwd)"
WT=/dev/shm/mkfinding-$$
git -C /repo worktree add -q --detach $WT HEAD
git -C $WT revert --no-commit $C
rm -f "$ROOT"/replays/$P-*
VERIF_REPO=$WT "$ROOT/bin/verifctl" check $P --budget $B || true
git -C /repo worktree remove --force $WT
ls -la "$ROOT"/replays/ | grep "$P-" || true
