#!/usr/bin/env python3
"""recfinding.py <fix-commit> <property> <finding-id> "<what failed>" [--budget N] [--sig SUBSTR] [--also C1,C2]

Re-creates the tree WITHOUT one fix (scratch worktree of /repo, `git revert --no-commit`; --also reverts
further commits first, newest first, when a later fix builds on this one), runs the property's check
there, copies the lowest-run-index replay of every distinct signature (optionally filtered) to
findings/ and appends "fixed" entries to KNOWN_FINDINGS.json. Used at authoring time only; checks
never write that file.
"""
import argparse, glob, json, os, shutil, subprocess, sys
ROOT = os.path.dirname(os.path.dirname(os.path.abspath(__file__)))
ap = argparse.ArgumentParser()
ap.add_argument('commit'); ap.add_argument('prop'); ap.add_argument('fid'); ap.add_argument('what')
ap.add_argument('--budget', default='40'); ap.add_argument('--sig', default=''); ap.add_argument('--also', default='')
ap.add_argument('--race', action='store_true'); ap.add_argument('--trust', action='store_true', help='with --replay: the fix does not revert textually; only check that the replay does not reproduce on /repo (the minus-tree run was done by hand)'); ap.add_argument('--replay', default='', help='take this replay file (confirm it on the reverted tree) instead of searching')
a = ap.parse_args()
wt = '/dev/shm/recfinding-%d' % os.getpid()
subprocess.check_call(['git', '-C', '/repo', 'worktree', 'add', '-q', '--detach', wt, 'HEAD'])
try:
    if a.trust:
        out = subprocess.run([ROOT + '/bin/verifctl', 'replay', a.replay], stdout=subprocess.PIPE, stderr=subprocess.STDOUT).stdout.decode()
        if 'REPLAY not-reproduced' not in out:
            print(out[-2000:]); print('replay still reproduces on /repo'); sys.exit(1)
        for f in glob.glob(ROOT + '/replays/%s-*' % a.prop):
            os.remove(f)
        shutil.copy(a.replay, ROOT + '/replays/%s-0-0-%s' % (a.prop, os.path.basename(a.replay)))
        a.replay = ''
        raise StopIteration
    for c in [x for x in a.also.split(',') if x] + [a.commit]:
        subprocess.check_call(['git', '-C', wt, 'revert', '--no-commit', c])
    for f in glob.glob(ROOT + '/replays/%s-*' % a.prop):
        os.remove(f)
    env = dict(os.environ, VERIF_REPO=wt)
    if a.replay:
        out = subprocess.run([ROOT + '/bin/verifctl', 'replay', a.replay], env=env, stdout=subprocess.PIPE, stderr=subprocess.STDOUT).stdout.decode()
        if 'REPLAY reproduced' not in out:
            print(out[-2000:]); print('replay does NOT reproduce on the tree without the fix'); sys.exit(1)
        out = subprocess.run([ROOT + '/bin/verifctl', 'replay', a.replay], stdout=subprocess.PIPE, stderr=subprocess.STDOUT).stdout.decode()
        if 'REPLAY not-reproduced' not in out:
            print(out[-2000:]); print('replay still reproduces on /repo'); sys.exit(1)
        shutil.copy(a.replay, ROOT + '/replays/%s-0-0-%s' % (a.prop, os.path.basename(a.replay)))
    else:
        subprocess.call([ROOT + '/bin/verifctl', 'check', a.prop, '--budget', a.budget], env=env)
except StopIteration:
    pass
finally:
    subprocess.call(['git', '-C', '/repo', 'worktree', 'remove', '--force', wt])
best = {}
for f in glob.glob(ROOT + '/replays/%s-*.json' % a.prop):
    r = json.load(open(f))
    sig = r['signature']
    if a.sig and a.sig not in sig:
        continue
    key = (r.get('tape_len', 1 << 30), r.get('run_index', 0))
    if sig not in best or key < best[sig][0]:
        best[sig] = (key, f, r)
if not best:
    print('NO REPLAY produced (filter %r)' % a.sig); sys.exit(1)
kf = json.load(open(ROOT + '/KNOWN_FINDINGS.json'))
short = subprocess.check_output(['git', '-C', '/repo', 'rev-parse', '--short', a.commit]).decode().strip()
for n, (sig, (_, f, r)) in enumerate(sorted(best.items())):
    dst = 'findings/' + os.path.basename(f)
    shutil.copy(f, ROOT + '/' + dst)
    fid = a.fid if n == 0 else '%s-%d' % (a.fid, n + 1)
    kf['findings'] = [e for e in kf['findings'] if e['id'] != fid]
    e = {'property': a.prop, 'id': fid, 'status': 'fixed', 'signature': sig,
         'what': 'fixed: property=%s %s %s' % (a.prop, short, a.what), 'replay': dst, 'commit': short}
    if r.get('race') or a.race:
        e['race'] = True
    kf['findings'].append(e)
    print('RECORDED', fid, sig, dst)
json.dump(kf, open(ROOT + '/KNOWN_FINDINGS.json', 'w'), indent=1)
for f in glob.glob(ROOT + '/replays/%s-*' % a.prop):
    os.remove(f)
