#!/usr/bin/env python3
"""seedconfirm.py <srcdir> <ID> : confirms one seeded change in a scratch worktree of /repo
(outside /repo and /verif): patch applies, tree builds, touched packages' tests pass, the demonstration FAILS with
the change and PASSES without. On success copies patch.diff, the demo and a completed meta.json to /verif/seeded/<ID>/.
"""
import sys, os, re, json, subprocess, shutil, tempfile
src, sid = sys.argv[1], sys.argv[2]
env = dict(os.environ, GOFLAGS="-mod=mod", GOPROXY="off", GOSUMDB="off")
def run(cmd, cwd, timeout=1500):
    r = subprocess.run(cmd, shell=True, cwd=cwd, env=env, stdout=subprocess.PIPE, stderr=subprocess.STDOUT, text=True, timeout=timeout)
    return r.returncode, r.stdout
wt = tempfile.mkdtemp(prefix="seedconfirm-", dir="/tmp")
os.rmdir(wt)
subprocess.check_call(["git", "-C", "/repo", "worktree", "add", "-q", "--detach", wt, "HEAD"])
res = {"id": sid}
try:
    demo = open(os.path.join(src, "demo_test.go.txt")).read()
    meta = json.load(open(os.path.join(src, "meta.json")))
    m = re.search(r"[Pp]lace (?:this file )?(?:as|in|at)\s+`?([\w/\.\-]+_test\.go)`?", demo) or re.search(r"([\w/]+/[\w\-]+_test\.go)", json.dumps(meta))
    place = m.group(1) if m else None
    m = re.search(r"(go test [^\n`\"']*-run[^\n`\"']*)", demo) or re.search(r"(go test [^\n`\"']*-run[^`\"'\\]*)", json.dumps(meta))
    cmd = m.group(1).strip() if m else None
    if len(sys.argv) > 3: place = sys.argv[3]
    if len(sys.argv) > 4: cmd = sys.argv[4]
    if not place or not cmd:
        print("cannot find demo placement/command", place, cmd); sys.exit(2)
    cmd = cmd.replace(" -v ", " ")
    res["demo_place"], res["demo_cmd"] = place, cmd
    # without the change
    shutil.copy(os.path.join(src, "demo_test.go.txt"), os.path.join(wt, place))
    c0, o0 = run(cmd, wt)
    res["demo_without_change"] = "PASS" if c0 == 0 else "FAIL"
    # with the change
    c, o = run("git apply --whitespace=nowarn %s" % os.path.join(src, "patch.diff"), wt)
    if c != 0:
        print("patch does not apply:\n", o); sys.exit(2)
    c, o = run("go build ./...", wt)
    res["build"] = "ok" if c == 0 else "FAILED"
    c1, o1 = run(cmd, wt)
    res["demo_with_change"] = "PASS" if c1 == 0 else "FAIL"
    # existing tests of the touched packages (demo removed)
    os.remove(os.path.join(wt, place))
    files = [l[6:] for l in open(os.path.join(src, "patch.diff")) if l.startswith("+++ b/")]
    pkgs = sorted({"./" + os.path.dirname(f.strip()) for f in files})
    users = {"./chain/transaction": ["./chain/consensus", "./chain"], "./chain/types": ["./chain/transaction", "./chain/consensus", "./chain/txpool"],
             "./chain/account": ["./chain/transaction", "./chain/consensus"], "./store": ["./chain/account", "./chain/consensus", "./chain"],
             "./chain/vm": ["./chain/transaction"], "./chain/deputynode": ["./chain/consensus", "./chain/miner"], "./chain/txpool": ["./chain/consensus"],
             "./common/rlp": ["./chain/types", "./network/p2p"], "./network/p2p": ["./network"], "./chain/consensus": ["./chain"], "./store/trie": ["./store", "./chain/account"],
             "./common/merkle": ["./chain/types"], "./common": ["./chain/types"], "./common/crypto": ["./chain/types"]}
    allp = list(pkgs)
    for p in pkgs:
        allp += users.get(p, [])
    allp = sorted(set(allp))
    c, o = run("go test -vet=off -count=1 %s" % " ".join(allp), wt, timeout=3000)
    failed = [l for l in o.split("\n") if l.startswith("FAIL") or l.startswith("--- FAIL")]
    if failed:  # flaky timing tests: one re-run of the failing packages
        fp = sorted({l.split()[1] for l in failed if l.startswith("FAIL") and len(l.split()) > 1 and "/" in l.split()[1]})
        if fp:
            c, o2 = run("go test -vet=off -count=1 %s" % " ".join(fp), wt, timeout=3000)
            failed = [l for l in o2.split("\n") if l.startswith("FAIL") or l.startswith("--- FAIL")]
    res["existing_tests"] = {"packages": allp, "result": "pass" if not failed else "FAIL: " + "; ".join(failed[:6])}
    ok = res["build"] == "ok" and res["demo_without_change"] == "PASS" and res["demo_with_change"] == "FAIL" and not failed
    res["confirmed"] = ok
    print(json.dumps(res, indent=1))
    if ok:
        dst = os.path.join("/verif/seeded", sid)
        os.makedirs(dst, exist_ok=True)
        shutil.copy(os.path.join(src, "patch.diff"), dst)
        shutil.copy(os.path.join(src, "demo_test.go.txt"), dst)
        meta2 = {"id": sid, "property": meta.get("property", sid[:3]), "summary": meta.get("summary"), "needs_to_manifest": meta.get("needs_to_manifest"),
                 "files_touched": meta.get("files_touched"), "source": "independent sub-agent given only the property text and a scratch worktree",
                 "confirmed_by_lead": res, "checks": {}}
        json.dump(meta2, open(os.path.join(dst, "meta.json"), "w"), indent=1)
    else:
        open("/tmp/seedconfirm-%s.log" % sid, "w").write(o0 + "\n=====WITH\n" + o1 + "\n====TESTS\n" + o)
finally:
    subprocess.call(["git", "-C", "/repo", "worktree", "remove", "--force", wt])
