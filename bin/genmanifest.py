#!/usr/bin/env python3
"""Regenerates MANIFEST.json from checks.json (+ properties.jsonl for the not_applicable list)."""
import json, os
V = os.path.dirname(os.path.dirname(os.path.abspath(__file__)))
checks = json.load(open(os.path.join(V, "checks.json")))
props = [json.loads(l) for l in open(os.path.join(V, "properties.jsonl")) if l.strip()]
na_reasons = json.load(open(os.path.join(V, "not_applicable.json"))) if os.path.exists(os.path.join(V, "not_applicable.json")) else {}
m = {
 "version": 1,
 "setup_cmd": "bin/verifctl setup",
 "hooks": {
   "guard": "verif",
   "enable": "no hook commits in /repo: bin/build.sh instruments a scratch copy of /repo's current tree (tools/yieldify) and compiles it with `go1.26.8 test -c -tags verif -overlay <generated overlay.json>`; accessor files under /verif/hooks/<pkg>/verif_export.go carry `//go:build verif` and are ADDED to the repo packages by the same overlay",
   "baseline_off_cmd": "cd /repo && GOFLAGS=-mod=mod go test -json -vet=off -count=1 -timeout 25m ./...",
   "source_commits": [],
   "add_only": True
 },
 "engines": [{"name": "simrt+yieldify+harness", "path": "/verif", "serves_properties": sorted(checks),
   "kind_free_text": "deterministic simulation with fault injection: testing/synctest bubble clock + token scheduler over AST-instrumented repo code (tools/yieldify, out-of-tree via go build -overlay), one seeded choice tape per run (replayable, delta-minimised), simulated disk (simos), LevelDB on retained in-memory storage (simldb), simulated network, crash/torn-write/message faults"}],
 "checks": [],
 "not_applicable": [],
 "notes": "DESIGN.md explains the approach; KNOWN_FINDINGS.json lists known/fixed findings (committed replay files under findings/); seeded/ holds confirmed property-breaking changes used to test sensitivity."
}
for pid in sorted(checks):
    c = checks[pid]
    m["checks"].append({
        "property_id": pid,
        "quick_cmd": "bin/verifctl check %s --tier quick" % pid,
        "thorough_cmd": "bin/verifctl check %s --tier thorough" % pid,
        "evidence_file": "/verif/evidence/%s.json" % pid,
        "replay_cmd_template": "bin/verifctl replay {path}",
        "engine": "simrt+yieldify+harness",
        "level_claimed": {"category": c["level"], "text": c["text"], "design_ref": c.get("design_ref", "DESIGN.md §4 " + pid)},
        "level_note": c["note"],
        "technique": c["technique"],
    })
for p in props:
    if p["id"] not in checks:
        m["not_applicable"].append({"property_id": p["id"], "reason": na_reasons.get(p["id"], "check not built yet in this revision of /verif (work in progress; the technique applies, see DESIGN.md §4)")})
json.dump(m, open(os.path.join(V, "MANIFEST.json"), "w"), indent=1)
print("MANIFEST.json: %d checks, %d not_applicable" % (len(m["checks"]), len(m["not_applicable"])))
