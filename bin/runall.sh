#!/bin/bash
# Runs every registered check once (tier from $1, default quick) and prints one summary line each.
TIER=${1:-quick}
ROOT="$(cd "$(dirname "$0")/.." && pwd)"
cd "$ROOT"
for P in $(python3 -c "import json;print(' '.join(sorted(json.load(open('checks.json')))))"); do
  out=$(bin/verifctl check $P --tier $TIER 2>&1); code=$?
  echo "$P exit=$code $(echo "$out" | grep "$TIER:" | cut -c1-160)"
  echo "$out" | grep "^VIOLATION\|^KNOWN-FINDING" | cut -c1-220
done
