//go:build verif

package log

import "github.com/inconshreveable/log15"

// VerifSetErrorSink routes error-level (and worse) log records to f instead of stderr so
// that the verification harness can CLASSIFY why a call such as InsertBlock refused (the
// engine returns one opaque error). nil restores the harness default (critical only, stderr).
// Overlay-added file; it only replaces the handler of the package's existing logger.
func VerifSetErrorSink(f func(msg string)) {
	if f == nil {
		Setup(LevelCrit, false, false)
		return
	}
	srvLog.SetHandler(log15.LvlFilterHandler(log15.LvlError, log15.FuncHandler(func(r *log15.Record) error {
		f(r.Msg)
		return nil
	})))
}
