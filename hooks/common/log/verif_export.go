//go:build verif

package log

import "github.com/inconshreveable/log15"

// VerifSetHandler lets the harness capture error-level log lines. They are used only to
// classify why a call was refused, never to decide that something is a violation.
func VerifSetHandler(h log15.Handler) { srvLog.SetHandler(h) }
