//go:build verif

package subscribe

import "verif/simrt"

func verifNL_centralRoute() **CentralRouteSub {
	return simrt.NodeLocal("subscribe.centralRoute", func() interface{} {
		p := NewCentralRouteSub()
		return &p
	}).(**CentralRouteSub)
}
