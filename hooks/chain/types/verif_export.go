//go:build verif

package types

import (
	"math/big"

	"github.com/LemoFoundationLtd/lemochain-core/common"
)

// VerifTxFields is a plain copy of every field of a transaction, so that the harness'
// adversary can build transactions no honest constructor would (tampered fields with
// the original signatures, foreign or repeated signatures ...).
type VerifTxFields struct {
	Type         uint16
	Version      uint8
	ChainID      uint16
	From         common.Address
	GasPayer     *common.Address
	To           *common.Address
	ToName       string
	GasPrice     *big.Int
	GasLimit     uint64
	GasUsed      uint64
	Amount       *big.Int
	Data         []byte
	Expiration   uint64
	Message      string
	Sigs         [][]byte
	GasPayerSigs [][]byte
}

func cp2(in [][]byte) [][]byte {
	out := make([][]byte, len(in))
	for i, b := range in {
		out[i] = common.CopyBytes(b)
	}
	return out
}

func (tx *Transaction) VerifFields() VerifTxFields {
	d := tx.data
	f := VerifTxFields{Type: d.Type, Version: d.Version, ChainID: d.ChainID, From: d.From, ToName: d.RecipientName,
		GasPrice: new(big.Int).Set(d.GasPrice), GasLimit: d.GasLimit, GasUsed: d.GasUsed, Amount: new(big.Int).Set(d.Amount),
		Data: common.CopyBytes(d.Data), Expiration: d.Expiration, Message: d.Message, Sigs: cp2(d.Sigs), GasPayerSigs: cp2(d.GasPayerSigs)}
	if d.GasPayer != nil {
		a := *d.GasPayer
		f.GasPayer = &a
	}
	if d.Recipient != nil {
		a := *d.Recipient
		f.To = &a
	}
	return f
}

func VerifNewTx(f VerifTxFields) *Transaction {
	d := txdata{Type: f.Type, Version: f.Version, ChainID: f.ChainID, From: f.From, GasPayer: f.GasPayer, Recipient: f.To,
		RecipientName: f.ToName, GasPrice: new(big.Int), GasLimit: f.GasLimit, GasUsed: f.GasUsed, Amount: new(big.Int),
		Data: common.CopyBytes(f.Data), Expiration: f.Expiration, Message: f.Message, Sigs: cp2(f.Sigs), GasPayerSigs: cp2(f.GasPayerSigs)}
	if f.GasPrice != nil {
		d.GasPrice.Set(f.GasPrice)
	}
	if f.Amount != nil {
		d.Amount.Set(f.Amount)
	}
	if d.Sigs == nil {
		d.Sigs = make([][]byte, 0)
	}
	if d.GasPayerSigs == nil {
		d.GasPayerSigs = make([][]byte, 0)
	}
	return &Transaction{data: d}
}
