//go:build verif

package types

import (
	"math/big"

	"github.com/LemoFoundationLtd/lemochain-core/common"
)

// Overlay-added accessors for the verification harness (property C14): build a
// Transaction from raw field values (the public constructors cannot produce every shape,
// e.g. an absent gas payer or another version) and read all fields back for a
// field-by-field comparison. They only set / read the existing unexported txdata.

type VerifRawTx struct {
	Type          uint16
	Version       uint8
	ChainID       uint16
	From          common.Address
	GasPayer      *common.Address
	Recipient     *common.Address
	RecipientName string
	GasPrice      *big.Int
	GasLimit      uint64
	GasUsed       uint64
	Amount        *big.Int
	Data          []byte
	Expiration    uint64
	Message       string
	Sigs          [][]byte
	GasPayerSigs  [][]byte
}

func VerifNewRawTx(f VerifRawTx) *Transaction {
	return &Transaction{data: txdata{
		Type: f.Type, Version: f.Version, ChainID: f.ChainID, From: f.From, GasPayer: f.GasPayer, Recipient: f.Recipient,
		RecipientName: f.RecipientName, GasPrice: f.GasPrice, GasLimit: f.GasLimit, GasUsed: f.GasUsed, Amount: f.Amount,
		Data: f.Data, Expiration: f.Expiration, Message: f.Message, Sigs: f.Sigs, GasPayerSigs: f.GasPayerSigs,
	}}
}

func (tx *Transaction) VerifRaw() VerifRawTx {
	d := &tx.data
	return VerifRawTx{
		Type: d.Type, Version: d.Version, ChainID: d.ChainID, From: d.From, GasPayer: d.GasPayer, Recipient: d.Recipient,
		RecipientName: d.RecipientName, GasPrice: d.GasPrice, GasLimit: d.GasLimit, GasUsed: d.GasUsed, Amount: d.Amount,
		Data: d.Data, Expiration: d.Expiration, Message: d.Message, Sigs: d.Sigs, GasPayerSigs: d.GasPayerSigs,
	}
}
