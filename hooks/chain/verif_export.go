//go:build verif

package chain

import "github.com/LemoFoundationLtd/lemochain-core/chain/consensus"

// VerifEngine exposes the consensus engine so the harness can call InsertBlock /
// MineBlock / InsertConfirms directly and observe their return values.
func (bc *BlockChain) VerifEngine() *consensus.DPoVP { return bc.engine }
