//go:build verif

package account

import (
	"sort"

	"github.com/LemoFoundationLtd/lemochain-core/common"
)

// Read-only accessors for the C07/C16 whole-state dump. The dump itself is written
// through the public getters of types.AccountAccessor; these accessors only tell the
// harness WHICH addresses and WHICH trie keys exist in the manager's caches, because
// no public API enumerates them (a contract may write any storage key).

func sortedKeys(a, b Storage) []common.Hash {
	seen := make(map[common.Hash]struct{}, len(a)+len(b))
	for k := range a {
		seen[k] = struct{}{}
	}
	for k := range b {
		seen[k] = struct{}{}
	}
	out := make([]common.Hash, 0, len(seen))
	for k := range seen {
		out = append(out, k)
	}
	sort.Slice(out, func(i, j int) bool { return string(out[i][:]) < string(out[j][:]) })
	return out
}

// VerifCachedAddresses returns the addresses of all accounts loaded into the manager (sorted).
func (am *Manager) VerifCachedAddresses() []common.Address {
	out := make([]common.Address, 0, len(am.accountCache))
	for a := range am.accountCache {
		out = append(out, a)
	}
	sort.Slice(out, func(i, j int) bool { return string(out[i][:]) < string(out[j][:]) })
	return out
}

// VerifTrieKeys returns, for an account that is already loaded, the keys present in the
// cached/dirty maps of its four per-account tries (sorted). It does not load the account.
func (am *Manager) VerifTrieKeys(addr common.Address) (storage, assetCode, assetId, equity []common.Hash) {
	sa := am.accountCache[addr]
	if sa == nil {
		return
	}
	a := sa.rawAccount
	return sortedKeys(a.storage.cached, a.storage.dirty), sortedKeys(a.assetCode.cached, a.assetCode.dirty),
		sortedKeys(a.assetId.cached, a.assetId.dirty), sortedKeys(a.equity.cached, a.equity.dirty)
}
