//go:build verif

package account

import (
	"github.com/LemoFoundationLtd/lemochain-core/chain/types"
	"github.com/LemoFoundationLtd/lemochain-core/common"
)

// VerifVersionTrieKey exposes the key under which the version of (address, log type) is
// kept in the version trie, so that the durability check (C08) can read the trie of the
// stable block directly.
func VerifVersionTrieKey(address common.Address, logType types.ChangeLogType) []byte {
	return versionTrieKey(address, logType)
}
