//go:build verif

package consensus

import (
	"github.com/LemoFoundationLtd/lemochain-core/common"

	"verif/simrt"
)

type verifSigCache = struct {
	Hash common.Hash
	Sig  []byte
}

func verifNL_sigCache() *verifSigCache {
	return simrt.NodeLocal("consensus.sigCache", func() interface{} { return new(verifSigCache) }).(*verifSigCache)
}
