//go:build verif

package deputynode

import (
	"crypto/ecdsa"

	"verif/simrt"
)

// Node-local replacements for the process-global self key (overlay-added; see
// /verif/DESIGN.md §3.1). Only used when the package is built by the verification harness.

func verifNL_selfNodeKey() **ecdsa.PrivateKey {
	return simrt.NodeLocal("deputynode.selfNodeKey", func() interface{} { return new(*ecdsa.PrivateKey) }).(**ecdsa.PrivateKey)
}

func verifNL_selfNodeID() *[]byte {
	return simrt.NodeLocal("deputynode.selfNodeID", func() interface{} { return new([]byte) }).(*[]byte)
}
