//go:build verif

package txpool

import (
	"github.com/LemoFoundationLtd/lemochain-core/chain/types"
	"github.com/LemoFoundationLtd/lemochain-core/common"
)

// VerifSetDefaultPoolCap sets the initial capacity used by NewTxPool (per-run knob so
// that the growth path is exercised with a handful of transactions).
func VerifSetDefaultPoolCap(n int) { defaultPoolCap = n }

// VerifDump exposes the pool's internal representation (read-only copy).
func (pool *TxPool) VerifDump() (slots []*types.Transaction, cap int, index map[common.Hash]int) {
	slots = make([]*types.Transaction, len(pool.txs))
	copy(slots, pool.txs)
	index = make(map[common.Hash]int, len(pool.hashIndexMap))
	for k, v := range pool.hashIndexMap {
		index[k] = v
	}
	return slots, pool.cap, index
}

// VerifLoad rebuilds a pool from a dump (used by the sequential reference replay).
func VerifLoad(slots []*types.Transaction, cap int, index map[common.Hash]int) *TxPool {
	pool := &TxPool{cap: cap}
	c := cap
	if c < len(slots) {
		c = len(slots)
	}
	pool.txs = make(types.Transactions, len(slots), c)
	copy(pool.txs, slots)
	pool.hashIndexMap = make(map[common.Hash]int, len(index))
	for k, v := range index {
		pool.hashIndexMap[k] = v
	}
	return pool
}
