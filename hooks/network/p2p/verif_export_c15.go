//go:build verif

package p2p

import "sync/atomic"

// Accessors used by the netsim world (C15). The real Server.Start opens a TCP listener
// and a dial loop; inside a simulation there are no sockets, so the harness marks the
// server as running and runs its event loop (the unchanged Server.run) as a simulator task.
// Connections are handed to the unchanged, exported Server.HandleConn.

// VerifMarkRunning sets the "running" flag exactly as Start does, without listening.
func (srv *Server) VerifMarkRunning() { atomic.StoreInt32(&srv.running, 1) }

// VerifRun runs the server's event loop (add/delete peer events) until VerifQuit.
func (srv *Server) VerifRun() { srv.run() }

// VerifQuit ends VerifRun and unsubscribes the server from the event bus.
func (srv *Server) VerifQuit() {
	if atomic.CompareAndSwapInt32(&srv.running, 1, 0) {
		srv.unSub()
		close(srv.quitCh)
	}
}

// VerifConnected returns the number of connections the server currently tracks.
func (srv *Server) VerifConnected() int {
	srv.peersMux.Lock()
	defer srv.peersMux.Unlock()
	return len(srv.connectedNodes)
}

// VerifAesKey returns the session key negotiated by DoHandshake (nil before it).
// The attacker side of a simulated connection uses it to craft frames exactly as a
// legitimate remote could.
func VerifAesKey(p IPeer) []byte {
	if pp, ok := p.(*Peer); ok {
		return pp.aes
	}
	return nil
}
