//go:build verif

package network

import "github.com/LemoFoundationLtd/lemochain-core/network/p2p"

// Read-only accessors used by the netsim world (C20, C15). They only expose existing state.

// VerifBlockCache returns the protocol manager's cache of out-of-order blocks.
func (pm *ProtocolManager) VerifBlockCache() *BlockCache { return pm.blockCache }

// VerifConfirmCacheSize returns the number of early confirmations currently cached.
func (pm *ProtocolManager) VerifConfirmCacheSize() int { return pm.confirmsCache.Size() }

// VerifPeerIDs returns the node ids of the registered peers (unordered).
func (pm *ProtocolManager) VerifPeerIDs() []p2p.NodeID {
	pm.peers.lock.RLock()
	defer pm.peers.lock.RUnlock()
	out := make([]p2p.NodeID, 0, len(pm.peers.peers))
	for id := range pm.peers.peers {
		out = append(out, id)
	}
	return out
}

// VerifRelease drops the manager's references to the chain, the pool and its caches. The
// harness calls it after Stop at the very end of a run: goroutines of the manager that can
// never return (handleMsg stays blocked in MsgCache.Pop once the remote side has closed the
// connection) would otherwise pin the whole node in memory for the rest of the worker process.
func (pm *ProtocolManager) VerifRelease() {
	pm.chain, pm.dm, pm.txPool, pm.txGuard, pm.discover = nil, nil, nil, nil, nil
	pm.blockCache, pm.confirmsCache, pm.peers = nil, nil, nil
}
