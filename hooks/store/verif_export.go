//go:build verif

package store

// VerifSetMaxCandidateCount lets the harness shrink the candidate list (per run knob).
func VerifSetMaxCandidateCount(n int) { max_candidate_count = n }

func VerifMaxCandidateCount() int { return max_candidate_count }
